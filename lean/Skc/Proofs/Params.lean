import Mathlib.Tactic
import Mathlib.Data.List.Basic
import Mathlib.Data.List.Nodup
import Mathlib.Data.List.Forall2
import Skc.Model.Pipeline
set_option linter.unusedSectionVars false
set_option linter.unusedVariables false
set_option linter.unusedSimpArgs false

/-! Helper lemmas for C16, part 3: constructors, `get_parameters`, `copy`. -/
namespace Skc.Pipeline

theorem atomFloat_idem (a w : Atom) (h : atomFloat a = .ok w) : atomFloat w = .ok w := by
  cases a <;> simp [atomFloat] at h <;> subst h <;> rfl

theorem atomInt_idem (a w : Atom) (h : atomInt a = .ok w) : atomInt w = .ok w := by
  cases a <;> simp [atomInt] at h <;> subst h <;> rfl

/-- every coercion a constructor applies is idempotent: what it stores is accepted again and stored unchanged -/
theorem Coercion.apply_idem (c : Coercion) (v w : Val) (h : c.apply v = .ok w) : c.apply w = .ok w := by
  cases c with
  | keep => simp [Coercion.apply] at h ⊢
  | float =>
    cases v with
    | atom a =>
      simp only [Coercion.apply] at h
      cases ha : atomFloat a with
      | error e => simp [ha, Except.map] at h
      | ok a' =>
        simp [ha, Except.map] at h
        subst h
        simp [Coercion.apply, atomFloat_idem a a' ha, Except.map]
    | _ => simp [Coercion.apply] at h
  | bool =>
    simp only [Coercion.apply, Except.ok.injEq] at h
    subst h
    simp [Coercion.apply, valTruthy, atomTruthy]
  | int =>
    cases v with
    | atom a =>
      simp only [Coercion.apply] at h
      cases ha : atomInt a with
      | error e => simp [ha, Except.map] at h
      | ok a' =>
        simp [ha, Except.map] at h
        subst h
        simp [Coercion.apply, atomInt_idem a a' ha, Except.map]
    | _ => simp [Coercion.apply] at h
  | floatPair =>
    cases v with
    | tuple l =>
      match l, h with
      | [a, b], h =>
        simp only [Coercion.apply] at h
        cases ha : atomFloat a with
        | error e => simp [ha] at h
        | ok a' =>
          cases hb : atomFloat b with
          | error e => simp [ha, hb] at h
          | ok b' =>
            simp [ha, hb] at h
            subst h
            simp [Coercion.apply, atomFloat_idem a a' ha, atomFloat_idem b b' hb]
      | [], h => simp [Coercion.apply] at h
      | [_], h => simp [Coercion.apply] at h
      | _ :: _ :: _ :: _, h => simp [Coercion.apply] at h
    | _ => simp [Coercion.apply] at h
  | oneOf cs =>
    cases v with
    | atom a =>
      cases a <;> simp [Coercion.apply] at h
      case str s =>
        split_ifs at h with hs
        simp only [Except.ok.injEq] at h; subst h
        simp [Coercion.apply, hs]
    | _ => simp [Coercion.apply] at h
  | oneOfOrCallable cs =>
    cases v with
    | atom a =>
      cases a <;> simp [Coercion.apply] at h
      case str s =>
        split_ifs at h with hs
        simp only [Except.ok.injEq] at h; subst h
        simp [Coercion.apply, hs]
      case fn f =>
        subst h
        simp [Coercion.apply]
    | _ => simp [Coercion.apply] at h
  | strategy cs =>
    cases v with
    | atom a =>
      cases a <;> simp [Coercion.apply] at h
      case str s =>
        split_ifs at h with hs
        simp only [Except.ok.injEq] at h; subst h
        simp [Coercion.apply]
      case fn f =>
        subst h
        simp [Coercion.apply]
    | _ => simp [Coercion.apply] at h
  | solver av =>
    cases v with
    | atom a =>
      cases a <;> simp [Coercion.apply] at h
      case none => subst h; simp [Coercion.apply]
      case str s =>
        split_ifs at h with hs
        simp only [Except.ok.injEq] at h; subst h
        simp [Coercion.apply, hs]
      case obj o => subst h; simp [Coercion.apply]
    | _ => simp [Coercion.apply] at h
  | rankBy =>
    cases v with
    | atom a =>
      cases a <;> simp [Coercion.apply] at h
      case bool b =>
        cases b <;> simp [Coercion.apply] at h
        subst h; simp [Coercion.apply]
      case int i =>
        split_ifs at h with hs
        simp only [Except.ok.injEq] at h; subst h
        simp [Coercion.apply, hs]
      case float q =>
        split_ifs at h with hs
        simp only [Except.ok.injEq] at h; subst h
        simp [Coercion.apply, hs]
    | _ => simp [Coercion.apply] at h
  | hasEvaluate =>
    cases v with
    | atom a =>
      cases a <;> simp [Coercion.apply] at h
      case dmaker d => subst h; simp [Coercion.apply]
    | _ => simp [Coercion.apply] at h
  | rng =>
    cases v with
    | atom a =>
      cases a <;> simp [Coercion.apply] at h
      case none => subst h; simp [Coercion.apply]
      case int i =>
        split_ifs at h with hs
        simp only [Except.ok.injEq] at h; subst h
        simp [Coercion.apply]
      case obj o => subst h; simp [Coercion.apply]
    | _ => simp [Coercion.apply] at h
  | arithFilters =>
    cases v with
    | dict l =>
      simp only [Coercion.apply] at h
      split_ifs at h with h1 h2
      · simp only [Except.ok.injEq] at h; subst h
        simp [Coercion.apply, h1, h2]
    | dictSeq l => simp only [Coercion.apply] at h; split_ifs at h
    | _ => simp [Coercion.apply] at h
  | setFilters =>
    cases v with
    | dictSeq l =>
      simp only [Coercion.apply] at h
      split_ifs at h with h1 h2
      · simp only [Except.ok.injEq] at h; subst h
        simp [Coercion.apply, h1, h2]
    | dict l => simp only [Coercion.apply] at h; split_ifs at h
    | _ => simp [Coercion.apply] at h
  | fnFilters =>
    cases v with
    | dict l =>
      simp only [Coercion.apply] at h
      split_ifs at h with h1 h2
      · simp only [Except.ok.injEq] at h; subst h
        simp [Coercion.apply, h1, h2]
    | dictSeq l => simp only [Coercion.apply] at h; split_ifs at h
    | _ => simp [Coercion.apply] at h
  | stepList =>
    cases v with
    | dict l => simp only [Coercion.apply, Except.ok.injEq] at h; subst h; simp [Coercion.apply]
    | _ => simp [Coercion.apply] at h

end Skc.Pipeline

namespace Skc.Pipeline

/-! ### `mapMExcept` -/
section mapM
variable {α β : Type}

theorem mapMExcept_ok_iff (f : α → Except Err β) (l : List α) (r : List β) :
    mapMExcept f l = .ok r ↔ List.Forall₂ (fun a b => f a = .ok b) l r := by
  induction l generalizing r with
  | nil =>
    cases r <;> simp [mapMExcept]
  | cons a t ih =>
    simp only [mapMExcept]
    cases ha : f a with
    | error e =>
      simp only [reduceCtorEq, false_iff]
      intro h
      cases h with
      | cons h1 _ => rw [ha] at h1; cases h1
    | ok b =>
      cases ht : mapMExcept f t with
      | error e =>
        simp only [reduceCtorEq, false_iff]
        intro h
        cases h with
        | cons _ h2 => rw [← ih] at h2; rw [ht] at h2; cases h2
      | ok bs =>
        simp only [Except.ok.injEq]
        constructor
        · rintro rfl
          exact List.Forall₂.cons ha ((ih bs).mp ht)
        · intro h
          cases h with
          | cons h1 h2 =>
            rw [ha] at h1
            cases h1
            rw [← ih] at h2
            rw [ht] at h2
            cases h2
            rfl

theorem mapMExcept_congr (f g : α → Except Err β) (l : List α) (h : ∀ x ∈ l, f x = g x) :
    mapMExcept f l = mapMExcept g l := by
  induction l with
  | nil => rfl
  | cons a t ih =>
    simp only [mapMExcept]
    rw [h a (by simp), ih (fun x hx => h x (by simp [hx]))]

end mapM

/-! ### constructors -/

/-- a class specification is well formed when its field names are pairwise different and are exactly the
declared parameters (`_skcriteria_parameters` lists every readable constructor argument and nothing else) -/
def ClassSpec.WF (c : ClassSpec) : Prop :=
  (c.fields.map (·.name)).Nodup ∧ (∀ p ∈ c.declared, p ∈ c.fields.map (·.name)) ∧ (∀ f ∈ c.fields, f.name ∈ c.declared)

instance (c : ClassSpec) : Decidable c.WF := by unfold ClassSpec.WF; infer_instance

theorem Field.store_fst (f : Field) (kw : Params) (y : String × Val) (h : f.store kw = .ok y) : y.1 = f.name := by
  unfold Field.store at h
  cases ha : f.arg kw with
  | none => simp [ha] at h
  | some v =>
    simp only [ha] at h
    cases hc : f.coerce.apply v with
    | error e => simp [hc] at h
    | ok w => simp [hc] at h; rw [← h]

theorem Field.store_ok (f : Field) (kw : Params) (y : String × Val) (h : f.store kw = .ok y) :
    ∃ v, f.arg kw = some v ∧ f.coerce.apply v = .ok y.2 ∧ y.1 = f.name := by
  unfold Field.store at h
  cases ha : f.arg kw with
  | none => simp [ha] at h
  | some v =>
    simp only [ha] at h
    cases hc : f.coerce.apply v with
    | error e => simp [hc] at h
    | ok w => simp [hc] at h; exact ⟨v, rfl, by rw [← h]; exact hc, by rw [← h]⟩

/-- the stored attributes answer every field name with that field's stored value -/
theorem stored_lookup (kw : Params) (fields : List Field) (a : Params)
    (h : List.Forall₂ (fun f y => Field.store f kw = .ok y) fields a) (hn : (fields.map (·.name)).Nodup) :
    a.map (·.1) = fields.map (·.name) ∧
    ∀ f ∈ fields, ∃ y, f.store kw = .ok y ∧ pget a f.name = some y.2 := by
  induction h with
  | nil => simp
  | @cons f y fs ys h1 h2 ih =>
    have hn' : f.name ∉ fs.map (·.name) ∧ (fs.map (·.name)).Nodup := by
      rw [List.map_cons] at hn; exact List.nodup_cons.mp hn
    obtain ⟨ihk, ihv⟩ := ih hn'.2
    have hy := Field.store_fst f kw y h1
    refine ⟨by simp [hy, ihk], ?_⟩
    intro g hg
    rcases List.mem_cons.mp hg with rfl | hg
    · refine ⟨y, h1, ?_⟩
      obtain ⟨k, w⟩ := y
      simp only at hy
      subst hy
      simp [pget, List.lookup_cons]
    · obtain ⟨z, hz1, hz2⟩ := ihv g hg
      refine ⟨z, hz1, ?_⟩
      have hne : g.name ≠ f.name := by
        intro e
        apply hn'.1
        rw [← e]
        exact List.mem_map_of_mem hg
      obtain ⟨k, w⟩ := y
      simp only at hy
      subst hy
      have hb : (g.name == f.name) = false := by simpa using hne
      simp only [pget, List.lookup_cons, hb]
      exact hz2

theorem norm_ok_iff (c : ClassSpec) (kw a : Params) :
    c.norm kw = .ok a ↔
      c.knows kw = true ∧ (∀ f ∈ c.fields, (f.arg kw).isSome) ∧
      List.Forall₂ (fun f y => Field.store f kw = .ok y) c.fields a ∧ c.check.run a = .ok () := by
  unfold ClassSpec.norm
  by_cases hk : c.knows kw = true
  · by_cases hr : (c.fields.any fun f => (f.arg kw).isNone) = true
    · simp only [hk, Bool.not_true, Bool.false_eq_true, if_false, hr, if_true, reduceCtorEq, false_iff]
      rintro ⟨-, h, -⟩
      simp only [List.any_eq_true] at hr
      obtain ⟨f, hf, hn⟩ := hr
      have := h f hf
      cases hfa : f.arg kw <;> simp_all
    · have hr' : ∀ f ∈ c.fields, (f.arg kw).isSome := by
        intro f hf
        cases hfa : f.arg kw with
        | some v => rfl
        | none =>
          exfalso; apply hr
          simp only [List.any_eq_true]
          exact ⟨f, hf, by simp [hfa]⟩
      simp only [hk, Bool.not_true, Bool.false_eq_true, if_false, hr, true_and]
      cases hm : mapMExcept (fun f => Field.store f kw) c.fields with
      | error e =>
        simp only [reduceCtorEq, false_iff]
        rintro ⟨-, h, -⟩
        rw [← mapMExcept_ok_iff, hm] at h
        cases h
      | ok vals =>
        simp only
        cases hc : c.check.run vals with
        | error e =>
          simp only [reduceCtorEq, false_iff]
          rintro ⟨-, h, h'⟩
          rw [← mapMExcept_ok_iff, hm] at h
          cases h
          rw [hc] at h'; cases h'
        | ok u =>
          cases u
          simp only [Except.ok.injEq]
          constructor
          · rintro rfl
            exact ⟨hr', (mapMExcept_ok_iff _ _ _).mp hm, hc⟩
          · rintro ⟨-, h, -⟩
            rw [← mapMExcept_ok_iff, hm] at h
            cases h; rfl
  · simp only [hk, Bool.not_false, if_true, reduceCtorEq, false_iff, false_and, not_false_eq_true]

/-- two keyword dictionaries that bind every constructor argument alike are treated alike -/
theorem norm_congr (c : ClassSpec) (kw kw' : Params) (hk : c.knows kw = true) (hk' : c.knows kw' = true)
    (h : ∀ f ∈ c.fields, f.arg kw = f.arg kw') : c.norm kw = c.norm kw' := by
  unfold ClassSpec.norm
  have h1 : (c.fields.any fun f => (f.arg kw).isNone) = (c.fields.any fun f => (f.arg kw').isNone) := by
    rw [Bool.eq_iff_iff]
    simp only [List.any_eq_true]
    constructor
    · rintro ⟨f, hf, hn⟩; exact ⟨f, hf, by rw [← h f hf]; exact hn⟩
    · rintro ⟨f, hf, hn⟩; exact ⟨f, hf, by rw [h f hf]; exact hn⟩
  have h2 : mapMExcept (fun f => Field.store f kw) c.fields = mapMExcept (fun f => Field.store f kw') c.fields := by
    apply mapMExcept_congr
    intro f hf
    simp only [Field.store, h f hf]
  rw [hk, hk', h1, h2]

/-- the attributes a constructor stored are accepted by the same constructor and stored unchanged -/
theorem norm_idem (c : ClassSpec) (hn : (c.fields.map (·.name)).Nodup) (kw a : Params) (h : c.norm kw = .ok a) :
    c.norm a = .ok a := by
  rw [norm_ok_iff] at h ⊢
  obtain ⟨hk, hr, hf, hc⟩ := h
  obtain ⟨hkeys, hvals⟩ := stored_lookup kw c.fields a hf hn
  have harg : ∀ f ∈ c.fields, ∃ y, f.store kw = .ok y ∧ f.arg a = some y.2 := by
    intro f hfm
    obtain ⟨y, hy1, hy2⟩ := hvals f hfm
    exact ⟨y, hy1, by simp [Field.arg, hy2]⟩
  refine ⟨?_, ?_, ?_, hc⟩
  · unfold ClassSpec.knows
    simp only [List.all_eq_true, Bool.or_eq_true, List.any_eq_true, beq_iff_eq]
    intro kv hkv
    left
    have : kv.1 ∈ a.map (·.1) := List.mem_map_of_mem hkv
    rw [hkeys] at this
    obtain ⟨f, hf1, hf2⟩ := List.mem_map.mp this
    exact ⟨f, hf1, hf2⟩
  · intro f hfm
    obtain ⟨y, -, hy⟩ := harg f hfm
    simp [hy]
  · have : ∀ f ∈ c.fields, f.store a = f.store kw := by
      intro f hfm
      obtain ⟨y, hy1, hy2⟩ := harg f hfm
      obtain ⟨v, hv1, hv2, hv3⟩ := Field.store_ok f kw y hy1
      rw [hy1]
      simp only [Field.store, hy2, Coercion.apply_idem _ _ _ hv2]
      rw [← hv3]
    have hm : mapMExcept (fun f => Field.store f a) c.fields = mapMExcept (fun f => Field.store f kw) c.fields :=
      mapMExcept_congr _ _ _ this
    rw [← mapMExcept_ok_iff, hm, mapMExcept_ok_iff]
    exact hf

end Skc.Pipeline

namespace Skc.Pipeline

/-! ### `get_parameters`, `copy` -/

theorem knows_of_keys (c : ClassSpec) (kw : Params) (h : ∀ k ∈ kw.map (·.1), k ∈ c.fields.map (·.name)) :
    c.knows kw = true := by
  unfold ClassSpec.knows
  simp only [List.all_eq_true, Bool.or_eq_true, List.any_eq_true, beq_iff_eq]
  intro kv hkv
  left
  obtain ⟨f, hf1, hf2⟩ := List.mem_map.mp (h kv.1 (List.mem_map_of_mem hkv))
  exact ⟨f, hf1, hf2⟩

/-- reading the declared parameters off the attributes -/
theorem readParams (a : Params) (decl : List String) (h : ∀ p ∈ decl, (pget a p).isSome) :
    ∃ d, mapMExcept (readAttr a) decl = .ok d ∧
      d.map (·.1) = decl ∧ ∀ p, pget d p = if p ∈ decl then pget a p else none := by
  induction decl with
  | nil => exact ⟨[], rfl, rfl, fun p => by simp [pget]⟩
  | cons q t ih =>
    obtain ⟨d, hd1, hd2, hd3⟩ := ih (fun p hp => h p (by simp [hp]))
    have hq := h q (by simp)
    cases hv : pget a q with
    | none => simp [hv] at hq
    | some v =>
      refine ⟨(q, v) :: d, ?_, by simp [hd2], ?_⟩
      · simp only [mapMExcept, readAttr, hv, hd1]
      · intro p
        by_cases hpq : p = q
        · subst hpq; simp [pget, hv] at *; exact hv.symm
        · have hb : (p == q) = false := by simpa using hpq
          have := hd3 p
          simp only [pget, List.lookup_cons, hb, List.mem_cons, hpq, false_or] at this ⊢
          exact this

theorem lookup_filter_key {β : Type} (P : String → Bool) (l : List (String × β)) (k : String) :
    (l.filter fun kv => P kv.1).lookup k = if P k then l.lookup k else none := by
  induction l with
  | nil => simp
  | cons kv t ih =>
    obtain ⟨k', v⟩ := kv
    simp only [List.filter_cons]
    by_cases hkk : k = k'
    · subst hkk
      by_cases hp : P k = true
      · simp [hp, List.lookup_cons]
      · simp only [Bool.not_eq_true] at hp
        simp [hp, ih]
    · have hb : (k == k') = false := by simpa using hkk
      cases hp : P k' with
      | true => simp only [if_true, List.lookup_cons, hb, ih]
      | false => simp only [Bool.false_eq_true, if_false, List.lookup_cons, hb, ih]

/-- `d.update(kw)` then `d[k]` -/
theorem pget_pupdate (d kw : Params) (k : String) :
    pget (pupdate d kw) k = match pget kw k with
      | some v => some v
      | none => pget d k := by
  unfold pupdate pget
  rw [List.lookup_append]
  have h1 : (d.map (overrideEntry kw)).lookup k = (d.lookup k).map fun x => (kw.lookup k).getD x := by
    induction d with
    | nil => simp
    | cons kv t ih =>
      obtain ⟨k', v⟩ := kv
      by_cases hkk : k = k'
      · subst hkk
        cases hkw : kw.lookup k <;> simp [overrideEntry, List.lookup_cons, hkw]
      · have hb : (k == k') = false := by simpa using hkk
        cases hkw : kw.lookup k' <;> simp [overrideEntry, List.lookup_cons, hb, hkw, ih]
  rw [h1, lookup_filter_key (fun key => !(d.any fun x => x.1 == key)) kw k]
  cases hd : d.lookup k with
  | some x =>
    cases hkw : kw.lookup k <;> simp
  | none =>
    have : (d.any fun x => x.1 == k) = false := by
      rw [Bool.eq_false_iff]
      intro hany
      simp only [List.any_eq_true, beq_iff_eq] at hany
      obtain ⟨x, hx, rfl⟩ := hany
      have := List.lookup_eq_none_iff.mp hd
      simpa using this x hx
    simp [this]
    cases kw.lookup k <;> rfl

theorem keys_pupdate (d kw : Params) (k : String) (hk : k ∈ (pupdate d kw).map (·.1)) :
    k ∈ d.map (·.1) ∨ k ∈ kw.map (·.1) := by
  unfold pupdate at hk
  simp only [List.map_append, List.mem_append, List.mem_map, List.mem_filter] at hk
  rcases hk with ⟨x, ⟨y, hy, rfl⟩, rfl⟩ | ⟨x, ⟨hx, -⟩, rfl⟩
  · left
    refine List.mem_map.mpr ⟨y, hy, ?_⟩
    unfold overrideEntry
    cases kw.lookup y.1 <;> rfl
  · right
    exact List.mem_map_of_mem hx

/-- what `get_parameters()` returns for an object the constructor built -/
theorem getParameters_built (c : ClassSpec) (hwf : c.WF) (kw a : Params) (h : c.norm kw = .ok a) :
    ∃ d, getParameters ⟨c, a⟩ = .ok d ∧ d.map (·.1) = c.declared ∧
      ∀ f ∈ c.fields, pget d f.name = pget a f.name := by
  obtain ⟨hn, hds, hfs⟩ := hwf
  obtain ⟨-, -, hf, -⟩ := (norm_ok_iff c kw a).mp h
  obtain ⟨hkeys, hvals⟩ := stored_lookup kw c.fields a hf hn
  have hsome : ∀ p ∈ c.declared, (pget a p).isSome := by
    intro p hp
    obtain ⟨f, hf1, hf2⟩ := List.mem_map.mp (hds p hp)
    obtain ⟨y, -, hy⟩ := hvals f hf1
    rw [← hf2, hy]; rfl
  obtain ⟨d, hd1, hd2, hd3⟩ := readParams a c.declared hsome
  refine ⟨d, hd1, hd2, ?_⟩
  intro f hfm
  rw [hd3, if_pos (hfs f hfm)]

/-- rebuilding from `get_parameters()` gives the same object -/
theorem rebuild_built (c : ClassSpec) (hwf : c.WF) (kw a : Params) (h : c.norm kw = .ok a) :
    ∃ d, getParameters ⟨c, a⟩ = .ok d ∧ construct c d = .ok ⟨c, a⟩ := by
  obtain ⟨d, hd1, hd2, hd3⟩ := getParameters_built c hwf kw a h
  refine ⟨d, hd1, ?_⟩
  have hidem := norm_idem c hwf.1 kw a h
  have hka : c.knows a = true := ((norm_ok_iff c a a).mp hidem).1
  have hkd : c.knows d = true := knows_of_keys c d (by rw [hd2]; exact hwf.2.1)
  have : c.norm d = c.norm a := norm_congr c d a hkd hka (fun f hf => by simp [Field.arg, hd3 f hf])
  simp [construct, this, hidem]

/-- `copy(**overrides)`: an argument that is not overridden keeps its stored value, an overridden one
stores the coercion of the override -/
theorem copy_built (c : ClassSpec) (hwf : c.WF) (kw a ov : Params) (h : c.norm kw = .ok a) (o' : Obj)
    (hc : copy ⟨c, a⟩ ov = .ok o') :
    o'.cls = c ∧ ∀ f ∈ c.fields,
      (pget ov f.name = none → pget o'.attrs f.name = pget a f.name) ∧
      (∀ v, pget ov f.name = some v → ∃ w, f.coerce.apply v = .ok w ∧ pget o'.attrs f.name = some w) := by
  obtain ⟨d, hd1, hd2, hd3⟩ := getParameters_built c hwf kw a h
  simp only [copy, hd1, construct] at hc
  cases hnorm : c.norm (pupdate d ov) with
  | error e => simp [hnorm] at hc
  | ok a' =>
    simp only [hnorm, Except.ok.injEq] at hc
    subst hc
    refine ⟨rfl, ?_⟩
    intro f hfm
    obtain ⟨-, -, hf', -⟩ := (norm_ok_iff c _ a').mp hnorm
    obtain ⟨-, hvals'⟩ := stored_lookup _ c.fields a' hf' hwf.1
    obtain ⟨y, hy1, hy2⟩ := hvals' f hfm
    obtain ⟨v', hv1, hv2, -⟩ := Field.store_ok f _ y hy1
    obtain ⟨-, -, hf, -⟩ := (norm_ok_iff c kw a).mp h
    obtain ⟨-, hvals⟩ := stored_lookup kw c.fields a hf hwf.1
    obtain ⟨z, hz1, hz2⟩ := hvals f hfm
    obtain ⟨v0, hv01, hv02, -⟩ := Field.store_ok f kw z hz1
    have harg : f.arg (pupdate d ov) = some v' := hv1
    simp only [Field.arg, pget_pupdate] at harg
    constructor
    · intro hnone
      rw [hnone, hd3 f hfm, hz2] at harg
      simp only [Option.some.injEq] at harg
      subst harg
      have := Coercion.apply_idem _ _ _ hv02
      rw [this] at hv2
      simp only [Except.ok.injEq] at hv2
      rw [hy2, hz2, ← hv2]
    · intro v hsome
      rw [hsome] at harg
      simp only [Option.some.injEq] at harg
      subst harg
      exact ⟨y.2, hv2, hy2⟩

end Skc.Pipeline
