import Skc.Model.Rank
import Mathlib.Data.Finset.Card
import Mathlib.Data.List.Nodup
import Mathlib.Data.Finset.Basic
import Mathlib.Order.Basic
import Mathlib.Data.List.Basic
import Mathlib.Data.Finset.Sort
import Mathlib.Data.Fintype.Card
import Mathlib.Order.Interval.Finset.Fin
import Mathlib.Data.List.Perm.Basic
import Mathlib.Data.List.Sort
import Mathlib.Tactic

/-! Helper lemmas for the dense-rank model (used by `Skc.Props.C03`, `C05`, `C06`). -/
namespace Skc
open Finset

variable {α : Type*} [LinearOrder α]

theorem mem_distinct (s : List α) (x : α) : x ∈ distinct s ↔ x ∈ s := by
  induction s with
  | nil => simp [distinct]
  | cons a t ih =>
    unfold distinct
    split
    · rename_i h; constructor
      · intro hx; exact List.mem_cons_of_mem _ (ih.mp hx)
      · intro hx; rcases List.mem_cons.mp hx with rfl | hx
        · exact h
        · exact ih.mpr hx
    · simp [ih]

theorem nodup_distinct (s : List α) : (distinct s).Nodup := by
  induction s with
  | nil => simp [distinct]
  | cons a t ih =>
    unfold distinct
    split
    · exact ih
    · rename_i h; exact List.nodup_cons.mpr ⟨h, ih⟩

theorem rankOf_eq_card (s : List α) (x : α) :
    rankOf s x = ((distinct s).toFinset.filter (· < x)).card + 1 := by
  unfold rankOf
  congr 1
  have h1 : ((distinct s).filter (· < x)).toFinset = (distinct s).toFinset.filter (· < x) := by
    ext d; simp
  rw [← h1, List.toFinset_card_of_nodup ((nodup_distinct s).filter _)]

theorem toFinset_distinct (s : List α) : (distinct s).toFinset = s.toFinset := by
  ext x; simp [mem_distinct]

theorem rankOf_eq_card' (s : List α) (x : α) :
    rankOf s x = (s.toFinset.filter (· < x)).card + 1 := by
  rw [rankOf_eq_card, toFinset_distinct]

theorem length_distinct (s : List α) : (distinct s).length = s.toFinset.card := by
  rw [← toFinset_distinct, List.toFinset_card_of_nodup (nodup_distinct s)]

theorem rankOf_lt_iff' (s : List α) {x y : α} (hx : x ∈ s) :
    rankOf s x < rankOf s y ↔ x < y := by
  rw [rankOf_eq_card', rankOf_eq_card']
  constructor
  · intro h
    by_contra hn
    push Not at hn
    have : s.toFinset.filter (· < y) ⊆ s.toFinset.filter (· < x) := by
      intro d hd
      simp only [Finset.mem_filter] at hd ⊢
      exact ⟨hd.1, lt_of_lt_of_le hd.2 hn⟩
    have := Finset.card_le_card this
    omega
  · intro h
    have hsub : s.toFinset.filter (· < x) ⊂ s.toFinset.filter (· < y) := by
      refine Finset.ssubset_iff_of_subset ?_ |>.mpr ⟨x, ?_, ?_⟩
      · intro d hd
        simp only [Finset.mem_filter] at hd ⊢
        exact ⟨hd.1, lt_trans hd.2 h⟩
      · simp [hx, h]
      · simp
    have := Finset.card_lt_card hsub
    omega

theorem rankOf_eq_iff' (s : List α) {x y : α} (hx : x ∈ s) (hy : y ∈ s) :
    rankOf s x = rankOf s y ↔ x = y := by
  constructor
  · intro h
    rcases lt_trichotomy x y with h' | h' | h'
    · have := (rankOf_lt_iff' s hx).mpr h'; omega
    · exact h'
    · have := (rankOf_lt_iff' s hy).mpr h'; omega
  · rintro rfl; rfl

theorem rankOf_perm {s t : List α} (h : s.Perm t) (x : α) : rankOf s x = rankOf t x := by
  rw [rankOf_eq_card', rankOf_eq_card', List.toFinset_eq_of_perm _ _ h]

theorem rankOf_bounds (s : List α) {x : α} (hx : x ∈ s) :
    1 ≤ rankOf s x ∧ rankOf s x ≤ (distinct s).length := by
  rw [rankOf_eq_card', length_distinct]
  refine ⟨by omega, ?_⟩
  have : s.toFinset.filter (· < x) ⊂ s.toFinset := by
    refine Finset.ssubset_iff_of_subset (filter_subset _ _) |>.mpr ⟨x, by simpa using hx, by simp⟩
  have := card_lt_card this
  omega

theorem rank_surjective (s : List α) (r : ℕ) (h1 : 1 ≤ r) (h2 : r ≤ (distinct s).length) :
    ∃ x ∈ s, rankOf s x = r := by
  rw [length_distinct] at h2
  set D := s.toFinset with hD
  have hk : D.card = D.card := rfl
  let e := D.orderEmbOfFin hk
  have hr : r - 1 < D.card := by omega
  refine ⟨e ⟨r - 1, hr⟩, ?_, ?_⟩
  · have hm : e ⟨r - 1, hr⟩ ∈ D := D.orderEmbOfFin_mem hk ⟨r - 1, hr⟩
    exact List.mem_toFinset.mp hm
  · rw [rankOf_eq_card']
    have : D.filter (· < e ⟨r - 1, hr⟩) = (univ.filter (· < (⟨r - 1, hr⟩ : Fin D.card))).map e.toEmbedding := by
      ext d
      simp only [mem_filter, mem_map, mem_univ, true_and, RelEmbedding.coe_toEmbedding]
      constructor
      · rintro ⟨hd, hlt⟩
        have : d ∈ Set.range e := by rw [D.range_orderEmbOfFin hk]; exact hd
        obtain ⟨j, rfl⟩ := this
        exact ⟨j, e.lt_iff_lt.mp hlt, rfl⟩
      · rintro ⟨j, hj, rfl⟩
        exact ⟨D.orderEmbOfFin_mem hk j, e.lt_iff_lt.mpr hj⟩
    rw [this, card_map]
    have : (univ.filter (· < (⟨r - 1, hr⟩ : Fin D.card))) = Iio ⟨r - 1, hr⟩ := by ext; simp
    rw [this, Fin.card_Iio]
    simp; omega

end Skc
