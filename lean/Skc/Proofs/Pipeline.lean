import Mathlib.Tactic
import Mathlib.Data.List.Basic
import Mathlib.Data.List.Nodup
import Skc.Model.Pipeline
set_option linter.unusedSectionVars false
set_option linter.unusedVariables false
set_option linter.unusedSimpArgs false

/-! Helper lemmas for C16, part 1: Python slices, the transform loop as a monadic fold, splitting a
pipeline, nested pipelines. -/
namespace Skc.Pipeline

section seq
variable {α : Type}

theorem clampIdx_neg_one (n : Nat) : clampIdx n (-1) = n - 1 := by
  unfold clampIdx; simp; omega

theorem clampIdx_nat (n k : Nat) : clampIdx n (k : Int) = min k n := by
  unfold clampIdx
  have : ¬ ((k : Int) < 0) := by omega
  simp only [this, if_false, Int.toNat_natCast]
  split_ifs <;> omega

/-- `l[:-1]` is the list without its last element -/
theorem pySlice_init (l : List α) : pySlice none (some (-1)) l = l.dropLast := by
  simp [pySlice, clampIdx_neg_one, List.dropLast_eq_take]

/-- `l[k:]` -/
theorem pySlice_from (l : List α) (k : Nat) : pySlice (some (k : Int)) none l = l.drop k := by
  simp only [pySlice, clampIdx_nat, List.take_length]
  rcases le_total k l.length with h | h
  · simp [min_eq_left h]
  · simp [min_eq_right h, List.drop_eq_nil_of_le h]

/-- `l[:k]` -/
theorem pySlice_to (l : List α) (k : Nat) : pySlice none (some (k : Int)) l = l.take k := by
  simp only [pySlice, clampIdx_nat, List.drop_zero]
  rcases le_total k l.length with h | h
  · simp [min_eq_left h]
  · simp [min_eq_right h, List.take_of_length_le h]

/-- `l[a:b]` for natural bounds -/
theorem pySlice_nat (l : List α) (a b : Nat) : pySlice (some (a : Int)) (some (b : Int)) l = (l.take b).drop a := by
  simp only [pySlice, clampIdx_nat]
  rcases le_total b l.length with hb | hb
  · rw [min_eq_left hb]
    rcases le_total a l.length with ha | ha
    · rw [min_eq_left ha]
    · rw [min_eq_right ha, List.drop_eq_nil_of_le (by rw [List.length_take]; omega), List.drop_eq_nil_of_le (by rw [List.length_take]; omega)]
  · rw [min_eq_right hb, List.take_length, List.take_of_length_le hb]
    rcases le_total a l.length with ha | ha
    · rw [min_eq_left ha]
    · rw [min_eq_right ha, List.drop_eq_nil_of_le le_rfl, List.drop_eq_nil_of_le ha]

/-- `l[-1]` -/
theorem pyIndex_last (l : List α) :
    pyIndex l (-1) = match l.getLast? with
      | some x => .ok x
      | none => .error .indexError := by
  rcases List.eq_nil_or_concat l with rfl | ⟨l', x, rfl⟩
  · simp [pyIndex]
  · have h1 : ¬ ((-1 : Int) + ((l'.length + 1 : Nat) : Int) < 0) := by omega
    have h2 : ((-1 : Int) + ((l'.length + 1 : Nat) : Int)).toNat = l'.length := by omega
    simp [pyIndex]

theorem pyIndex_nat (l : List α) (k : Nat) :
    pyIndex l (k : Int) = match l[k]? with
      | some x => .ok x
      | none => .error .indexError := by
  have : ¬ ((k : Int) < 0) := by omega
  unfold pyIndex
  simp only [this, if_false, Int.toNat_natCast]
  cases l[k]? <;> rfl

end seq

section pipe
variable {δ ρ : Type}

/-- all the steps of a list applied in order (`transform` of every one) -/
def runAll (steps : Steps δ ρ) (dm : δ) : Except Err δ :=
  steps.foldlM (fun d s => s.2.runT d) dm

/-- the last step's `evaluate` (`IndexError` on an empty list) -/
def lastE (steps : Steps δ ρ) (d : δ) : Except Err ρ :=
  match steps.getLast? with
  | some s => s.2.runE d
  | none => .error .indexError

theorem loopT_eq_runAll (steps : Steps δ ρ) (dm : δ) : loopT steps dm = runAll steps dm := by
  induction steps generalizing dm with
  | nil => rfl
  | cons s rest ih =>
    obtain ⟨n, s⟩ := s
    simp only [loopT, runAll, List.foldlM_cons]
    cases h : s.runT dm with
    | error e => rfl
    | ok d => exact ih d

theorem runAll_append (a b : Steps δ ρ) (dm : δ) : runAll (a ++ b) dm = runAll a dm >>= runAll b := by
  simp only [runAll, List.foldlM_append]
  rfl

theorem runAll_nil (dm : δ) : runAll ([] : Steps δ ρ) dm = .ok dm := rfl

theorem runAll_singleton (s : String × Step δ ρ) (dm : δ) : runAll [s] dm = s.2.runT dm := by
  simp [runAll]

theorem transform_eq (p : Pipe δ ρ) (dm : δ) : p.transform dm = runAll p.steps.dropLast dm := by
  simp [Pipe.transform, pySlice_init, loopT_eq_runAll]

theorem evaluate_eq (p : Pipe δ ρ) (dm : δ) : p.evaluate dm = runAll p.steps.dropLast dm >>= lastE p.steps := by
  simp only [Pipe.evaluate, transform_eq, pyIndex_last]
  cases runAll p.steps.dropLast dm with
  | error e => rfl
  | ok d =>
    simp only [bind, Except.bind]
    cases h : p.steps.getLast? with
    | none => simp [lastE, h]
    | some s => simp [lastE, h]

theorem lastE_append (a b : Steps δ ρ) (hb : b ≠ []) : lastE (a ++ b) = lastE b := by
  funext d
  simp [lastE, List.getLast?_append_of_ne_nil a hb]

/-- the split law on raw step lists -/
theorem evaluate_split (steps : Steps δ ρ) (k : Nat) (hk : k < steps.length) (dm : δ) :
    (runAll (steps.take k) dm >>= (Pipe.mk (steps.drop k)).evaluate) = (Pipe.mk steps).evaluate dm := by
  have hne : steps.drop k ≠ [] := by
    intro h
    have := congrArg List.length h
    simp at this; omega
  have hfun : (Pipe.mk (steps.drop k)).evaluate = fun d => runAll (steps.drop k).dropLast d >>= lastE (steps.drop k) := by
    funext d; exact evaluate_eq _ d
  rw [hfun, evaluate_eq]
  conv_rhs => rw [show (Pipe.mk steps).steps = steps.take k ++ steps.drop k from (List.take_append_drop k steps).symm]
  rw [List.dropLast_append_of_ne_nil hne, runAll_append, lastE_append _ _ hne]
  cases runAll (steps.take k) dm with
  | error e => rfl
  | ok d => rfl

/-- a valid step list: what `_validate_steps` accepts -/
theorem validateSteps_ok_iff (steps : Steps δ ρ) :
    validateSteps steps = .ok () ↔
      (∀ s ∈ steps.dropLast, s.2.transform?.isSome) ∧ ∃ s, steps.getLast? = some s ∧ s.2.evaluate?.isSome := by
  unfold validateSteps
  rw [pySlice_init, pyIndex_last]
  by_cases hall : (steps.dropLast.all fun s => s.2.transform?.isSome) = true
  · rw [if_pos hall]
    have hall' : ∀ s ∈ steps.dropLast, s.2.transform?.isSome := by simpa using hall
    cases hl : steps.getLast? with
    | none => simp
    | some s =>
      obtain ⟨n, s⟩ := s
      by_cases he : s.evaluate?.isSome
      · simp only [he, if_true, true_iff]
        exact ⟨hall', (n, s), by simp, he⟩
      · simp [he]
  · rw [if_neg hall]
    constructor
    · intro h; cases h
    · rintro ⟨h, -⟩
      exact absurd (by simpa using h) hall

theorem new_ok_iff (steps : Steps δ ρ) (p : Pipe δ ρ) :
    Pipe.new steps = .ok p ↔ validateSteps steps = .ok () ∧ p = ⟨steps⟩ := by
  unfold Pipe.new
  cases h : validateSteps steps with
  | error e => simp
  | ok u => cases u; simp [eq_comm]

/-- the kind of refusal of `_validate_steps` -/
theorem validateSteps_nil : validateSteps ([] : Steps δ ρ) = .error .indexError := by
  simp [validateSteps, pySlice, pyIndex, clampIdx]

/-- a suffix of a valid step list that still contains the last step is valid -/
theorem validateSteps_drop (steps : Steps δ ρ) (h : validateSteps steps = .ok ()) (k : Nat) (hk : k < steps.length) :
    validateSteps (steps.drop k) = .ok () := by
  rw [validateSteps_ok_iff] at h ⊢
  obtain ⟨h1, s, h2, h3⟩ := h
  have hne : steps.drop k ≠ [] := by
    intro h
    have := congrArg List.length h
    simp at this; omega
  refine ⟨?_, s, ?_, h3⟩
  · intro x hx
    apply h1
    have : steps.dropLast = steps.take k ++ (steps.drop k).dropLast := by
      conv_lhs => rw [← List.take_append_drop k steps]
      exact List.dropLast_append_of_ne_nil hne
    rw [this]
    exact List.mem_append_right _ hx
  · rw [← h2]
    conv_rhs => rw [← List.take_append_drop k steps]
    exact (List.getLast?_append_of_ne_nil _ hne).symm

/-- a prefix `steps[:k]` (`0 < k ≤ len`) of a valid step list is valid iff its last step has `evaluate` -/
theorem validateSteps_take (steps : Steps δ ρ) (h : validateSteps steps = .ok ()) (k : Nat) (hk : k ≤ steps.length)
    (s : String × Step δ ρ) (hs : steps[k - 1]? = some s) (hk0 : 0 < k) :
    validateSteps (steps.take k) = if s.2.evaluate?.isSome then .ok () else .error .typeError := by
  have hlast : (steps.take k).getLast? = some s := by
    rw [List.getLast?_eq_getElem?]
    simp only [List.length_take, min_eq_left hk]
    rw [List.getElem?_take_of_lt (by omega)]
    exact hs
  have hpre : ∀ x ∈ (steps.take k).dropLast, x.2.transform?.isSome := by
    rw [validateSteps_ok_iff] at h
    intro x hx
    apply h.1
    rw [List.dropLast_eq_take] at hx ⊢
    rw [List.length_take, min_eq_left hk, List.take_take] at hx
    exact List.mem_of_mem_take (l := steps.take (steps.length - 1)) (by
      rw [List.take_take]
      have : min (min (k - 1) k) (steps.length - 1) = min (k - 1) k := by omega
      rw [this]; exact hx)
  split_ifs with he
  · rw [validateSteps_ok_iff]
    exact ⟨hpre, s, hlast, he⟩
  · unfold validateSteps
    rw [pySlice_init, pyIndex_last, hlast]
    have : ((steps.take k).dropLast.all fun s => s.2.transform?.isSome) = true := by simpa using hpre
    rw [if_pos this]
    obtain ⟨n, s⟩ := s
    simp [he]

end pipe
end Skc.Pipeline
