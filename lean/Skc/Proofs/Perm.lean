import Skc.Proofs.Agg
import Skc.Proofs.Rank
import Skc.Props.C04
import Mathlib.Algebra.BigOperators.Group.Finset.Basic
import Mathlib.Logic.Equiv.Fin.Basic

set_option linter.unusedSectionVars false
set_option linter.unusedVariables false

/-! # Helpers for C05: the numeric layer and the kernels under permutations of the alternatives
(rows), permutations of the criteria (columns, with objectives and weights), and a common positive
factor on the weights; dense ranks under permutations and strictly increasing maps. -/
namespace Skc
open Finset

/-! ## reductions of the numeric layer -/
section reductions
variable {α : Type}

theorem sup'_perm {ι : Type} [Fintype ι] [Nonempty ι] [LinearOrder α] (f : ι → α) (σ : Equiv.Perm ι) :
    univ.sup' univ_nonempty (fun i => f (σ i)) = univ.sup' univ_nonempty f := by
  apply le_antisymm
  · apply sup'_le; intro i _; exact le_sup' f (mem_univ (σ i))
  · apply sup'_le; intro i _
    have h := le_sup' (fun i => f (σ i)) (mem_univ (σ.symm i))
    simp only [Equiv.apply_symm_apply] at h
    exact h

theorem inf'_perm {ι : Type} [Fintype ι] [Nonempty ι] [LinearOrder α] (f : ι → α) (σ : Equiv.Perm ι) :
    univ.inf' univ_nonempty (fun i => f (σ i)) = univ.inf' univ_nonempty f := by
  apply le_antisymm
  · apply le_inf'; intro i _
    have h := inf'_le (fun i => f (σ i)) (mem_univ (σ.symm i))
    simp only [Equiv.apply_symm_apply] at h
    exact h
  · apply le_inf'; intro i _; exact inf'_le f (mem_univ (σ i))

/-- `np.sum` does not depend on the order of the entries -/
theorem sumFin_perm [AddCommMonoid α] {n : ℕ} (f : Fin n → α) (τ : Equiv.Perm (Fin n)) :
    sumFin (fun j => f (τ j)) = sumFin f := by
  rw [sumFin_eq_sum, sumFin_eq_sum]; exact Equiv.sum_comp τ f

/-- `np.max` / `np.min` do not depend on the order of the entries -/
theorem maxFin_perm [LinearOrder α] {n : ℕ} [NeZero n] (f : Fin n → α) (τ : Equiv.Perm (Fin n)) :
    maxFin (fun j => f (τ j)) = maxFin f := by
  rw [maxFin_eq_sup', maxFin_eq_sup']; exact sup'_perm f τ
theorem minFin_perm [LinearOrder α] {n : ℕ} [NeZero n] (f : Fin n → α) (τ : Equiv.Perm (Fin n)) :
    minFin (fun j => f (τ j)) = minFin f := by
  rw [minFin_eq_inf', minFin_eq_inf']; exact inf'_perm f τ

theorem anyFin_perm {n : ℕ} (p : Fin n → Bool) (τ : Equiv.Perm (Fin n)) :
    anyFin (fun j => p (τ j)) = anyFin p := by
  rw [Bool.eq_iff_iff, anyFin_iff, anyFin_iff]
  constructor
  · rintro ⟨j, hj⟩; exact ⟨τ j, hj⟩
  · rintro ⟨j, hj⟩; exact ⟨τ.symm j, by simpa using hj⟩

section field
variable [Field α] [LinearOrder α] [IsStrictOrderedRing α]

theorem sumFin_mul_left {n : ℕ} (c : α) (f : Fin n → α) : sumFin (fun j => c * f j) = c * sumFin f := by
  rw [sumFin_eq_sum, sumFin_eq_sum, mul_sum]

theorem maxFin_mul_left {n : ℕ} [NeZero n] {c : α} (hc : 0 ≤ c) (f : Fin n → α) :
    maxFin (fun j => c * f j) = c * maxFin f := by
  apply le_antisymm
  · rw [maxFin_le_iff]; intro j; exact mul_le_mul_of_nonneg_left (le_maxFin f j) hc
  · obtain ⟨k, hk⟩ := exists_eq_maxFin f
    rw [← hk]; exact le_maxFin (fun j => c * f j) k

theorem minFin_mul_left {n : ℕ} [NeZero n] {c : α} (hc : 0 ≤ c) (f : Fin n → α) :
    minFin (fun j => c * f j) = c * minFin f := by
  apply le_antisymm
  · obtain ⟨k, hk⟩ := exists_eq_minFin f
    rw [← hk]; exact minFin_le (fun j => c * f j) k
  · rw [le_minFin_iff]; intro j; exact mul_le_mul_of_nonneg_left (minFin_le f j) hc

theorem absv_mul_left {c : α} (hc : 0 ≤ c) (x : α) : absv (c * x) = c * absv x := by
  rw [absv_eq_abs, absv_eq_abs, abs_mul, abs_of_nonneg hc]

end field
end reductions

/-! ## kernels: alternatives listed in another order -/
namespace Agg
variable {m n : ℕ}

section order
variable {α : Type} [Field α] [LinearOrder α] [IsStrictOrderedRing α]

theorem colMax_row_perm [NeZero m] (A : Mat m n α) (σ : Equiv.Perm (Fin m)) :
    colMax (fun i => A (σ i)) = colMax A := by
  funext j; unfold colMax; exact maxFin_perm (fun i => A i j) σ
theorem colMin_row_perm [NeZero m] (A : Mat m n α) (σ : Equiv.Perm (Fin m)) :
    colMin (fun i => A (σ i)) = colMin A := by
  funext j; unfold colMin; exact minFin_perm (fun i => A i j) σ

theorem referencePoint_row_perm [NeZero m] (A : Mat m n α) (o : Vec n Obj) (σ : Equiv.Perm (Fin m)) :
    referencePoint (fun i => A (σ i)) o = referencePoint A o := by
  funext j; unfold referencePoint; rw [colMax_row_perm, colMin_row_perm]

theorem weighted_row_perm (A : Mat m n α) (w : Vec n α) (σ : Equiv.Perm (Fin m)) :
    weighted (fun i => A (σ i)) w = fun i => weighted A w (σ i) := rfl

theorem ideal_row_perm [NeZero m] (A : Mat m n α) (o : Vec n Obj) (w : Vec n α) (σ : Equiv.Perm (Fin m)) :
    ideal (fun i => A (σ i)) o w = ideal A o w := by
  funext j; unfold ideal; rw [weighted_row_perm, colMax_row_perm, colMin_row_perm]
theorem antiIdeal_row_perm [NeZero m] (A : Mat m n α) (o : Vec n Obj) (w : Vec n α) (σ : Equiv.Perm (Fin m)) :
    antiIdeal (fun i => A (σ i)) o w = antiIdeal A o w := by
  funext j; unfold antiIdeal; rw [weighted_row_perm, colMax_row_perm, colMin_row_perm]

theorem similarityWith_row_perm [NeZero m] (d : Vec n α → Vec n α → α) (A : Mat m n α) (o : Vec n Obj)
    (w : Vec n α) (σ : Equiv.Perm (Fin m)) (i : Fin m) :
    similarityWith d (fun i => A (σ i)) o w i = similarityWith d A o w (σ i) := by
  unfold similarityWith; rw [ideal_row_perm, antiIdeal_row_perm]; rfl

/-! ## kernels: criteria (with objectives and weights) listed in another order -/

theorem referencePoint_col_perm [NeZero m] (A : Mat m n α) (o : Vec n Obj) (τ : Equiv.Perm (Fin n)) (j : Fin n) :
    referencePoint (fun i j => A i (τ j)) (fun j => o (τ j)) j = referencePoint A o (τ j) := rfl
theorem ideal_col_perm [NeZero m] (A : Mat m n α) (o : Vec n Obj) (w : Vec n α) (τ : Equiv.Perm (Fin n)) (j : Fin n) :
    ideal (fun i j => A i (τ j)) (fun j => o (τ j)) (fun j => w (τ j)) j = ideal A o w (τ j) := rfl
theorem antiIdeal_col_perm [NeZero m] (A : Mat m n α) (o : Vec n Obj) (w : Vec n α) (τ : Equiv.Perm (Fin n)) (j : Fin n) :
    antiIdeal (fun i j => A i (τ j)) (fun j => o (τ j)) (fun j => w (τ j)) j = antiIdeal A o w (τ j) := rfl

/-- a distance that does not depend on the order of the coordinates -/
def PermInvariant (d : Vec n α → Vec n α → α) : Prop :=
  ∀ (τ : Equiv.Perm (Fin n)) (x t : Vec n α), d (fun j => x (τ j)) (fun j => t (τ j)) = d x t

theorem distQ_permInvariant [NeZero n] (μ : Metric) : PermInvariant (distQ (α := α) (n := n) μ) := by
  intro τ x t
  cases μ <;> simp only [distQ]
  · exact sumFin_perm (fun j => (x j - t j) * (x j - t j)) τ
  · exact sumFin_perm (fun j => (x j - t j) * (x j - t j)) τ
  · exact sumFin_perm (fun j => absv (x j - t j)) τ
  · exact maxFin_perm (fun j => absv (x j - t j)) τ
  · exact sumFin_perm (fun j => (x j - t j) * (x j - t j)) τ

theorem similarityWith_col_perm [NeZero m] {d : Vec n α → Vec n α → α} (hd : PermInvariant d) (A : Mat m n α)
    (o : Vec n Obj) (w : Vec n α) (τ : Equiv.Perm (Fin n)) (i : Fin m) :
    similarityWith d (fun i j => A i (τ j)) (fun j => o (τ j)) (fun j => w (τ j)) i = similarityWith d A o w i := by
  unfold similarityWith
  have h1 := hd τ (weighted A w i) (ideal A o w)
  have h2 := hd τ (weighted A w i) (antiIdeal A o w)
  have e1 : d (weighted (fun i j => A i (τ j)) (fun j => w (τ j)) i)
      (ideal (fun i j => A i (τ j)) (fun j => o (τ j)) (fun j => w (τ j))) = d (weighted A w i) (ideal A o w) := h1
  have e2 : d (weighted (fun i j => A i (τ j)) (fun j => w (τ j)) i)
      (antiIdeal (fun i j => A i (τ j)) (fun j => o (τ j)) (fun j => w (τ j))) = d (weighted A w i) (antiIdeal A o w) := h2
  simp only [e1, e2]

/-! ## kernels: every weight multiplied by the same `c ≥ 0` -/

theorem weighted_scale (A : Mat m n α) (w : Vec n α) (c : α) :
    weighted A (fun j => c * w j) = fun i j => c * weighted A w i j := by
  funext i j; simp only [weighted]; ring

theorem colMax_scale [NeZero m] {c : α} (hc : 0 ≤ c) (A : Mat m n α) (j : Fin n) :
    colMax (fun i j => c * A i j) j = c * colMax A j := by
  unfold colMax; exact maxFin_mul_left hc fun i => A i j
theorem colMin_scale [NeZero m] {c : α} (hc : 0 ≤ c) (A : Mat m n α) (j : Fin n) :
    colMin (fun i j => c * A i j) j = c * colMin A j := by
  unfold colMin; exact minFin_mul_left hc fun i => A i j

theorem ideal_scale [NeZero m] {c : α} (hc : 0 ≤ c) (A : Mat m n α) (o : Vec n Obj) (w : Vec n α) (j : Fin n) :
    ideal A o (fun j => c * w j) j = c * ideal A o w j := by
  unfold ideal; rw [weighted_scale, colMax_scale hc, colMin_scale hc]; split <;> rfl
theorem antiIdeal_scale [NeZero m] {c : α} (hc : 0 ≤ c) (A : Mat m n α) (o : Vec n Obj) (w : Vec n α) (j : Fin n) :
    antiIdeal A o (fun j => c * w j) j = c * antiIdeal A o w j := by
  unfold antiIdeal; rw [weighted_scale, colMax_scale hc, colMin_scale hc]; split <;> rfl

/-- a distance that is positively homogeneous of some degree: `d (c x) (c t) = k c · d x t` -/
theorem distQ_scale [NeZero n] (μ : Metric) {c : α} (hc : 0 ≤ c) (x t : Vec n α) :
    distQ μ (fun j => c * x j) (fun j => c * t j) = (if μ = .cityblock ∨ μ = .chebyshev then c else c * c) * distQ μ x t := by
  have hsq : sumFin (fun j => (c * x j - c * t j) * (c * x j - c * t j)) = c * c * sumFin (fun j => (x j - t j) * (x j - t j)) := by
    rw [← sumFin_mul_left]; congr 1; funext j; ring
  have habs : ∀ j, absv (c * x j - c * t j) = c * absv (x j - t j) := by
    intro j; rw [← mul_sub]; exact absv_mul_left hc _
  cases μ <;> simp only [distQ, reduceCtorEq, or_self, or_false, or_true, if_false, if_true]
  · exact hsq
  · exact hsq
  · simp only [habs]; exact sumFin_mul_left c _
  · simp only [habs]; exact maxFin_mul_left hc _
  · exact hsq

/-- the closeness ratio does not see a common non-zero factor of both distances (this is plain
field algebra, also when `d⁺ + d⁻ = 0`, where both sides are the model's `0/0`) -/
theorem closeness_scale {k : α} (hk : k ≠ 0) (dB dW : α) : k * dW / (k * dB + k * dW) = dW / (dB + dW) := by
  rw [← mul_add, mul_div_mul_left _ _ hk]

end order

/-! ## the kernels with `sqrt` / `log`, over `ℝ` -/

theorem dist_permInvariant [NeZero n] (μ : Metric) : PermInvariant (Agg.dist (α := ℝ) (n := n) μ) := by
  intro τ x t
  cases μ <;> simp only [Agg.dist]
  · exact congrArg _ (sumFin_perm (fun j => (x j - t j) * (x j - t j)) τ)
  · exact sumFin_perm (fun j => (x j - t j) * (x j - t j)) τ
  · exact sumFin_perm (fun j => absv (x j - t j)) τ
  · exact maxFin_perm (fun j => absv (x j - t j)) τ
  · exact congrArg _ (sumFin_perm (fun j => (x j - t j) * (x j - t j)) τ)

/-- every metric is positively homogeneous: degree 2 for `sqeuclidean`, degree 1 otherwise -/
theorem dist_scale [NeZero n] (μ : Metric) {c : ℝ} (hc : 0 ≤ c) (x t : Vec n ℝ) :
    Agg.dist μ (fun j => c * x j) (fun j => c * t j) = (if μ = .sqeuclidean then c * c else c) * Agg.dist μ x t := by
  have hsq : sumFin (fun j => (c * x j - c * t j) * (c * x j - c * t j)) = c * c * sumFin (fun j => (x j - t j) * (x j - t j)) := by
    rw [← sumFin_mul_left]; congr 1; funext j; ring
  have habs : ∀ j, absv (c * x j - c * t j) = c * absv (x j - t j) := by
    intro j; rw [← mul_sub]; exact absv_mul_left hc _
  have hsqrt : Real.sqrt (c * c * sumFin (fun j => (x j - t j) * (x j - t j))) =
      c * Real.sqrt (sumFin fun j => (x j - t j) * (x j - t j)) := by
    rw [Real.sqrt_mul (mul_self_nonneg c), Real.sqrt_mul_self hc]
  cases μ <;> simp only [Agg.dist, reduceCtorEq, if_false, if_true, sqrt_real]
  · rw [hsq, hsqrt]
  · exact hsq
  · simp only [habs]; exact sumFin_mul_left c _
  · simp only [habs]; exact maxFin_mul_left hc _
  · rw [hsq, hsqrt]

/-- `Σ_j [o j = x] · (k + f j) = #{j | o j = x} · k + Σ_j [o j = x] · f j` -/
theorem sumFin_ite_add_const (o : Vec n Obj) (x : Obj) (k : ℝ) (f : Fin n → ℝ) :
    sumFin (fun j => if o j = x then k + f j else 0) =
      ((univ.filter fun j => o j = x).card : ℝ) * k + sumFin (fun j => if o j = x then f j else 0) := by
  rw [sumFin_eq_sum, sumFin_eq_sum, ← sum_filter, ← sum_filter, sum_add_distrib, sum_const, nsmul_eq_mul]

end Agg

/-! ## dense ranks -/
section rank
variable {α : Type} [LinearOrder α]

/-- the rank of a value depends only on the *set* of scores -/
theorem rankOf_congr_toFinset {s t : List α} (h : s.toFinset = t.toFinset) (x : α) : rankOf s x = rankOf t x := by
  rw [rankOf_eq_card', rankOf_eq_card', h]

theorem toFinset_ofFn_perm {m : ℕ} (s : Fin m → α) (σ : Equiv.Perm (Fin m)) :
    (List.ofFn fun i => s (σ i)).toFinset = (List.ofFn s).toFinset := by
  ext x
  simp only [List.mem_toFinset, List.mem_ofFn']
  constructor
  · rintro ⟨i, rfl⟩; exact ⟨σ i, rfl⟩
  · rintro ⟨i, rfl⟩; exact ⟨σ.symm i, by simp⟩

/-- a strictly increasing change of scale of the scores does not move any rank -/
theorem rankOf_map_strictMono {β : Type} [LinearOrder β] {f : α → β} (hf : StrictMono f) (s : List α) (x : α) :
    rankOf (s.map f) (f x) = rankOf s x := by
  rw [rankOf_eq_card', rankOf_eq_card']
  congr 1
  have : (s.map f).toFinset.filter (· < f x) = (s.toFinset.filter (· < x)).image f := by
    ext y
    simp only [mem_filter, List.mem_toFinset, List.mem_map, mem_image]
    constructor
    · rintro ⟨⟨a, ha, rfl⟩, hlt⟩; exact ⟨a, ⟨ha, hf.lt_iff_lt.mp hlt⟩, rfl⟩
    · rintro ⟨a, ⟨ha, hlt⟩, rfl⟩; exact ⟨⟨a, ha, rfl⟩, hf.lt_iff_lt.mpr hlt⟩
  rw [this, card_image_of_injective _ hf.injective]

theorem denseRank_map_strictMono {β : Type} [LinearOrder β] {f : α → β} (hf : StrictMono f) (s : List α) :
    denseRank (s.map f) = denseRank s := by
  unfold denseRank
  rw [List.map_map]
  apply List.map_congr_left
  intro x _
  exact rankOf_map_strictMono hf s x

end rank

section rankfield
variable {α : Type} [Field α] [LinearOrder α] [IsStrictOrderedRing α]

/-- `rank_values(·, reverse)` under a strictly increasing map of the scores -/
theorem rankValues_map_strictMono {f : α → α} (hf : StrictMono f) (rev : Bool) (s : List α) :
    rankValues rev (s.map f) = rankValues rev s := by
  cases rev
  · simp only [rankValues, Bool.false_eq_true, if_false]; exact denseRank_map_strictMono hf s
  · simp only [rankValues, if_true]
    have hg : StrictMono fun y : α => -f (-y) := by
      intro a b hab
      have : f (-b) < f (-a) := hf (neg_lt_neg hab)
      exact neg_lt_neg this
    have : (s.map f).map (- ·) = (s.map (- ·)).map (fun y : α => -f (-y)) := by
      rw [List.map_map, List.map_map]; apply List.map_congr_left; intro x _; simp
    rw [this]; exact denseRank_map_strictMono hg _

/-- rank of alternative `i` for the score vector `s` (what `rank_values(s, reverse)[i]` is) -/
def rankVec {m : ℕ} (rev : Bool) (s : Fin m → α) : Fin m → ℕ :=
  fun i => rankOf (if rev then (List.ofFn s).map (- ·) else List.ofFn s) (if rev then -s i else s i)

theorem rankValues_ofFn {m : ℕ} (rev : Bool) (s : Fin m → α) :
    rankValues rev (List.ofFn s) = List.ofFn (rankVec rev s) := by
  cases rev
  · simp only [rankValues, Bool.false_eq_true, if_false, denseRank, List.map_ofFn]; rfl
  · simp only [rankValues, if_true, denseRank, List.map_ofFn]
    congr 1; funext i
    simp only [rankVec, if_true, List.map_ofFn, Function.comp_apply]

theorem rankVec_perm {m : ℕ} (rev : Bool) (s : Fin m → α) (σ : Equiv.Perm (Fin m)) (i : Fin m) :
    rankVec rev (fun i => s (σ i)) i = rankVec rev s (σ i) := by
  cases rev
  · simp only [rankVec, Bool.false_eq_true, if_false]
    exact rankOf_congr_toFinset (toFinset_ofFn_perm s σ) _
  · simp only [rankVec, if_true, List.map_ofFn]
    exact rankOf_congr_toFinset (toFinset_ofFn_perm (fun i => -s i) σ) _

theorem rankVec_map_strictMono {m : ℕ} {f : α → α} (hf : StrictMono f) (rev : Bool) (s : Fin m → α) :
    rankVec rev (fun i => f (s i)) = rankVec rev s := by
  have h := rankValues_map_strictMono hf rev (List.ofFn s)
  rw [List.map_ofFn, rankValues_ofFn, rankValues_ofFn] at h
  exact List.ofFn_injective h

end rankfield
/-! ## MultiMOORA: the pairwise count over the rank matrix -/
namespace Agg

theorem range_filter_length (m : ℕ) (p : ℕ → Bool) :
    ((List.range m).filter p).length = (univ.filter fun k : Fin m => p k = true).card := by
  rw [← countFin_eq_card (fun k : Fin m => p k)]
  unfold countFin
  rw [← List.map_coe_finRange_eq_range, List.ofFn_eq_map, List.filter_map, List.filter_map, List.length_map, List.length_map]
  rfl

theorem getD_ofFn {β : Type} {m : ℕ} (R : Fin m → β) (d : β) (i : Fin m) : (List.ofFn R).getD i.val d = R i := by
  simp [List.getD_eq_getElem?_getD]

/-- score of alternative `i`: the number of other alternatives `k` it beats on the rank matrix -/
theorem multimooraScore_ofFn {m : ℕ} (R : Fin m → List ℕ) (h3 : ∀ i, (R i).length = 3) (i : Fin m) :
    (multimooraScore (List.ofFn R)).getD i.val 0 =
      (univ.filter fun k : Fin m => k ≠ i ∧ pairWinner (R i) (R k) = some true).card := by
  have hlen : (List.ofFn R).length = m := List.length_ofFn
  have hi : i.val < (List.ofFn R).length := by rw [hlen]; exact i.isLt
  have hrows : ∀ r ∈ List.ofFn R, r.length = 3 := by
    intro r hr; obtain ⟨k, rfl⟩ := (List.mem_ofFn' _ _).mp hr; exact h3 k
  have h := C04.multimoora_score_count (List.ofFn R) hrows i.val hi
  rw [List.getD_eq_getElem?_getD, List.getElem?_eq_getElem (by simp [multimooraScore]), Option.getD_some, h, hlen,
    range_filter_length]
  congr 1
  ext k
  simp only [getD_ofFn, Bool.and_eq_true, decide_eq_true_eq, beq_iff_eq, ne_eq, Fin.val_inj]

theorem multimooraScore_row_perm' {m : ℕ} (R : Fin m → List ℕ) (h3 : ∀ i, (R i).length = 3) (σ : Equiv.Perm (Fin m))
    (i : Fin m) :
    (multimooraScore (List.ofFn fun i => R (σ i))).getD i.val 0 = (multimooraScore (List.ofFn R)).getD (σ i).val 0 := by
  rw [multimooraScore_ofFn (fun i => R (σ i)) (fun i => h3 (σ i)), multimooraScore_ofFn R h3]
  apply Finset.card_bij (fun k _ => σ k)
  · intro k hk
    simp only [mem_filter, mem_univ, true_and] at hk ⊢
    exact ⟨fun h => hk.1 (σ.injective h), hk.2⟩
  · intro a _ b _ h; exact σ.injective h
  · intro k hk
    simp only [mem_filter, mem_univ, true_and] at hk
    refine ⟨σ.symm k, ?_, by simp⟩
    simp only [mem_filter, mem_univ, true_and, Equiv.apply_symm_apply]
    exact ⟨fun h => hk.1 (by rw [← h]; simp), hk.2⟩

/-- row `i` of MultiMOORA's rank matrix: the ranks of alternative `i` under RatioMOORA, ReferencePointMOORA, FMF -/
noncomputable def multimooraRows {m n : ℕ} [NeZero m] [NeZero n] (A : Mat m n ℝ) (o : Vec n Obj) (w : Vec n ℝ) : Fin m → List ℕ :=
  fun i => [rankVec true (ratio A o w) i, rankVec false (refpoint A o w) i, rankVec true (fmfCode A o w) i]

theorem rankMatrix_ofFn {m : ℕ} (r1 r2 r3 : Fin m → ℕ) :
    rankMatrix (List.ofFn r1) (List.ofFn r2) (List.ofFn r3) = List.ofFn fun i => [r1 i, r2 i, r3 i] := by
  apply List.ext_getElem
  · simp [rankMatrix]
  · intro k h1 h2
    have hk : k < m := by simpa using h2
    simp [rankMatrix, List.getD_eq_getElem?_getD, hk]

end Agg
/-! ## results are looked up by the alternative's name -/
section labels
variable {β : Type}

/-- value attached to the alternative called `a` (first match; names are unique in a decision matrix) -/
def Result.valueOf (r : Result β) (a : String) : Option β := (r.alts.zip r.values).lookup a

theorem lookup_zip_map_inj {f : String → String} (hf : Function.Injective f) (a : String) :
    ∀ (alts : List String) (values : List β), ((alts.map f).zip values).lookup (f a) = (alts.zip values).lookup a
  | [], _ => by simp
  | _ :: _, [] => by simp
  | x :: xs, v :: vs => by
    simp only [List.map_cons, List.zip_cons_cons, List.lookup_cons]
    by_cases h : a = x
    · subst h; simp
    · have h' : ¬ f a = f x := fun e => h (hf e)
      have hb1 : (a == x) = false := by simpa using h
      have hb2 : (f a == f x) = false := by simpa using h'
      simp only [hb1, hb2]
      exact lookup_zip_map_inj hf a xs vs

theorem lookup_zip_getElem : ∀ (alts : List String) (values : List β) (hn : alts.Nodup) (k : ℕ)
    (h1 : k < alts.length) (h2 : k < values.length), (alts.zip values).lookup alts[k] = some values[k]
  | [], _, _, k, h1, _ => by simp at h1
  | _ :: _, [], _, k, _, h2 => by simp at h2
  | x :: xs, v :: vs, hn, 0, _, _ => by simp
  | x :: xs, v :: vs, hn, k + 1, h1, h2 => by
    have hn' := List.nodup_cons.mp hn
    have hne : ¬ xs[k]'(by simpa using h1) = x := by
      intro e; exact hn'.1 (e ▸ List.getElem_mem _)
    have hb : ((xs[k]'(by simpa using h1)) == x) = false := by simpa using hne
    simp only [List.zip_cons_cons, List.getElem_cons_succ, List.lookup_cons, hb]
    exact lookup_zip_getElem xs vs hn'.2 k (by simpa using h1) (by simpa using h2)

theorem valueOf_ofFn {m : ℕ} (alts : Fin m → String) (ha : Function.Injective alts) (v : Fin m → β) (k : Fin m) :
    (mkResult (List.ofFn alts) (List.ofFn v)).valueOf (alts k) = some (v k) := by
  have h := lookup_zip_getElem (List.ofFn alts) (List.ofFn v) ((List.nodup_ofFn).mpr ha) k.val (by simp) (by simp)
  simpa [Result.valueOf, mkResult] using h

end labels
end Skc
