import Skc.Model.Dominance
import Skc.Proofs.Dominance
import Skc.Proofs.Num
set_option linter.unusedSectionVars false

/-! The accessor model (`Skc.Dom`) against the definition of dominance (`Skc.dominates`). -/
namespace Skc.Dom
open Skc Finset

variable {α : Type} [LinearOrder α] {m n : ℕ}

theorem aDbW_iff (o : Vec n Obj) (a b : Fin n → α) (j : Fin n) :
    (pair (revOf o) a b).aDbW j = true ↔ better (o j) (a j) (b j) := by
  unfold pair revOf better
  cases ho : o j <;> simp [ho]
theorem eqW_iff (o : Vec n Obj) (a b : Fin n → α) (j : Fin n) :
    (pair (revOf o) a b).eqW j = true ↔ a j = b j := by
  simp [pair]
theorem bDaW_iff (o : Vec n Obj) (a b : Fin n → α) (j : Fin n) :
    (pair (revOf o) a b).bDaW j = true ↔ better (o j) (b j) (a j) := by
  have h1 := aDbW_iff o a b j
  have h2 := eqW_iff o a b j
  have : (pair (revOf o) a b).bDaW j = !((pair (revOf o) a b).aDbW j || (pair (revOf o) a b).eqW j) := rfl
  rw [this]
  rcases better_trichotomy (o j) (a j) (b j) with h | h | h
  · simp [h1.mpr h, better_asymm h]
  · have hn : ¬ better (o j) (a j) (b j) := by rw [h]; exact better_irrefl _ _
    have hn' : ¬ better (o j) (b j) (a j) := by rw [h]; exact better_irrefl _ _
    simp [h2.mpr h, hn']
  · have hn : ¬ better (o j) (a j) (b j) := better_asymm h
    have hne : ¬ a j = b j := fun e => better_irrefl (o j) (a j) (e ▸ h)
    have e1 : (pair (revOf o) a b).aDbW j = false := by
      cases hh : (pair (revOf o) a b).aDbW j
      · rfl
      · exact absurd (h1.mp hh) hn
    have e2 : (pair (revOf o) a b).eqW j = false := by
      cases hh : (pair (revOf o) a b).eqW j
      · rfl
      · exact absurd (h2.mp hh) hne
    simp [e1, e2, h]

theorem aDb_eq (o : Vec n Obj) (a b : Fin n → α) : (pair (revOf o) a b).aDb = btCount o a b := by
  unfold Pair.aDb btCount; rw [countFin_eq_card]; congr 1; ext j; simp [aDbW_iff]
theorem bDa_eq (o : Vec n Obj) (a b : Fin n → α) : (pair (revOf o) a b).bDa = btCount o b a := by
  unfold Pair.bDa btCount; rw [countFin_eq_card]; congr 1; ext j; simp [bDaW_iff]
theorem eq_eq (o : Vec n Obj) (a b : Fin n → α) : (pair (revOf o) a b).eq = eqCount a b := by
  unfold Pair.eq eqCount; rw [countFin_eq_card]; congr 1; ext j; simp [eqW_iff]

theorem eqCount_comm (a b : Fin n → α) : eqCount a b = eqCount b a := by
  unfold eqCount; congr 1; ext j; simp [eq_comm]

/-- whichever way the pair is stored, the cell read for `(i, k)` is the count for `(i, k)` -/
theorem bt_eq (A : Mat m n α) (o : Vec n Obj) (i k : Fin m) (h : i ≠ k) : bt A o i k = btCount o (A i) (A k) := by
  unfold bt cacheRead
  simp only [h, if_false]
  split <;> simp [aDb_eq, bDa_eq]
theorem eqT_eq (A : Mat m n α) (o : Vec n Obj) (i k : Fin m) (h : i ≠ k) : eqT A o i k = eqCount (A i) (A k) := by
  unfold eqT cacheRead
  simp only [h, if_false]
  split
  · simp [eq_eq]
  · simp [eq_eq, eqCount_comm]

theorem dominance_iff' (strict : Bool) (A : Mat m n α) (o : Vec n Obj) (i k : Fin m) :
    dominance strict A o i k = true ↔
      i ≠ k ∧ (if strict then sdominates o (A i) (A k) else dominates o (A i) (A k)) := by
  unfold dominance
  by_cases hik : i = k
  · simp [hik]
  · simp only [hik, if_false, ne_eq, not_false_eq_true, true_and]
    unfold cacheRead
    have key : ∀ (p0 p1 e : ℕ), p0 = btCount o (A i) (A k) → p1 = btCount o (A k) (A i) → e = eqCount (A i) (A k) →
        ((if (strict && e != 0) = true then false else decide (p0 > 0) && p1 == 0) = true ↔
          (if strict then sdominates o (A i) (A k) else dominates o (A i) (A k))) := by
      intro p0 p1 e h0 h1 he
      subst h0 h1 he
      cases strict
      · simp [dominates_iff_counts]
      · simp only [Bool.true_and, if_true]
        rw [sdominates_iff_counts]
        by_cases hz : eqCount (A i) (A k) = 0 <;> simp [hz]
    split
    · exact key _ _ _ (by simp [aDb_eq]) (by simp [bDa_eq]) (by simp [eq_eq])
    · exact key _ _ _ (by simp [bDa_eq]) (by simp [aDb_eq]) (by simp [eq_eq, eqCount_comm])

/-! ### `dominators_of`: termination and meaning -/

theorem mapM_some {β γ} (f : β → Option γ) : ∀ (l : List β) (r : List γ), l.mapM f = some r →
    r.length = l.length ∧ ∀ k (h : k < l.length) (h' : k < r.length), f l[k] = some r[k] := by
  intro l
  induction l with
  | nil => intro r h; simp at h; subst h; simp
  | cons a t ih =>
    intro r h
    simp only [List.mapM_cons] at h
    cases ha : f a with
    | none => simp [ha] at h
    | some b =>
      cases ht : t.mapM f with
      | none => simp [ha, ht] at h
      | some r' =>
        simp [ha, ht] at h; subst h
        obtain ⟨hl, hk⟩ := ih r' ht
        refine ⟨by simp [hl], ?_⟩
        intro k h1 h2
        cases k with
        | zero => simpa using ha
        | succ k => simpa using hk k (by simpa using h1) (by simpa using h2)

/-- the set of dominators of `a` among the `m` alternatives -/
def domSet (D : ℕ → ℕ → Bool) (m a : ℕ) : Finset ℕ := (range m).filter (D · a)

theorem mem_ds (D : ℕ → ℕ → Bool) (m a x : ℕ) :
    x ∈ (List.range m).filter (D · a) ↔ x ∈ domSet D m a := by simp [domSet]

theorem domSet_ssubset (D : ℕ → ℕ → Bool) (m : ℕ) (hirr : ∀ x, D x x = false)
    (htr : ∀ x y z, D x y = true → D y z = true → D x z = true) {a d : ℕ} (hd : d ∈ domSet D m a) :
    domSet D m d ⊂ domSet D m a := by
  simp only [domSet, mem_filter, mem_range] at hd
  refine Finset.ssubset_iff_of_subset ?_ |>.mpr ⟨d, by simp [domSet, hd], by simp [domSet, hirr]⟩
  intro x hx
  simp only [domSet, mem_filter, mem_range] at hx ⊢
  exact ⟨hx.1, htr x d a hx.2 hd.2⟩

theorem dominatorsOf_ok (D : ℕ → ℕ → Bool) (m : ℕ) (hirr : ∀ x, D x x = false)
    (htr : ∀ x y z, D x y = true → D y z = true → D x z = true) :
    ∀ fuel a, (domSet D m a).card < fuel →
      ∃ l, dominatorsOf D m fuel a = some l ∧ ∀ x, x ∈ l ↔ x ∈ domSet D m a := by
  intro fuel
  induction fuel with
  | zero => intro a h; omega
  | succ f ih =>
    intro a hcard
    unfold dominatorsOf
    simp only
    split
    · rename_i hemp
      refine ⟨[], rfl, fun x => ?_⟩
      rw [← mem_ds]
      have : (List.range m).filter (D · a) = [] := List.isEmpty_iff.mp hemp
      simp [this]
    · have hall : ∀ d ∈ (List.range m).filter (D · a),
          ∃ l, dominatorsOf D m f d = some l ∧ ∀ x, x ∈ l ↔ x ∈ domSet D m d := by
        intro d hd
        have hd' := (mem_ds D m a d).mp hd
        have := card_lt_card (domSet_ssubset D m hirr htr hd')
        exact ih d (by omega)
      cases hm : ((List.range m).filter (D · a)).mapM (dominatorsOf D m f) with
      | none =>
        exfalso
        have : ∀ (l : List ℕ), (∀ d ∈ l, ∃ r, dominatorsOf D m f d = some r) → l.mapM (dominatorsOf D m f) ≠ none := by
          intro l
          induction l with
          | nil => intro _; simp
          | cons x t iht =>
            intro h
            obtain ⟨r, hr⟩ := h x (by simp)
            have := iht (fun d hd => h d (by simp [hd]))
            simp only [List.mapM_cons, hr]
            cases ht : t.mapM (dominatorsOf D m f) with
            | none => exact absurd ht this
            | some _ => simp
        exact this _ (fun d hd => let ⟨l, hl, _⟩ := hall d hd; ⟨l, hl⟩) hm
      | some rest =>
        refine ⟨_, rfl, fun x => ?_⟩
        obtain ⟨hlen, hidx⟩ := mapM_some _ _ _ hm
        simp only [List.mem_append, List.mem_flatten]
        constructor
        · rintro (h | ⟨l, hl, hx⟩)
          · exact (mem_ds D m a x).mp h
          · obtain ⟨k, hk, rfl⟩ := List.getElem_of_mem hl
            have hk' : k < ((List.range m).filter (D · a)).length := by omega
            have e := hidx k hk' hk
            set d := ((List.range m).filter (D · a))[k] with hd
            have hdm : d ∈ (List.range m).filter (D · a) := List.getElem_mem hk'
            obtain ⟨l, hl, hmem⟩ := hall d hdm
            rw [hl] at e; cases e
            have hxd := (hmem x).mp hx
            exact (domSet_ssubset D m hirr htr ((mem_ds D m a d).mp hdm)).subset hxd
        · intro h; exact Or.inl ((mem_ds D m a x).mpr h)

theorem domSet_card_lt (D : ℕ → ℕ → Bool) (m a : ℕ) (hirr : ∀ x, D x x = false) (ha : a < m) :
    (domSet D m a).card < m := by
  have : domSet D m a ⊂ range m := by
    refine Finset.ssubset_iff_of_subset (filter_subset _ _) |>.mpr ⟨a, by simpa using ha, by simp [domSet, hirr]⟩
  simpa using card_lt_card this

/-! ### the lru_cache as a state machine -/
theorem memoRun_eq {κ β : Type} [DecidableEq κ] (f : κ → β) :
    ∀ (ks : List κ) (cache : List (κ × β)), (∀ p ∈ cache, p.2 = f p.1) → memoRun f cache ks = ks.map f := by
  intro ks
  induction ks with
  | nil => intro _ _; rfl
  | cons k ks ih =>
    intro cache hc
    unfold memoRun memoCall
    cases hl : cache.lookup k with
    | some v =>
      have hv : v = f k := by
        have hm : (k, v) ∈ cache := by
          clear ih hc
          induction cache with
          | nil => simp at hl
          | cons p t iht =>
            obtain ⟨pk, pv⟩ := p
            simp only [List.lookup_cons] at hl
            by_cases hkp : k = pk
            · subst hkp; simp at hl; subst hl; exact List.mem_cons_self
            · have : (k == pk) = false := by simpa using hkp
              rw [this] at hl
              exact List.mem_cons_of_mem _ (iht hl)
        exact hc _ hm
      simp only [List.map_cons, hv]
      rw [ih cache hc]
    | none =>
      simp only [List.map_cons]
      rw [ih _ (by intro p hp; rcases List.mem_cons.mp hp with rfl | hp; rfl; exact hc p hp)]

end Skc.Dom
