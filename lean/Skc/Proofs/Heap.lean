import Skc.Model.Heap
import Mathlib.Data.List.Basic
import Mathlib.Tactic

/-! Helper lemmas for C02 (`Skc/Props/C02.lean`): frame lemmas for the three kinds of store update
(a write into a handed-out object, allocation of an object for the caller, memoisation). -/
namespace Skc.Heap

theorem get_push_lt (w : World) (a : Arr) {r : Ref} (h : r < w.heap.length) : (push w a).get r = w.get r := by
  simp [push, World.get, List.getD_eq_getElem?_getD, List.getElem?_append_left h]

theorem get_push_len (w : World) (a : Arr) : (push w a).get w.heap.length = a := by
  simp [push, World.get, List.getD_eq_getElem?_getD]

theorem internals_push (T : Table) (w : World) (hI : Inv T w) (a : Arr) : (push w a).internals = w.internals := by
  unfold World.internals
  apply List.map_congr_left
  intro r hr
  exact get_push_lt w a (hI.intIn r hr)

theorem get_modify_ne (h : List Arr) (r r' : Ref) (f : Arr → Arr) (hne : r' ≠ r) :
    (h.modify r f).getD r' [] = h.getD r' [] := by
  simp [List.getD, hne.symm]

theorem memo_ref_of_lookup {m : List (Nat × Ref)} {k : Nat} {c : Ref} (h : memoLookup m k = some c) :
    ∃ p ∈ m, p.2 = c ∧ p.1 = k := by
  unfold memoLookup at h
  cases hf : m.find? (·.1 == k) with
  | none => simp [hf] at h
  | some p =>
    simp [hf] at h
    have := List.find?_some hf
    exact ⟨p, List.mem_of_find?_eq_some hf, h, by simpa using this⟩

theorem memoLookup_cons_self (m : List (Nat × Ref)) (k : Nat) (r : Ref) : memoLookup ((k, r) :: m) k = some r := by
  simp [memoLookup]

theorem memoLookup_cons_ne (m : List (Nat × Ref)) {k k' : Nat} (r : Ref) (h : k ≠ k') :
    memoLookup ((k, r) :: m) k' = memoLookup m k' := by
  simp [memoLookup, h]

/-- a write into a handed-out object leaves every internal array and every memoised object alone -/
theorem write_frame (T : Table) (w : World) (hI : Inv T w) (r i v) :
    let w' := step T w (.write r i v)
    w'.internals = w.internals ∧ w'.memo = w.memo ∧ w'.internal = w.internal ∧ w'.handed = w.handed ∧
    w'.heap.length = w.heap.length ∧ ∀ p ∈ w.memo, w'.get p.2 = w.get p.2 := by
  simp only [step]
  split
  · rename_i hr
    refine ⟨?_, rfl, rfl, rfl, by simp, ?_⟩
    · unfold World.internals World.get
      apply List.map_congr_left
      intro x hx
      exact get_modify_ne _ _ _ _ (fun h => hI.sepInt r hr (h ▸ hx))
    · intro p hp
      exact get_modify_ne _ _ _ _ (hI.sepMemo r hr p hp)
  · exact ⟨rfl, rfl, rfl, rfl, rfl, fun _ _ => rfl⟩

theorem answer_write (T : Table) (w : World) (hI : Inv T w) (r i v) (k : Nat) :
    answer T (step T w (.write r i v)) k = answer T w k := by
  obtain ⟨h1, h2, _, _, _, h6⟩ := write_frame T w hI r i v
  unfold answer
  rw [h2, h1]
  cases hm : memoLookup w.memo k with
  | none => rfl
  | some c =>
    obtain ⟨p, hp, rfl, _⟩ := memo_ref_of_lookup hm
    exact h6 p hp

theorem inv_write (T : Table) (w : World) (hI : Inv T w) (r i v) : Inv T (step T w (.write r i v)) := by
  obtain ⟨h1, h2, h3, h4, h5, h6⟩ := write_frame T w hI r i v
  constructor
  · rw [h4, h3]; exact hI.sepInt
  · rw [h4, h2]; exact hI.sepMemo
  · rw [h3, h5]; exact hI.intIn
  · rw [h2, h5]; exact hI.memoIn
  · rw [h4, h5]; exact hI.handIn
  · rw [h2, h1]; intro p hp; rw [h6 p hp]; exact hI.memoOK p hp

/-- allocating an object for the caller changes no answer and keeps the invariant -/
theorem handOut_frame (T : Table) (w : World) (hI : Inv T w) (a : Arr) :
    (∀ k, answer T (handOut w a) k = answer T w k) ∧ Inv T (handOut w a) := by
  have hint : (handOut w a).internals = w.internals := internals_push T w hI a
  have hget : ∀ r, r < w.heap.length → (handOut w a).get r = w.get r := fun r hr => get_push_lt w a hr
  have hlen : (handOut w a).heap.length = w.heap.length + 1 := by simp [handOut, push]
  refine ⟨?_, ?_⟩
  · intro k
    unfold answer
    show (match memoLookup w.memo k with | some r => (handOut w a).get r | none => T.compute k (handOut w a).internals) = _
    rw [hint]
    cases hm : memoLookup w.memo k with
    | none => rfl
    | some c =>
      obtain ⟨p, hp, rfl, _⟩ := memo_ref_of_lookup hm
      exact hget _ (hI.memoIn p hp)
  · constructor
    · intro r hr
      rcases List.mem_cons.mp hr with rfl | hr
      · intro h; exact absurd (hI.intIn _ h) (by simp)
      · exact hI.sepInt r hr
    · intro r hr p hp
      rcases List.mem_cons.mp hr with rfl | hr
      · intro h; have := hI.memoIn p hp; rw [h] at this; exact absurd this (Nat.lt_irrefl _)
      · exact hI.sepMemo r hr p hp
    · intro r hr; have := hI.intIn r hr; rw [hlen]; exact Nat.lt_succ_of_lt this
    · intro p hp; have := hI.memoIn p hp; rw [hlen]; exact Nat.lt_succ_of_lt this
    · intro r hr
      rw [hlen]
      rcases List.mem_cons.mp hr with rfl | hr
      · exact Nat.lt_succ_self _
      · exact Nat.lt_succ_of_lt (hI.handIn r hr)
    · intro p hp
      show (handOut w a).get p.2 = T.compute p.1 (handOut w a).internals
      rw [hint, hget _ (hI.memoIn p hp)]; exact hI.memoOK p hp

/-- filling the cache of accessor `k` (cache miss) changes no answer — the cached object *is* the pure
answer — and keeps the invariant: the new object is held by the cache only -/
theorem memoize_frame (T : Table) (w : World) (hI : Inv T w) (k : Nat) (hm : memoLookup w.memo k = none) :
    (∀ k', answer T (memoize T w k) k' = answer T w k') ∧ Inv T (memoize T w k) := by
  have hint : (memoize T w k).internals = w.internals := internals_push T w hI _
  have hget : ∀ r, r < w.heap.length → (memoize T w k).get r = w.get r := fun r hr => get_push_lt w _ hr
  have hnew : (memoize T w k).get w.heap.length = T.compute k w.internals := get_push_len w _
  have hlen : (memoize T w k).heap.length = w.heap.length + 1 := by simp [memoize, push]
  have hmemo : (memoize T w k).memo = (k, w.heap.length) :: w.memo := rfl
  refine ⟨?_, ?_⟩
  · intro k'
    unfold answer
    rw [hmemo, hint]
    by_cases hk : k = k'
    · subst hk
      rw [memoLookup_cons_self, hm]
      exact hnew
    · rw [memoLookup_cons_ne _ _ hk]
      cases hm' : memoLookup w.memo k' with
      | none => rfl
      | some c =>
        obtain ⟨p, hp, rfl, _⟩ := memo_ref_of_lookup hm'
        exact hget _ (hI.memoIn p hp)
  · constructor
    · exact hI.sepInt
    · intro r hr p hp
      rw [hmemo] at hp
      rcases List.mem_cons.mp hp with rfl | hp
      · intro h
        have h1 : r < w.heap.length := hI.handIn r hr
        have h2 : w.heap.length = r := h
        rw [h2] at h1
        exact Nat.lt_irrefl _ h1
      · exact hI.sepMemo r hr p hp
    · intro r hr; have := hI.intIn r hr; rw [hlen]; exact Nat.lt_succ_of_lt this
    · intro p hp
      rw [hmemo] at hp
      rw [hlen]
      rcases List.mem_cons.mp hp with rfl | hp
      · exact Nat.lt_succ_self _
      · exact Nat.lt_succ_of_lt (hI.memoIn p hp)
    · intro r hr; rw [hlen]; exact Nat.lt_succ_of_lt (hI.handIn r hr)
    · intro p hp
      rw [hmemo] at hp
      rw [hint]
      rcases List.mem_cons.mp hp with rfl | hp
      · exact hnew
      · rw [hget _ (hI.memoIn p hp)]; exact hI.memoOK p hp

/-- calls (transform / evaluate / comparisons / rank-reversal test) only read copies -/
theorem answer_call (T : Table) (w : World) (hI : Inv T w) (f) :
    (∀ k, answer T (step T w (.call f)) k = answer T w k) ∧ Inv T (step T w (.call f)) :=
  handOut_frame T w hI _

/-- reading a copying accessor -/
theorem answer_read_fresh (T : Table) (w : World) (hI : Inv T w) (k' : Nat) (hk : T.kind k' = .freshCopy) :
    (∀ k, answer T (step T w (.read k')) k = answer T w k) ∧ Inv T (step T w (.read k')) := by
  simp only [step, hk]
  exact handOut_frame T w hI _

/-- reading a memoising accessor that hands out a copy of its cached object: cache hit and cache miss -/
theorem answer_read_memo (T : Table) (w : World) (hI : Inv T w) (k' : Nat) (hk : T.kind k' = .memoThenCopy) :
    (∀ k, answer T (step T w (.read k')) k = answer T w k) ∧ Inv T (step T w (.read k')) := by
  simp only [step, hk]
  cases hm : memoLookup w.memo k' with
  | some c => exact handOut_frame T w hI _
  | none =>
    simp only
    obtain ⟨hA, hI'⟩ := memoize_frame T w hI k' hm
    obtain ⟨hA2, hI2⟩ := handOut_frame T (memoize T w k') hI' (T.compute k' w.internals)
    exact ⟨fun k => (hA2 k).trans (hA k), hI2⟩

theorem kindOf_ne_shared (accs : List Accessor) (h : ∀ a ∈ accs, a.kind ≠ .memoShared) (k : Nat) :
    kindOf accs k ≠ .memoShared := by
  unfold kindOf
  cases hk : accs[k]? with
  | none => simp
  | some a => exact h a (List.mem_of_getElem? hk)

end Skc.Heap
