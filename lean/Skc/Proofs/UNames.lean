import Mathlib.Tactic
import Mathlib.Data.List.Basic
import Mathlib.Data.List.Nodup
import Std.Data.String.ToNat
import Skc.Model.Pipeline
set_option linter.unusedSectionVars false
set_option linter.unusedVariables false
set_option linter.unusedSimpArgs false

/-! Helper lemmas for C16, part 2: `unique_names` — the loop computes the closed form; the generated
names are pairwise different when no once-occurring name is one of the generated ones. -/
namespace Skc.Pipeline

section generic
variable {ν : Type} [DecidableEq ν] (sfx : ν → Nat → ν)

theorem lookup_countTable (c : ν → Nat) (l : List ν) (n : ν) :
    List.lookup n ((l.map fun m => (m, c m)).filter fun kv => decide (1 < kv.2)) =
      if n ∈ l ∧ 1 < c n then some (c n) else none := by
  induction l with
  | nil => simp
  | cons m t ih =>
    simp only [List.map_cons, List.filter_cons]
    by_cases hm : 1 < c m
    · simp only [hm, decide_true, if_true, List.lookup_cons]
      by_cases hnm : n = m
      · subst hnm; simp [hm]
      · have : (n == m) = false := by simpa using hnm
        simp only [this, ih, List.mem_cons, hnm, false_or]
    · simp only [hm, decide_false, Bool.false_eq_true, if_false, ih, List.mem_cons]
      by_cases hnm : n = m
      · subst hnm; simp [hm]
      · simp [hnm]

theorem lookup_nameCount (names : List ν) (n : ν) :
    (nameCount names).lookup n = if 1 < names.count n then some (names.count n) else none := by
  unfold nameCount
  rw [lookup_countTable (fun m => names.count m) names n]
  by_cases h : 1 < names.count n
  · have : n ∈ names := List.count_pos_iff.mp (by omega)
    simp [h, this]
  · simp [h]

/-- what the loop emits for a reversed list, front to back: the remaining count of the name -/
def specRev (total : ν → Nat) : List ν → List ν
  | [] => []
  | n :: t => (if 1 < total n then sfx n (t.count n + 1) else n) :: specRev total t

theorem specRev_length (total : ν → Nat) (l : List ν) : (specRev sfx total l).length = l.length := by
  induction l with
  | nil => rfl
  | cons n t ih => simp [specRev, ih]

theorem unamesLoop_v0_spec (total : ν → Nat) (rev : List ν) (tbl : List (ν × Nat)) (acc : List ν)
    (h : ∀ n, tbl.lookup n = if 1 < total n then some (rev.count n) else none) :
    unamesLoop_v0 sfx rev tbl acc = (specRev sfx total rev).reverse ++ acc := by
  induction rev generalizing tbl acc with
  | nil => simp [unamesLoop_v0, specRev]
  | cons n t ih =>
    have hn := h n
    by_cases ht : 1 < total n
    · simp only [ht, if_true, List.count_cons_self] at hn
      rw [unamesLoop_v0, hn]
      simp only
      rw [ih]
      · simp [specRev, ht]
      · intro m
        by_cases hmn : m = n
        · subst hmn; simp [ht]
        · have hb : (m == n) = false := by simpa using hmn
          have hne : ¬ n = m := fun e => hmn e.symm
          simp only [List.lookup_cons, hb]
          rw [h m]
          simp [hne]
    · simp only [ht, if_false] at hn
      rw [unamesLoop_v0, hn]
      simp only
      rw [ih]
      · simp [specRev, ht]
      · intro m
        rw [h m]
        by_cases hmn : m = n
        · subst hmn; simp [ht]
        · have hne : ¬ n = m := fun e => hmn e.symm
          simp [hne]

theorem uniqueNamesG_v0_eq_specRev (names : List ν) :
    uniqueNamesG_v0 sfx names = (specRev sfx (fun n => names.count n) names.reverse).reverse := by
  unfold uniqueNamesG_v0
  rw [unamesLoop_v0_spec sfx (fun n => names.count n)]
  · simp
  · intro n
    rw [lookup_nameCount]
    simp

theorem uniqueNamesG_v0_length (names : List ν) : (uniqueNamesG_v0 sfx names).length = names.length := by
  rw [uniqueNamesG_v0_eq_specRev]
  simp [specRev_length]

theorem getElem_specRev (total : ν → Nat) (l : List ν) (j : Nat) (hj : j < l.length) :
    (specRev sfx total l)[j]'(by rw [specRev_length]; exact hj) =
      if 1 < total l[j] then sfx l[j] ((l.drop (j + 1)).count l[j] + 1) else l[j] := by
  induction l generalizing j with
  | nil => simp at hj
  | cons n t ih =>
    cases j with
    | zero => simp [specRev]
    | succ j =>
      simp only [specRev, List.getElem_cons_succ, List.drop_succ_cons]
      exact ih j (by simpa using hj)

/-- occurrence number (from 1) of the name at position `i` -/
def occ (names : List ν) (i : Nat) (hi : i < names.length) : Nat := (names.take (i + 1)).count names[i]

/-- element-wise closed form of `unique_names` -/
theorem getElem_uniqueNamesG_v0 (names : List ν) (i : Nat) (hi : i < names.length) :
    (uniqueNamesG_v0 sfx names)[i]'(by rw [uniqueNamesG_v0_length]; exact hi) =
      if 1 < names.count names[i] then sfx names[i] (occ names i hi) else names[i] := by
  have hlen : (specRev sfx (fun n => names.count n) names.reverse).length = names.length := by
    rw [specRev_length]; simp
  simp only [uniqueNamesG_v0_eq_specRev]
  rw [List.getElem_reverse]
  have hj : names.length - 1 - i < names.reverse.length := by simp; omega
  have key := getElem_specRev sfx (fun n => names.count n) names.reverse (names.length - 1 - i) hj
  have hidx : (specRev sfx (fun n => names.count n) names.reverse).length - 1 - i = names.length - 1 - i := by
    rw [hlen]
  have hx : names.reverse[names.length - 1 - i]'hj = names[i] := by
    rw [List.getElem_reverse]
    congr 1
    omega
  have hdrop : names.reverse.drop (names.length - 1 - i + 1) = (names.take i).reverse := by
    rw [List.drop_reverse]
    congr 2
    omega
  have htake : (names.take (i + 1)).count names[i] = (names.take i).count names[i] + 1 := by
    rw [List.take_succ_eq_append_getElem hi, List.count_append]
    simp
  simp only [hidx]
  rw [key, hx, hdrop, List.count_reverse]
  simp only [occ, htake]

theorem getElem_uniqueNamesSpecG (names : List ν) (i : Nat) (hi : i < names.length) :
    (uniqueNamesSpecG sfx names)[i]'(by simp [uniqueNamesSpecG]; exact hi) =
      if 1 < names.count names[i] then sfx names[i] (occ names i hi) else names[i] := by
  simp [uniqueNamesSpecG, occ]

theorem uniqueNamesG_v0_eq_spec (names : List ν) : uniqueNamesG_v0 sfx names = uniqueNamesSpecG sfx names := by
  apply List.ext_getElem
  · rw [uniqueNamesG_v0_length]; simp [uniqueNamesSpecG]
  · intro i h1 h2
    have hi : i < names.length := by rw [uniqueNamesG_v0_length] at h1; exact h1
    rw [getElem_uniqueNamesG_v0 sfx names i hi, getElem_uniqueNamesSpecG sfx names i hi]

/-! ### occurrence numbers -/

theorem occ_pos (names : List ν) (i : Nat) (hi : i < names.length) : 1 ≤ occ names i hi := by
  unfold occ
  rw [List.take_succ_eq_append_getElem hi, List.count_append]
  simp

theorem occ_le (names : List ν) (i : Nat) (hi : i < names.length) : occ names i hi ≤ names.count names[i] :=
  (List.take_sublist _ _).count_le _

theorem occ_lt (names : List ν) (i j : Nat) (hi : i < names.length) (hj : j < names.length) (hij : i < j)
    (he : names[i] = names[j]) : occ names i hi < occ names j hj := by
  unfold occ
  rw [List.take_succ_eq_append_getElem hj, List.count_append, he]
  have : (names.take (i + 1)).count names[j] ≤ (names.take j).count names[j] := by
    have hsub : (names.take (i + 1)).Sublist (names.take j) := by
      have := List.take_sublist (i + 1) (names.take j)
      rwa [List.take_take, min_eq_left (by omega)] at this
    exact hsub.count_le _
  simp
  omega

theorem occ_inj (names : List ν) (i j : Nat) (hi : i < names.length) (hj : j < names.length)
    (he : names[i] = names[j]) (ho : occ names i hi = occ names j hj) : i = j := by
  rcases lt_trichotomy i j with h | h | h
  · have := occ_lt names i j hi hj h he; omega
  · exact h
  · have := occ_lt names j i hj hi h he.symm; omega

/-! ### the hypothesis -/

/-- no name that occurs exactly once is one of `sfx n 1 … sfx n (count n)` for a repeated name `n` -/
def NoSuffixClash (names : List ν) : Prop :=
  ∀ n ∈ names, 1 < names.count n → ∀ k, 1 ≤ k → k ≤ names.count n → names.count (sfx n k) ≠ 1

theorem noSuffixClash_iff (names : List ν) : noSuffixClash sfx names = true ↔ NoSuffixClash sfx names := by
  unfold noSuffixClash NoSuffixClash
  simp only [List.all_eq_true, Bool.or_eq_true, decide_eq_true_eq, List.mem_range, bne_iff_ne, ne_eq]
  constructor
  · intro h n hn h1 k hk1 hk2
    rcases h n hn with h' | h'
    · omega
    · have := h' (k - 1) (by omega)
      rwa [show k - 1 + 1 = k by omega] at this
  · intro h n hn
    by_cases h1 : names.count n ≤ 1
    · exact Or.inl h1
    · exact Or.inr fun k hk => h n hn (by omega) (k + 1) (by omega) (by omega)

instance (names : List ν) : Decidable (NoSuffixClash sfx names) :=
  decidable_of_iff _ (noSuffixClash_iff sfx names)

/-- the generated names are pairwise different -/
theorem uniqueNamesG_v0_nodup (hinj : ∀ a b k m, sfx a k = sfx b m → a = b ∧ k = m) (names : List ν)
    (h : NoSuffixClash sfx names) : (uniqueNamesG_v0 sfx names).Nodup := by
  rw [List.nodup_iff_injective_getElem]
  rintro ⟨i, hi'⟩ ⟨j, hj'⟩ heq
  have hi : i < names.length := by rw [uniqueNamesG_v0_length] at hi'; exact hi'
  have hj : j < names.length := by rw [uniqueNamesG_v0_length] at hj'; exact hj'
  simp only at heq
  rw [getElem_uniqueNamesG_v0 sfx names i hi, getElem_uniqueNamesG_v0 sfx names j hj] at heq
  have hmi : names[i] ∈ names := List.getElem_mem hi
  have hmj : names[j] ∈ names := List.getElem_mem hj
  have hci : 1 ≤ names.count names[i] := List.count_pos_iff.mpr hmi
  have hcj : 1 ≤ names.count names[j] := List.count_pos_iff.mpr hmj
  have goal : i = j := by
    by_cases hi1 : 1 < names.count names[i] <;> by_cases hj1 : 1 < names.count names[j]
    · rw [if_pos hi1, if_pos hj1] at heq
      obtain ⟨e1, e2⟩ := hinj _ _ _ _ heq
      exact occ_inj names i j hi hj e1 e2
    · rw [if_pos hi1, if_neg hj1] at heq
      exfalso
      apply h names[i] hmi hi1 (occ names i hi) (occ_pos names i hi) (occ_le names i hi)
      rw [heq]; omega
    · rw [if_neg hi1, if_pos hj1] at heq
      exfalso
      apply h names[j] hmj hj1 (occ names j hj) (occ_pos names j hj) (occ_le names j hj)
      rw [← heq]; omega
    · rw [if_neg hi1, if_neg hj1] at heq
      by_contra hne
      rcases lt_or_gt_of_ne hne with hlt | hlt
      · have h1 := occ_lt names i j hi hj hlt heq
        have h2 := occ_pos names i hi
        have h3 := occ_le names j hj
        omega
      · have h1 := occ_lt names j i hj hi hlt heq.symm
        have h2 := occ_pos names j hj
        have h3 := occ_le names i hi
        omega
  exact Fin.ext goal

/-- a clash makes two generated names equal: the hypothesis is also necessary -/
theorem uniqueNamesG_v0_not_nodup (names : List ν) (i j : Nat) (hi : i < names.length) (hj : j < names.length)
    (hi1 : 1 < names.count names[i]) (hj1 : names.count names[j] = 1)
    (hc : sfx names[i] (occ names i hi) = names[j]) : ¬ (uniqueNamesG_v0 sfx names).Nodup := by
  rw [List.nodup_iff_injective_getElem]
  intro hinj
  have hi' : i < (uniqueNamesG_v0 sfx names).length := by rw [uniqueNamesG_v0_length]; exact hi
  have hj' : j < (uniqueNamesG_v0 sfx names).length := by rw [uniqueNamesG_v0_length]; exact hj
  have : (⟨i, hi'⟩ : Fin _) = ⟨j, hj'⟩ := by
    apply hinj
    simp only
    rw [getElem_uniqueNamesG_v0 sfx names i hi, getElem_uniqueNamesG_v0 sfx names j hj, if_pos hi1,
      if_neg (by omega), hc]
  have hij : i = j := by simpa using this
  subst hij
  omega

end generic

/-! ### strings -/

theorem append_underscore_inj (a b d e : List Char) (hd : '_' ∉ d) (he : '_' ∉ e)
    (h : a ++ '_' :: d = b ++ '_' :: e) : a = b ∧ d = e := by
  induction a generalizing b with
  | nil =>
    cases b with
    | nil => simpa using h
    | cons c b =>
      simp only [List.nil_append, List.cons_append, List.cons.injEq] at h
      exact absurd (h.2 ▸ (by simp : '_' ∈ b ++ '_' :: e)) hd
  | cons x a ih =>
    cases b with
    | nil =>
      simp only [List.nil_append, List.cons_append, List.cons.injEq] at h
      exact absurd (h.2 ▸ (by simp : '_' ∈ a ++ '_' :: d)) he
    | cons c b =>
      simp only [List.cons_append, List.cons.injEq] at h
      obtain ⟨e1, e2⟩ := ih b h.2
      exact ⟨by rw [h.1, e1], e2⟩

theorem sfxStr_toList (n : String) (c : Nat) : (sfxStr n c).toList = n.toList ++ '_' :: Nat.toDigits 10 c := by
  simp [sfxStr, String.toList_append, toString, Nat.toList_repr]

/-- `f"{a}_{k}"` determines `a` and `k` -/
theorem sfxStr_inj (a b : String) (k m : Nat) (h : sfxStr a k = sfxStr b m) : a = b ∧ k = m := by
  have h' := congrArg String.toList h
  rw [sfxStr_toList, sfxStr_toList] at h'
  obtain ⟨e1, e2⟩ := append_underscore_inj _ _ _ _ Nat.underscore_not_in_toDigits Nat.underscore_not_in_toDigits h'
  refine ⟨String.toList_inj.mp e1, ?_⟩
  apply Nat.repr_injective
  apply String.toList_inj.mp
  simpa [Nat.toList_repr] using e2

theorem underscore_mem_sfxStr (n : String) (c : Nat) : '_' ∈ (sfxStr n c).toList := by
  rw [sfxStr_toList]; simp

end Skc.Pipeline

namespace Skc.Pipeline

/-! ### `named_steps`: a `dict` built from the named pairs -/
section lookup
variable {β : Type}

theorem dictGet_eq_none (l : List (String × β)) (k : String) (h : k ∉ l.map (·.1)) : dictGet l k = none := by
  induction l with
  | nil => rfl
  | cons kv t ih =>
    obtain ⟨k', v⟩ := kv
    simp only [List.map_cons, List.mem_cons, not_or] at h
    simp [dictGet, ih h.2, Ne.symm h.1]

/-- with pairwise different keys every key resolves to the value it was paired with -/
theorem dictGet_zip (ks : List String) (vs : List β) (hn : ks.Nodup) (hl : ks.length = vs.length)
    (i : Nat) (hi : i < ks.length) : dictGet (ks.zip vs) ks[i] = some (vs[i]'(hl ▸ hi)) := by
  induction ks generalizing vs i with
  | nil => simp at hi
  | cons k ks ih =>
    cases vs with
    | nil => simp at hl
    | cons v vs =>
      have hn' := List.nodup_cons.mp hn
      simp only [List.zip_cons_cons, dictGet]
      cases i with
      | zero =>
        have : k ∉ (ks.zip vs).map (·.1) := by
          intro hm
          apply hn'.1
          rw [List.map_fst_zip (by simp at hl; omega)] at hm
          exact hm
        simp [dictGet_eq_none _ _ this]
      | succ i =>
        have := ih vs hn'.2 (by simpa using hl) i (by simpa using hi)
        simp only [List.getElem_cons_succ]
        rw [this]

end lookup
end Skc.Pipeline

namespace Skc.Pipeline

/-! ### the repaired loop (the code as it is now): names are pairwise different for every input -/
section fix
variable {ν : Type} [DecidableEq ν] (sfx : ν → Nat → ν)

theorem filter_length_lt {α : Type} (p q : α → Bool) (l : List α) (hpq : ∀ y, q y = true → p y = true)
    (x : α) (hx : x ∈ l) (hp : p x = true) (hq : q x = false) : (l.filter q).length < (l.filter p).length := by
  induction l with
  | nil => simp at hx
  | cons a t ih =>
    have hle : (t.filter q).length ≤ (t.filter p).length := by
      rw [← List.countP_eq_length_filter, ← List.countP_eq_length_filter]
      exact List.countP_mono_left (fun y _ => hpq y)
    rcases List.mem_cons.mp hx with rfl | hx'
    · simp only [List.filter_cons, hp, hq, if_true, Bool.false_eq_true, if_false, List.length_cons]
      omega
    · have := ih hx'
      simp only [List.filter_cons]
      cases hqa : q a
      · cases hpa : p a <;> simp <;> omega
      · simp [hpq a hqa]; omega

/-- the `while new in used` loop ends on a free name: every round makes a strictly larger name -/
theorem freshen_not_mem (size : ν → Nat) (hgrow : ∀ x c, size x < size (sfx x c)) (used : List ν) (c : Nat)
    (fuel : Nat) (x : ν) (hf : (used.filter fun y => decide (size x ≤ size y)).length < fuel) :
    freshen sfx used c fuel x ∉ used := by
  induction fuel generalizing x with
  | zero => omega
  | succ fuel ih =>
    unfold freshen
    by_cases hx : x ∈ used
    · rw [if_pos hx]
      apply ih
      have := filter_length_lt (fun y => decide (size x ≤ size y)) (fun y => decide (size (sfx x c) ≤ size y)) used
        (by
          intro y hy
          simp only [decide_eq_true_eq] at hy ⊢
          have := hgrow x c; omega)
        x hx (by simp) (by
          have := hgrow x c
          simp only [decide_eq_false_iff_not, not_le]; exact this)
      omega
    · rw [if_neg hx]; exact hx

theorem unamesLoop_nodup (size : ν → Nat) (hgrow : ∀ x c, size x < size (sfx x c)) (total : ν → Nat)
    (rev : List ν) (tbl : List (ν × Nat)) (used acc : List ν)
    (htbl : ∀ n, tbl.lookup n = if 1 < total n then some (rev.count n) else none)
    (hacc : acc.Nodup) (hsub : ∀ x ∈ acc, x ∈ used)
    (hsingle : ∀ n ∈ rev, ¬ 1 < total n → n ∈ used ∧ n ∉ acc ∧ rev.count n ≤ 1) :
    (unamesLoop sfx rev tbl used acc).Nodup := by
  induction rev generalizing tbl used acc with
  | nil => simpa [unamesLoop] using hacc
  | cons n t ih =>
    have hn := htbl n
    by_cases ht : 1 < total n
    · simp only [ht, if_true, List.count_cons_self] at hn
      rw [unamesLoop, hn]
      simp only
      have hfresh : freshen sfx used (t.count n + 1) (used.length + 1) (sfx n (t.count n + 1)) ∉ used := by
        apply freshen_not_mem sfx size hgrow
        have := List.length_filter_le (fun y => decide (size (sfx n (t.count n + 1)) ≤ size y)) used
        omega
      apply ih
      · intro m
        by_cases hmn : m = n
        · subst hmn; simp [ht]
        · have hb : (m == n) = false := by simpa using hmn
          have hne : ¬ n = m := fun e => hmn e.symm
          simp only [List.lookup_cons, hb]
          rw [htbl m]
          simp [hne]
      · exact List.nodup_cons.mpr ⟨fun h => hfresh (hsub _ h), hacc⟩
      · intro x hx
        rcases List.mem_cons.mp hx with rfl | hx
        · simp
        · exact List.mem_cons_of_mem _ (hsub x hx)
      · intro m hm hm1
        obtain ⟨h1, h2, h3⟩ := hsingle m (List.mem_cons_of_mem _ hm) hm1
        have hmn : m ≠ n := fun e => hm1 (e ▸ ht)
        refine ⟨List.mem_cons_of_mem _ h1, ?_, ?_⟩
        · intro hmem
          rcases List.mem_cons.mp hmem with rfl | hmem
          · exact hfresh h1
          · exact h2 hmem
        · have : (n :: t).count m = t.count m := by simp [List.count_cons, Ne.symm hmn]
          omega
    · simp only [ht, if_false] at hn
      rw [unamesLoop, hn]
      simp only
      obtain ⟨hn1, hn2, hn3⟩ := hsingle n (by simp) ht
      have hnt : n ∉ t := by
        intro hmem
        have : 0 < t.count n := List.count_pos_iff.mpr hmem
        simp only [List.count_cons_self] at hn3
        omega
      apply ih
      · intro m
        rw [htbl m]
        by_cases hmn : m = n
        · subst hmn; simp [ht]
        · have hne : ¬ n = m := fun e => hmn e.symm
          simp [hne]
      · exact List.nodup_cons.mpr ⟨hn2, hacc⟩
      · intro x hx
        rcases List.mem_cons.mp hx with rfl | hx
        · exact hn1
        · exact hsub x hx
      · intro m hm hm1
        obtain ⟨h1, h2, h3⟩ := hsingle m (List.mem_cons_of_mem _ hm) hm1
        have hmn : m ≠ n := fun e => hnt (e ▸ hm)
        refine ⟨h1, ?_, ?_⟩
        · intro hmem
          rcases List.mem_cons.mp hmem with rfl | hmem
          · exact hmn rfl
          · exact h2 hmem
        · have : (n :: t).count m = t.count m := by simp [List.count_cons, Ne.symm hmn]
          omega

/-- the repaired `unique_names` gives pairwise different names for EVERY list of names -/
theorem uniqueNamesG_nodup (size : ν → Nat) (hgrow : ∀ x c, size x < size (sfx x c)) (names : List ν) :
    (uniqueNamesG sfx names).Nodup := by
  unfold uniqueNamesG
  apply unamesLoop_nodup sfx size hgrow (fun n => names.count n)
  · intro n
    rw [lookup_nameCount]
    simp
  · exact List.nodup_nil
  · intro x hx; simp at hx
  · intro n hn h1
    have hmem : n ∈ names := by simpa using hn
    have hpos : 0 < names.count n := List.count_pos_iff.mpr hmem
    have hc : names.count n = 1 := by omega
    refine ⟨?_, by simp, by simp; omega⟩
    simp [usedInit, List.mem_filter, hmem, hc]

end fix

theorem sfxStr_length (x : String) (c : Nat) : x.length < (sfxStr x c).length := by
  simp only [sfxStr, String.length_append]
  have : ("_" : String).length = 1 := by decide
  omega

end Skc.Pipeline

namespace Skc.Pipeline
section fixlen
variable {ν : Type} [DecidableEq ν] (sfx : ν → Nat → ν)

theorem unamesLoop_length (rev : List ν) (tbl : List (ν × Nat)) (used acc : List ν) :
    (unamesLoop sfx rev tbl used acc).length = rev.length + acc.length := by
  induction rev generalizing tbl used acc with
  | nil => simp [unamesLoop]
  | cons n t ih =>
    rw [unamesLoop]
    split
    · rw [ih]; simp; omega
    · rw [ih]; simp; omega

theorem uniqueNamesG_length (names : List ν) : (uniqueNamesG sfx names).length = names.length := by
  simp [uniqueNamesG, unamesLoop_length]

end fixlen
end Skc.Pipeline

namespace Skc.Pipeline

/-! ### without a clash the repaired loop is the old loop (the `while` never runs) -/
section agree
variable {ν : Type} [DecidableEq ν] (sfx : ν → Nat → ν)

theorem freshen_of_not_mem (used : List ν) (c fuel : Nat) (x : ν) (hx : x ∉ used) :
    freshen sfx used c (fuel + 1) x = x := by
  simp [freshen, hx]

theorem unamesLoop_eq_v0 (hinj : ∀ a b k m, sfx a k = sfx b m → a = b ∧ k = m) (total : ν → Nat) (used0 : List ν)
    (rev : List ν) (tbl : List (ν × Nat)) (used acc : List ν)
    (htbl : ∀ n, tbl.lookup n = if 1 < total n then some (rev.count n) else none)
    (hused : ∀ y ∈ used, y ∈ used0 ∨ ∃ m j, y = sfx m j ∧ rev.count m < j)
    (hcl : ∀ n ∈ rev, 1 < total n → ∀ k, 1 ≤ k → k ≤ rev.count n → sfx n k ∉ used0) :
    unamesLoop sfx rev tbl used acc = unamesLoop_v0 sfx rev tbl acc := by
  induction rev generalizing tbl used acc with
  | nil => simp [unamesLoop, unamesLoop_v0]
  | cons n t ih =>
    have hn := htbl n
    by_cases ht : 1 < total n
    · simp only [ht, if_true, List.count_cons_self] at hn
      rw [unamesLoop, unamesLoop_v0, hn]
      simp only
      have hfree : sfx n (t.count n + 1) ∉ used := by
        intro hmem
        rcases hused _ hmem with h0 | ⟨m, j, hmj, hlt⟩
        · exact hcl n (by simp) ht (t.count n + 1) (by omega) (by simp) h0
        · obtain ⟨e1, e2⟩ := hinj _ _ _ _ hmj
          subst e1
          simp only [List.count_cons_self] at hlt
          omega
      rw [freshen_of_not_mem sfx used _ _ _ hfree]
      apply ih
      · intro m
        by_cases hmn : m = n
        · subst hmn; simp [ht]
        · have hb : (m == n) = false := by simpa using hmn
          have hne : ¬ n = m := fun e => hmn e.symm
          simp only [List.lookup_cons, hb]
          rw [htbl m]
          simp [hne]
      · intro y hy
        rcases List.mem_cons.mp hy with rfl | hy
        · exact Or.inr ⟨n, t.count n + 1, rfl, by omega⟩
        · rcases hused y hy with h0 | ⟨m, j, hmj, hlt⟩
          · exact Or.inl h0
          · refine Or.inr ⟨m, j, hmj, ?_⟩
            have : t.count m ≤ (n :: t).count m := by
              rw [List.count_cons]; omega
            omega
      · intro m hm hm1 k hk1 hk2
        have : t.count m ≤ (n :: t).count m := by
          rw [List.count_cons]; omega
        exact hcl m (List.mem_cons_of_mem _ hm) hm1 k hk1 (by omega)
    · simp only [ht, if_false] at hn
      rw [unamesLoop, unamesLoop_v0, hn]
      simp only
      apply ih
      · intro m
        rw [htbl m]
        by_cases hmn : m = n
        · subst hmn; simp [ht]
        · have hne : ¬ n = m := fun e => hmn e.symm
          simp [hne]
      · intro y hy
        rcases hused y hy with h0 | ⟨m, j, hmj, hlt⟩
        · exact Or.inl h0
        · refine Or.inr ⟨m, j, hmj, ?_⟩
          have : t.count m ≤ (n :: t).count m := by
            rw [List.count_cons]; omega
          omega
      · intro m hm hm1 k hk1 hk2
        have : t.count m ≤ (n :: t).count m := by
          rw [List.count_cons]; omega
        exact hcl m (List.mem_cons_of_mem _ hm) hm1 k hk1 (by omega)

/-- under `NoSuffixClash` the fix changes nothing -/
theorem uniqueNamesG_eq_v0 (hinj : ∀ a b k m, sfx a k = sfx b m → a = b ∧ k = m) (names : List ν)
    (h : NoSuffixClash sfx names) : uniqueNamesG sfx names = uniqueNamesG_v0 sfx names := by
  unfold uniqueNamesG uniqueNamesG_v0
  apply unamesLoop_eq_v0 sfx hinj (fun n => names.count n) (usedInit names)
  · intro n
    rw [lookup_nameCount]
    simp
  · intro y hy; exact Or.inl hy
  · intro n hn h1 k hk1 hk2 hmem
    have hn' : n ∈ names := by simpa using hn
    rw [List.count_reverse] at hk2
    have := h n hn' h1 k hk1 hk2
    simp only [usedInit, List.mem_filter, beq_iff_eq] at hmem
    exact this hmem.2

end agree
end Skc.Pipeline
