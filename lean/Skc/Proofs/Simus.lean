import Skc.Model.Simus
import Skc.Proofs.Num
import Skc.Proofs.RankFin
import Mathlib.Algebra.Order.BigOperators.Ring.Finset
import Std.Data.String.ToNat

set_option linter.unusedSectionVars false

/-! Helper lemmas for C09 (SIMUS): the constraint indexing of a stage, the reporting order of
`solve()`, and the mathematical reading (`Prop`s over `Finset` sums) of what the executable
certificate checker `Skc.Simus.certCheck` decides. -/
namespace Skc.Simus
open Finset

/-! ### `otherCrit`: the constraints of stage `z` are the other criteria, in increasing order -/
section other
variable {k : ℕ}

theorem otherCrit_val (z : Fin (k + 1)) (r : Fin k) :
    (otherCrit z r).val = if r.val < z.val then r.val else r.val + 1 := by
  unfold otherCrit; split <;> simp

theorem otherCrit_ne (z : Fin (k + 1)) (r : Fin k) : otherCrit z r ≠ z := by
  intro h
  have h' := congrArg Fin.val h
  rw [otherCrit_val] at h'
  split at h' <;> omega

theorem otherCrit_lt (z : Fin (k + 1)) {r r' : Fin k} (h : r < r') : otherCrit z r < otherCrit z r' := by
  rw [Fin.lt_def] at *
  simp only [otherCrit_val]
  split <;> split <;> omega

theorem otherCrit_injective (z : Fin (k + 1)) {r r' : Fin k} (h : otherCrit z r = otherCrit z r') : r = r' := by
  rcases lt_trichotomy r r' with h1 | h1 | h1
  · exact absurd h (ne_of_lt (otherCrit_lt z h1))
  · exact h1
  · exact absurd h.symm (ne_of_lt (otherCrit_lt z h1))

theorem otherCrit_exists (z c : Fin (k + 1)) (h : c ≠ z) : ∃ r, otherCrit z r = c := by
  have hv : c.val ≠ z.val := Fin.val_ne_of_ne h
  by_cases hc : c.val < z.val
  · refine ⟨⟨c.val, by omega⟩, ?_⟩
    apply Fin.ext; rw [otherCrit_val]; simp [hc]
  · refine ⟨⟨c.val - 1, by omega⟩, ?_⟩
    apply Fin.ext; rw [otherCrit_val]
    have : ¬ (c.val - 1 < z.val) := by omega
    simp only [this, if_false]; omega
end other

/-! ### reporting order -/

theorem mem_insertBy {β : Type} (le : β → β → Bool) (x y : β) (l : List β) :
    y ∈ insertBy le x l ↔ y = x ∨ y ∈ l := by
  induction l with
  | nil => simp [insertBy]
  | cons a t ih =>
    unfold insertBy
    split
    · simp
    · simp only [List.mem_cons, ih]; tauto

theorem mem_isort {β : Type} (le : β → β → Bool) (y : β) (l : List β) : y ∈ isort le l ↔ y ∈ l := by
  induction l with
  | nil => simp [isort]
  | cons a t ih => simp [isort, mem_insertBy, ih]

theorem mem_reportedOrder_v0 (n i : ℕ) : i ∈ reportedOrder_v0 n ↔ i < n := by
  unfold reportedOrder_v0
  simp only [List.mem_map, mem_isort, List.mem_range]
  constructor
  · rintro ⟨p, ⟨j, hj, rfl⟩, rfl⟩; exact hj
  · intro h; exact ⟨(digits i, i), ⟨i, h, rfl⟩, rfl⟩

/-- variable names are injective: `"x" ++ repr` -/
theorem varName_injective : Function.Injective varName := by
  intro i j h
  unfold varName at h
  exact Nat.repr_inj.mp ((String.append_right_inj "x").mp h)

theorem inOrder_of_subset (acc t : List String) (h : ∀ s ∈ t, s ∈ acc) : inOrder acc t = acc := by
  induction t generalizing acc with
  | nil => rfl
  | cons s t ih =>
    have hs : s ∈ acc := h s List.mem_cons_self
    simp only [inOrder, hs, if_true]
    exact ih acc fun s' hs' => h s' (List.mem_cons_of_mem _ hs')

theorem inOrder_nodup (acc l : List String) (h : (acc ++ l).Nodup) : inOrder acc l = acc ++ l := by
  induction l generalizing acc with
  | nil => simp [inOrder]
  | cons s t ih =>
    have hs : s ∉ acc := by
      intro hm
      have := List.nodup_append.mp h
      exact this.2.2 s hm s List.mem_cons_self rfl
    simp only [inOrder, hs, if_false]
    rw [ih (acc ++ [s]) (by simpa using h)]
    simp

theorem inOrder_append (acc l₁ l₂ : List String) : inOrder acc (l₁ ++ l₂) = inOrder (inOrder acc l₁) l₂ := by
  induction l₁ generalizing acc with
  | nil => rfl
  | cons s t ih => simp only [List.cons_append, inOrder]; exact ih _

theorem reportedNames_eq (m nCons : ℕ) : reportedNames m nCons = (List.range m).map varName := by
  unfold reportedNames visitedNames
  simp only
  rw [List.append_assoc, inOrder_append, inOrder_nodup [] _ (by
    simpa using (List.nodup_range (n := m)).map varName_injective)]
  simp only [List.nil_append]
  apply inOrder_of_subset
  intro s hs
  rcases List.mem_append.mp hs with hs | hs
  · obtain ⟨l, hl, hsl⟩ := List.mem_flatten.mp hs
    rw [(List.mem_replicate.mp hl).2] at hsl; exact hsl
  · obtain ⟨i, hi, rfl⟩ := List.mem_map.mp hs
    exact List.mem_map.mpr ⟨i, List.mem_range.mpr ((mem_reportedOrder_v0 m i).mp hi), rfl⟩

/-! ### the mathematical reading of the certificate conditions -/
section cert
variable {α : Type} [Field α] [LinearOrder α] [IsStrictOrderedRing α] {k m : ℕ}

/-- `x` satisfies the program exactly: `x ≥ 0` and every constraint -/
def LP.feasible (P : LP k m α) (x : Vec m α) : Prop :=
  (∀ i, 0 ≤ x i) ∧ ∀ r, match P.rel r with
    | .le => ∑ i, P.A r i * x i ≤ P.b r
    | .ge => P.b r ≤ ∑ i, P.A r i * x i

/-- `x` satisfies the program within `ε` -/
def LP.feasibleWithin (P : LP k m α) (x : Vec m α) (ε : α) : Prop :=
  (∀ i, -ε ≤ x i) ∧ ∀ r, match P.rel r with
    | .le => ∑ i, P.A r i * x i ≤ P.b r + ε
    | .ge => P.b r - ε ≤ ∑ i, P.A r i * x i

/-- multipliers with the sign that makes `Σ_r y_r (A_r · x) ≤ Σ_r y_r b_r` (maximise) resp. `≥`
(minimise) valid on feasible points -/
def LP.signCorrect (P : LP k m α) (y : Vec k α) : Prop :=
  ∀ r, match P.sense, P.rel r with
    | .max, .le => 0 ≤ y r
    | .max, .ge => y r ≤ 0
    | .min, .le => y r ≤ 0
    | .min, .ge => 0 ≤ y r

/-- dual feasibility within `ε` -/
def LP.dualFeasible (P : LP k m α) (y : Vec k α) (ε : α) : Prop :=
  P.signCorrect y ∧ ∀ j, match P.sense with
    | .max => P.c j ≤ ∑ r, y r * P.A r j + ε
    | .min => ∑ r, y r * P.A r j ≤ P.c j + ε

/-- objective value `c · x` -/
def LP.value (P : LP k m α) (x : Vec m α) : α := ∑ i, P.c i * x i

/-- dual objective value `y · b` -/
def LP.bound (P : LP k m α) (y : Vec k α) : α := ∑ r, y r * P.b r

theorem dot_eq (u v : Vec m α) : dot u v = ∑ i, u i * v i := by unfold dot; rw [sumFin_eq_sum]

theorem primalOK_iff (P : LP k m α) (x : Vec m α) (ε : α) : primalOK P x ε = true ↔ P.feasibleWithin x ε := by
  unfold primalOK LP.feasibleWithin
  rw [Bool.and_eq_true, allFin_iff, allFin_iff]
  apply and_congr
  · apply forall_congr'; intro i; rw [decide_eq_true_iff]; constructor <;> intro h <;> linarith
  · apply forall_congr'; intro r
    unfold rowOK
    cases h : P.rel r <;> simp only [decide_eq_true_iff, dot_eq]
    constructor <;> intro h' <;> linarith

theorem dualOK_iff (P : LP k m α) (y : Vec k α) (ε : α) : dualOK P y ε = true ↔ P.dualFeasible y ε := by
  unfold dualOK LP.dualFeasible LP.signCorrect
  rw [Bool.and_eq_true, allFin_iff, allFin_iff]
  apply and_congr
  · apply forall_congr'; intro r
    unfold signOK
    cases P.sense <;> cases P.rel r <;> simp only [decide_eq_true_iff]
  · apply forall_congr'; intro j
    unfold colOK yA
    cases P.sense <;> simp only [decide_eq_true_iff, sumFin_eq_sum]

theorem gapOK_iff (P : LP k m α) (x : Vec m α) (y : Vec k α) (δ : α) :
    gapOK P x y δ = true ↔ |P.value x - P.bound y| ≤ δ := by
  unfold gapOK LP.value LP.bound
  rw [Bool.and_eq_true, decide_eq_true_iff, decide_eq_true_iff, dot_eq, dot_eq, abs_le]
  constructor <;> rintro ⟨h1, h2⟩ <;> constructor <;> linarith

/-- exchange of the two summations: `Σ_j (Σ_r y_r A_rj) x_j = Σ_r y_r (Σ_j A_rj x_j)` -/
theorem sum_yA_mul (A : Mat k m α) (y : Vec k α) (x : Vec m α) :
    ∑ j, (∑ r, y r * A r j) * x j = ∑ r, y r * ∑ j, A r j * x j := by
  simp only [sum_mul, mul_sum]
  rw [sum_comm]
  apply sum_congr rfl; intro r _; apply sum_congr rfl; intro j _; ring

/-- a feasible point evaluated under sign-correct multipliers: maximise stage -/
theorem rows_le_bound (P : LP k m α) (hs : P.sense = .max) (x : Vec m α) (y : Vec k α)
    (hx : P.feasible x) (hy : P.signCorrect y) : ∑ r, y r * ∑ j, P.A r j * x j ≤ P.bound y := by
  unfold LP.bound
  apply sum_le_sum; intro r _
  have h1 := hy r; have h2 := hx.2 r
  rw [hs] at h1
  cases hr : P.rel r <;> simp only [hr] at h1 h2
  · exact mul_le_mul_of_nonneg_left h2 h1
  · exact mul_le_mul_of_nonpos_left h2 h1

/-- … minimise stage -/
theorem bound_le_rows (P : LP k m α) (hs : P.sense = .min) (x : Vec m α) (y : Vec k α)
    (hx : P.feasible x) (hy : P.signCorrect y) : P.bound y ≤ ∑ r, y r * ∑ j, P.A r j * x j := by
  unfold LP.bound
  apply sum_le_sum; intro r _
  have h1 := hy r; have h2 := hx.2 r
  rw [hs] at h1
  cases hr : P.rel r <;> simp only [hr] at h1 h2
  · exact mul_le_mul_of_nonpos_left h2 h1
  · exact mul_le_mul_of_nonneg_left h2 h1

/-- weak duality with a dual-feasibility tolerance, maximise stage -/
theorem value_le_bound (P : LP k m α) (hs : P.sense = .max) (x : Vec m α) (y : Vec k α) (ε : α)
    (hx : P.feasible x) (hy : P.dualFeasible y ε) : P.value x ≤ P.bound y + ε * ∑ j, x j := by
  have hcol : ∀ j, P.c j ≤ ∑ r, y r * P.A r j + ε := by
    intro j; have := hy.2 j; rw [hs] at this; exact this
  calc P.value x = ∑ j, P.c j * x j := rfl
    _ ≤ ∑ j, (∑ r, y r * P.A r j + ε) * x j :=
        sum_le_sum fun j _ => mul_le_mul_of_nonneg_right (hcol j) (hx.1 j)
    _ = ∑ r, y r * ∑ j, P.A r j * x j + ε * ∑ j, x j := by
        simp only [add_mul, sum_add_distrib]; rw [sum_yA_mul, mul_sum]
    _ ≤ P.bound y + ε * ∑ j, x j := by
        have := rows_le_bound P hs x y hx hy.1; linarith

/-- weak duality with a dual-feasibility tolerance, minimise stage -/
theorem bound_le_value (P : LP k m α) (hs : P.sense = .min) (x : Vec m α) (y : Vec k α) (ε : α)
    (hx : P.feasible x) (hy : P.dualFeasible y ε) : P.bound y - ε * ∑ j, x j ≤ P.value x := by
  have hcol : ∀ j, ∑ r, y r * P.A r j - ε ≤ P.c j := by
    intro j; have := hy.2 j; rw [hs] at this; simp only at this; linarith
  have h1 : ∑ j, (∑ r, y r * P.A r j - ε) * x j ≤ P.value x :=
    sum_le_sum fun j _ => mul_le_mul_of_nonneg_right (hcol j) (hx.1 j)
  have h2 : ∑ j, (∑ r, y r * P.A r j - ε) * x j = ∑ r, y r * ∑ j, P.A r j * x j - ε * ∑ j, x j := by
    simp only [sub_mul, sum_sub_distrib]; rw [sum_yA_mul, mul_sum]
  have h3 := bound_le_rows P hs x y hx hy.1
  linarith

/-- a `≤` row with coefficients `≥ μ > 0` bounds the total `Σ_j x_j` of every feasible point -/
theorem sum_le_of_row (P : LP k m α) (x : Vec m α) (hx : P.feasible x) (r₀ : Fin k) (hr : P.rel r₀ = .le)
    (μ : α) (hμ : 0 < μ) (hA : ∀ j, μ ≤ P.A r₀ j) : ∑ j, x j ≤ P.b r₀ / μ := by
  have h := hx.2 r₀
  simp only [hr] at h
  rw [le_div_iff₀ hμ, sum_mul]
  refine le_trans (sum_le_sum fun j _ => ?_) h
  rw [mul_comm]; exact mul_le_mul_of_nonneg_right (hA j) (hx.1 j)
end cert

end Skc.Simus
