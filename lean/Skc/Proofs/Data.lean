import Skc.Model.Data
import Mathlib.Data.List.Basic
import Mathlib.Data.List.Nodup
import Mathlib.Data.List.Range
import Mathlib.Tactic.Linarith
/-! Helper lemmas for C01 (`Skc/Props/C01.lean`): positional `gather`, look-up by label, the frame
selection, selector resolution. -/
namespace Skc.Data

/-! ### `mapM` in `Option` -/

theorem mapM_some {β γ} (f : β → Option γ) : ∀ (l : List β) (r : List γ), l.mapM f = some r →
    r.length = l.length ∧ ∀ k (h : k < l.length) (h' : k < r.length), f l[k] = some r[k] := by
  intro l
  induction l with
  | nil => intro r h; simp at h; subst h; simp
  | cons a t ih =>
    intro r h
    simp only [List.mapM_cons] at h
    cases ha : f a with
    | none => simp [ha] at h
    | some b =>
      cases ht : t.mapM f with
      | none => simp [ha, ht] at h
      | some r' =>
        simp [ha, ht] at h; subst h
        obtain ⟨hl, hk⟩ := ih r' ht
        refine ⟨by simp [hl], ?_⟩
        intro k h1 h2
        cases k with
        | zero => simpa using ha
        | succ k => simpa using hk k (by simpa using h1) (by simpa using h2)

theorem mapM_map_some {β γ} (f : β → Option γ) (l : List β) (r : List γ) (h : l.mapM f = some r) :
    l.map f = r.map some := by
  obtain ⟨hl, hk⟩ := mapM_some f l r h
  apply List.ext_getElem (by simp [hl])
  intro k h1 h2
  simp only [List.getElem_map]
  exact hk k (by simpa using h1) (by simpa using h2)

theorem mapM_none_of_mem {β γ} (f : β → Option γ) (l : List β) (x : β) (hx : x ∈ l) (hf : f x = none) :
    l.mapM f = none := by
  induction l with
  | nil => cases hx
  | cons a t ih =>
    simp only [List.mapM_cons]
    rcases List.mem_cons.mp hx with rfl | hx'
    · simp [hf]
    · cases f a <;> simp [ih hx']

theorem mapM_isSome_of_forall {β γ} (f : β → Option γ) (l : List β) (h : ∀ x ∈ l, (f x).isSome) :
    ∃ r, l.mapM f = some r := by
  induction l with
  | nil => exact ⟨[], by simp⟩
  | cons a t ih =>
    obtain ⟨r, hr⟩ := ih (fun x hx => h x (List.mem_cons_of_mem _ hx))
    obtain ⟨b, hb⟩ := Option.isSome_iff_exists.mp (h a (List.mem_cons_self ..))
    exact ⟨b :: r, by simp [List.mapM_cons, hb, hr]⟩

/-! ### `gather` -/

section gather
variable {β : Type _}

theorem gather_nil (l : List β) : gather l [] = [] := rfl

theorem gather_cons_of_lt (l : List β) (p : Nat) (ps : List Nat) (h : p < l.length) :
    gather l (p :: ps) = l[p] :: gather l ps := by
  simp [gather, List.getElem?_eq_getElem h]

theorem gather_length (l : List β) (ps : List Nat) (h : ∀ p ∈ ps, p < l.length) :
    (gather l ps).length = ps.length := by
  induction ps with
  | nil => rfl
  | cons p ps ih =>
    rw [gather_cons_of_lt l p ps (h p (List.mem_cons_self ..))]
    simp [ih (fun q hq => h q (List.mem_cons_of_mem _ hq))]

theorem gather_getElem? (l : List β) (ps : List Nat) (h : ∀ p ∈ ps, p < l.length) (k : Nat) :
    (gather l ps)[k]? = (ps[k]?).bind (l[·]?) := by
  induction ps generalizing k with
  | nil => simp [gather]
  | cons p ps ih =>
    rw [gather_cons_of_lt l p ps (h p (List.mem_cons_self ..))]
    cases k with
    | zero => simp [List.getElem?_eq_getElem (h p (List.mem_cons_self ..))]
    | succ k => simpa using ih (fun q hq => h q (List.mem_cons_of_mem _ hq)) k

theorem gather_getElem (l : List β) (ps : List Nat) (h : ∀ p ∈ ps, p < l.length) (k : Nat)
    (hk : k < ps.length) (hk' : k < (gather l ps).length) :
    (gather l ps)[k] = l[ps[k]]'(h _ (List.getElem_mem hk)) := by
  have := gather_getElem? l ps h k
  rw [List.getElem?_eq_getElem hk', List.getElem?_eq_getElem hk] at this
  simp only [Option.bind_some] at this
  rw [List.getElem?_eq_getElem (h _ (List.getElem_mem hk))] at this
  exact Option.some.inj this

theorem mem_gather {l : List β} {ps : List Nat} {x : β} (hx : x ∈ gather l ps) : x ∈ l := by
  unfold gather at hx
  obtain ⟨p, _, hp⟩ := List.mem_filterMap.mp hx
  exact List.mem_of_getElem? hp

theorem mem_gather_iff {l : List β} {ps : List Nat} {x : β} :
    x ∈ gather l ps ↔ ∃ p ∈ ps, l[p]? = some x := by
  unfold gather; exact List.mem_filterMap

theorem gather_nodup (l : List β) (ps : List Nat) (hl : l.Nodup) (hp : ps.Nodup) : (gather l ps).Nodup := by
  unfold gather
  refine List.Nodup.filterMap ?_ hp
  intro p p' b h1 h2
  have h1 : l[p]? = some b := h1
  have h2 : l[p']? = some b := h2
  obtain ⟨hp1, e1⟩ := List.getElem?_eq_some_iff.mp h1
  obtain ⟨hp2, e2⟩ := List.getElem?_eq_some_iff.mp h2
  exact (List.Nodup.getElem_inj_iff hl).mp (e1.trans e2.symm)

theorem gather_range (l : List β) : gather l (List.range l.length) = l := by
  apply List.ext_getElem?
  intro k
  rw [gather_getElem? l _ (fun p hp => List.mem_range.mp hp)]
  by_cases hk : k < l.length
  · simp [List.getElem?_range hk]
  · have h1 : (List.range l.length)[k]? = none := by simp; omega
    have h2 : l[k]? = none := by simp; omega
    simp [h1, h2]

theorem gather_map {γ} (g : β → γ) (l : List β) (ps : List Nat) : gather (l.map g) ps = (gather l ps).map g := by
  unfold gather
  rw [List.map_filterMap]
  congr 1
  funext p
  simp

theorem gather_singleton (l : List β) (p : Nat) (h : p < l.length) : gather l [p] = [l[p]] := by
  rw [gather_cons_of_lt l p [] h]; rfl

end gather

/-! ### look-up by label -/

section lookup
variable {β : Type _}

theorem lookup_of_mem {keys : List String} {vals : List β} {k : String} (h : k ∈ keys) :
    lookup keys vals k = vals[keys.idxOf k]? := by simp [lookup, h]

theorem lookup_of_not_mem {keys : List String} {vals : List β} {k : String} (h : k ∉ keys) :
    lookup keys vals k = none := by simp [lookup, h]

theorem lookup_isSome {keys : List String} {vals : List β} {k : String} (h : k ∈ keys)
    (hl : vals.length = keys.length) : (lookup keys vals k).isSome := by
  rw [lookup_of_mem h]
  have : keys.idxOf k < vals.length := by rw [hl]; exact List.idxOf_lt_length_iff.mpr h
  simp [this]

theorem lookup_map {γ} (g : β → γ) (keys : List String) (vals : List β) (k : String) :
    lookup keys (vals.map g) k = (lookup keys vals k).map g := by
  unfold lookup; split <;> simp

/-- the look-up at the `k`-th key of a duplicate-free key list is the `k`-th value -/
theorem lookup_getElem (keys : List String) (vals : List β) (hn : keys.Nodup) (k : Nat) (hk : k < keys.length) :
    lookup keys vals keys[k] = vals[k]? := by
  rw [lookup_of_mem (List.getElem_mem hk), List.Nodup.idxOf_getElem hn]

/-- **alignment under positional selection**: selecting the same positions from the labels and from a
parallel container keeps every surviving label's own value -/
theorem lookup_gather (keys : List String) (vals : List β) (ps : List Nat) (hn : keys.Nodup)
    (hps : ps.Nodup) (hr : ∀ p ∈ ps, p < keys.length) (hl : vals.length = keys.length)
    (x : String) (hx : x ∈ gather keys ps) :
    lookup (gather keys ps) (gather vals ps) x = lookup keys vals x := by
  obtain ⟨k, hk, rfl⟩ := List.getElem_of_mem hx
  have hkp : k < ps.length := by rwa [gather_length keys ps hr] at hk
  rw [lookup_getElem _ _ (gather_nodup keys ps hn hps) k hk]
  rw [gather_getElem keys ps hr k hkp hk]
  rw [lookup_getElem keys vals hn _ (hr _ (List.getElem_mem hkp))]
  rw [gather_getElem? vals ps (fun p hp => by rw [hl]; exact hr p hp) k, List.getElem?_eq_getElem hkp]
  rfl

/-- **alignment under re-attachment by label** (`series.loc[df.columns]`) -/
theorem lookup_mapM (keys : List String) (vals : List β) (cols : List String) (o : List β)
    (hn : cols.Nodup) (h : cols.mapM (lookup keys vals) = some o) (x : String) (hx : x ∈ cols) :
    lookup cols o x = lookup keys vals x := by
  obtain ⟨hlen, hk⟩ := mapM_some _ _ _ h
  obtain ⟨k, hkc, rfl⟩ := List.getElem_of_mem hx
  have hko : k < o.length := by omega
  rw [lookup_getElem cols o hn k hkc, List.getElem?_eq_getElem hko]
  exact (hk k hkc hko).symm

end lookup

/-! ### the frame selection and the re-attachment -/

section frame
variable {α : Type}

theorem DM.init_ok {f : Frame α} {o : List Obj} {w : List α} {d' : DM α} (h : DM.init f o w = .ok d') :
    d' = { alts := f.index, crits := f.columns, objs := o, wts := w, dts := f.dtypes, cells := f.rows } ∧
    f.columns.length = w.length ∧ w.length = o.length := by
  unfold DM.init at h
  split at h
  · rename_i hc
    cases h
    exact ⟨rfl, hc.1, hc.2⟩
  · cases h

theorem attach_ok {d : DM α} {f : Frame α} {d' : DM α} (h : attach d f = .ok d') :
    ∃ o w, f.columns.mapM (objOf d) = some o ∧ f.columns.mapM (wtOf d) = some w ∧
      d' = { alts := f.index, crits := f.columns, objs := o, wts := w, dts := f.dtypes, cells := f.rows } := by
  unfold attach at h
  split at h
  · rename_i o w ho hw
    exact ⟨o, w, ho, hw, (DM.init_ok h).1⟩
  · cases h

/-- a frame cut out of `d` at row positions `rs` and column positions `cs`, whose dtypes are (by
label) those of `d` -/
structure CutOf (d : DM α) (rs cs : List Nat) (f : Frame α) : Prop where
  index : f.index = gather d.alts rs
  columns : f.columns = gather d.crits cs
  rows : f.rows = (gather d.cells rs).map (gather · cs)
  dtlen : f.dtypes.length = f.columns.length
  dts : ∀ c ∈ f.columns, lookup f.columns f.dtypes c = dtOf d c

/-- **core of C01**: cut any duplicate-free rows / columns out of a well-formed matrix, re-attach
objectives and weights by label: the result is a sub-view in the requested order -/
theorem attach_subview {d : DM α} (hw : d.WF) {rs cs : List Nat} (hrs : rs.Nodup) (hcs : cs.Nodup)
    (hrr : ∀ p ∈ rs, p < d.alts.length) (hcr : ∀ p ∈ cs, p < d.crits.length)
    {f : Frame α} (hf : CutOf d rs cs f) {d' : DM α} (h : attach d f = .ok d') :
    SubView d' d ∧ d'.alts = gather d.alts rs ∧ d'.crits = gather d.crits cs := by
  obtain ⟨hcn, han, hol, hwl, hdl, hcl, hrl⟩ := hw
  obtain ⟨o, w, ho, hwt, rfl⟩ := attach_ok h
  obtain ⟨hi, hc, hr, hdtl, hdts⟩ := hf
  have hcn' : f.columns.Nodup := by rw [hc]; exact gather_nodup _ _ hcn hcs
  have han' : f.index.Nodup := by rw [hi]; exact gather_nodup _ _ han hrs
  have holen := (mapM_some _ _ _ ho).1
  have hwlen := (mapM_some _ _ _ hwt).1
  have hrr' : ∀ p ∈ rs, p < d.cells.length := fun p hp => by rw [hcl]; exact hrr p hp
  refine ⟨⟨⟨hcn', han', holen, hwlen, hdtl, ?_, ?_⟩, ?_, ?_, ?_⟩, hi, hc⟩
  · -- one row per alternative
    show f.rows.length = f.index.length
    rw [hr, hi, List.length_map, gather_length _ _ hrr', gather_length _ _ hrr]
  · -- one cell per criterion
    intro r hr'
    show r.length = f.columns.length
    rw [hr] at hr'
    obtain ⟨r0, hr0, rfl⟩ := List.mem_map.mp hr'
    have hr0len := hrl r0 (mem_gather hr0)
    rw [hc, gather_length _ _ (fun p hp => by rw [hr0len]; exact hcr p hp), gather_length _ _ hcr]
  · intro a ha; exact mem_gather (by simpa [hi] using ha)
  · intro c hc'; exact mem_gather (by simpa [hc] using hc')
  · intro c hc'
    have hc' : c ∈ f.columns := hc'
    refine ⟨lookup_mapM _ _ _ _ hcn' ho c hc', lookup_mapM _ _ _ _ hcn' hwt c hc', hdts c hc', ?_⟩
    intro a ha
    have ha : a ∈ f.index := ha
    show (lookup f.index f.rows a).bind (fun r => lookup f.columns r c) =
      (lookup d.alts d.cells a).bind (fun r => lookup d.crits r c)
    have e1 : lookup f.index f.rows a = (lookup d.alts d.cells a).map (gather · cs) := by
      rw [hr, lookup_map, hi, lookup_gather d.alts d.cells rs han hrs hrr hcl a (by rwa [hi] at ha)]
    rw [e1]
    cases hrow : lookup d.alts d.cells a with
    | none => rfl
    | some r =>
      have hmem : a ∈ d.alts := mem_gather (by rwa [hi] at ha)
      rw [lookup_of_mem hmem] at hrow
      have hrlen := hrl r (List.mem_of_getElem? hrow)
      simp only [Option.map_some, Option.bind_some]
      rw [hc]
      exact lookup_gather d.crits r cs hcn hcs hcr hrlen c (by rwa [hc] at hc')

/-- the plain selection is a cut -/
theorem cutOf_take (d : DM α) (hw : d.WF) (rs cs : List Nat) (hcs : cs.Nodup)
    (hcr : ∀ p ∈ cs, p < d.crits.length) : CutOf d rs cs (d.frame.take rs cs) := by
  obtain ⟨hcn, _, _, _, hdl, _, _⟩ := hw
  refine ⟨rfl, rfl, rfl, ?_, ?_⟩
  · show (gather d.dts cs).length = (gather d.crits cs).length
    rw [gather_length _ _ (fun p hp => by rw [hdl]; exact hcr p hp), gather_length _ _ hcr]
  · intro c hc
    exact lookup_gather d.crits d.dts cs hcn hcs hcr hdl c hc

theorem restore_length (d : DM α) (cols : List String) (cur : List DType) (h : cur.length = cols.length) :
    (restore d cols cur).length = cols.length := by
  simp [restore, h]

/-- after `astype`, a column whose label is a criterion of the source has that criterion's dtype -/
theorem lookup_restore (d : DM α) (hw : d.WF) (cols : List String) (cur : List DType)
    (hn : cols.Nodup) (hl : cur.length = cols.length) (hsub : ∀ c ∈ cols, c ∈ d.crits)
    (c : String) (hc : c ∈ cols) : lookup cols (restore d cols cur) c = dtOf d c := by
  obtain ⟨k, hk, rfl⟩ := List.getElem_of_mem hc
  rw [lookup_getElem cols _ hn k hk]
  have hk' : k < cur.length := by omega
  have hsome := lookup_isSome (vals := d.dts) (hsub _ (List.getElem_mem hk)) hw.2.2.2.2.1
  obtain ⟨t, ht⟩ := Option.isSome_iff_exists.mp hsome
  unfold restore
  rw [List.getElem?_zipWith]
  simp only [List.getElem?_eq_getElem hk, List.getElem?_eq_getElem hk']
  show some ((dtOf d cols[k]).getD cur[k]) = dtOf d cols[k]
  unfold dtOf
  rw [ht]; rfl

/-- replacing the dtypes of a cut by the restored ones is still a cut (`to_frame` + `astype`) -/
theorem cutOf_restore (d : DM α) (hw : d.WF) (rs cs : List Nat) (hcs : cs.Nodup)
    (hcr : ∀ p ∈ cs, p < d.crits.length) (up : List DType → List DType) (hup : ∀ ts, (up ts).length = ts.length) :
    CutOf d rs cs { d.frame.take rs cs with
      dtypes := restore d (d.frame.take rs cs).columns (up (d.frame.take rs cs).dtypes) } := by
  have base := cutOf_take d hw rs cs hcs hcr
  have hl : (up (d.frame.take rs cs).dtypes).length = (d.frame.take rs cs).columns.length := by
    rw [hup]; exact base.dtlen
  refine ⟨rfl, rfl, rfl, restore_length _ _ _ hl, ?_⟩
  intro c hc
  have hn : (d.frame.take rs cs).columns.Nodup := by
    show (gather d.crits cs).Nodup
    exact gather_nodup _ _ hw.1 hcs
  exact lookup_restore d hw _ _ hn hl (fun c hc => mem_gather (l := d.crits) (ps := cs) hc) c hc

theorem upcast_length (ts : List DType) : (upcast ts).length = ts.length := by
  unfold upcast; split <;> simp

end frame

/-! ### selectors → positions -/

section resolve

theorem maskPos_bounds : ∀ (bs : List Bool) (i : Nat), ∀ p ∈ maskPos bs i, i ≤ p ∧ p < i + bs.length := by
  intro bs
  induction bs with
  | nil => intro i p hp; simp [maskPos] at hp
  | cons b bs ih =>
    intro i p hp
    unfold maskPos at hp
    split at hp
    · rcases List.mem_cons.mp hp with rfl | hp
      · simp
      · have := ih (i + 1) p hp; simp only [List.length_cons]; omega
    · have := ih (i + 1) p hp; simp only [List.length_cons]; omega

theorem maskPos_nodup : ∀ (bs : List Bool) (i : Nat), (maskPos bs i).Nodup := by
  intro bs
  induction bs with
  | nil => intro i; simp [maskPos]
  | cons b bs ih =>
    intro i
    unfold maskPos
    split
    · refine List.nodup_cons.mpr ⟨?_, ih (i + 1)⟩
      intro h
      have := (maskPos_bounds bs (i + 1) i h).1
      omega
    · exact ih (i + 1)

theorem keepMask_nil_right {β} (l : List β) : keepMask l [] = [] := by cases l <;> rfl

theorem gather_maskPos_aux {β} : ∀ (bs : List Bool) (pre l : List β), l.length = bs.length →
    gather (pre ++ l) (maskPos bs pre.length) = keepMask l bs := by
  intro bs
  induction bs with
  | nil => intro pre l _; simp [maskPos, gather, keepMask_nil_right]
  | cons b bs ih =>
    intro pre l hl
    cases l with
    | nil => simp at hl
    | cons x xs =>
      have hxs : xs.length = bs.length := by simpa using hl
      have e : pre ++ x :: xs = (pre ++ [x]) ++ xs := by simp
      have hlen : (pre ++ [x]).length = pre.length + 1 := by simp
      have ih' := ih (pre ++ [x]) xs hxs
      rw [hlen, ← e] at ih'
      unfold maskPos keepMask
      cases b with
      | true =>
        simp only [if_true]
        rw [gather_cons_of_lt _ _ _ (by simp), ih']
        simp
      | false =>
        simpa using ih'

theorem gather_maskPos {β} (l : List β) (bs : List Bool) (h : bs.length = l.length) :
    gather l (maskPos bs 0) = keepMask l bs := by
  simpa using gather_maskPos_aux bs [] l h.symm

theorem interval_lt {n lo hi p : Nat} (h : p ∈ interval n lo hi) : p < n := by
  unfold interval at h
  exact List.mem_range.mp (List.mem_filter.mp h).1

theorem interval_nodup (n lo hi : Nat) : (interval n lo hi).Nodup :=
  List.Nodup.filter _ List.nodup_range

theorem pySlice_lt {n : Nat} {a b : Option Int} {k : Int} {p : Nat} (h : p ∈ pySlice n a b k) : p < n := by
  unfold pySlice at h
  split at h
  · exact List.mem_range.mp (List.mem_filter.mp h).1
  · exact List.mem_range.mp (List.mem_filter.mp (List.mem_reverse.mp h)).1

theorem pySlice_nodup (n : Nat) (a b : Option Int) (k : Int) : (pySlice n a b k).Nodup := by
  unfold pySlice
  split
  · exact List.Nodup.filter _ List.nodup_range
  · exact List.nodup_reverse.mpr (List.Nodup.filter _ List.nodup_range)

theorem normIdx_lt {n : Nat} {i : Int} {p : Nat} (h : normIdx n i = some p) : p < n := by
  unfold normIdx at h
  split at h <;> split at h
  · injection h with h; omega
  · cases h
  · injection h with h; omega
  · cases h

theorem gather_idxOf (labels ls : List String) (h : ∀ l ∈ ls, l ∈ labels) :
    gather labels (ls.map (labels.idxOf ·)) = ls := by
  unfold gather
  rw [List.filterMap_map]
  have : ∀ l ∈ ls, ((fun p => labels[p]?) ∘ fun x => labels.idxOf x) l = some l := by
    intro l hl
    have hlt : labels.idxOf l < labels.length := List.idxOf_lt_length_iff.mpr (h l hl)
    simp [List.getElem?_eq_getElem hlt]
  rw [List.filterMap_congr this]
  simp

theorem idxOf_map_nodup (labels ls : List String) (h : ∀ l ∈ ls, l ∈ labels) (hn : ls.Nodup) :
    (ls.map (labels.idxOf ·)).Nodup := by
  refine List.Nodup.map_on ?_ hn
  intro x hx y hy hxy
  have hx' : labels.idxOf x < labels.length := List.idxOf_lt_length_iff.mpr (h x hx)
  have hy' : labels.idxOf y < labels.length := List.idxOf_lt_length_iff.mpr (h y hy)
  have e1 : labels[labels.idxOf x] = x := List.getElem_idxOf hx'
  have e2 : labels[labels.idxOf y] = y := List.getElem_idxOf hy'
  rw [← e1, ← e2]
  simp [hxy]

/-- what a label selector resolves to: positions in range, in the requested order; duplicate-free
when no label is named twice -/
theorem LSel.resolve_spec (labels : List String) (s : LSel) (ps : List Nat)
    (h : s.resolve labels = .ok ps) :
    (∀ p ∈ ps, p < labels.length) ∧ gather labels ps = s.requested labels ∧ (s.Distinct → ps.Nodup) := by
  cases s with
  | one l =>
    simp only [LSel.resolve] at h
    split at h
    · rename_i hl
      cases h
      have hlt : labels.idxOf l < labels.length := List.idxOf_lt_length_iff.mpr hl
      refine ⟨by simpa using hlt, ?_, fun _ => by simp⟩
      rw [gather_singleton _ _ hlt]
      simp [LSel.requested, List.getElem_idxOf hlt]
    · cases h
  | many ls =>
    simp only [LSel.resolve] at h
    split at h
    · rename_i hall
      cases h
      have hmem : ∀ l ∈ ls, l ∈ labels := by
        intro l hl
        have := List.all_eq_true.mp hall l hl
        simpa using this
      refine ⟨?_, gather_idxOf labels ls hmem, fun hd => idxOf_map_nodup labels ls hmem hd⟩
      intro p hp
      obtain ⟨l, hl, rfl⟩ := List.mem_map.mp hp
      exact List.idxOf_lt_length_iff.mpr (hmem l hl)
    · cases h
  | slice a b =>
    simp only [LSel.resolve] at h
    have hreq : LSel.requested labels (.slice a b) = gather labels ps := by simp [LSel.requested, h]
    refine ⟨?_, hreq.symm, fun _ => ?_⟩
    all_goals
      unfold labelSlice at h
      split at h
      · cases h
      · split at h
        · cases h
        · cases h
          first
            | exact fun p hp => interval_lt hp
            | exact interval_nodup _ _ _
  | mask bs =>
    cases bs with
    | nil =>
      simp only [LSel.resolve] at h
      cases h
      exact ⟨by simp, by simp [LSel.requested, gather, keepMask_nil_right], fun _ => List.nodup_nil⟩
    | cons b bs =>
      simp only [LSel.resolve] at h
      split at h
      · rename_i hlen
        cases h
        refine ⟨?_, gather_maskPos labels (b :: bs) hlen, fun _ => maskPos_nodup _ _⟩
        intro p hp
        have := (maskPos_bounds (b :: bs) 0 p hp).2
        omega
      · cases h
  | all =>
    simp only [LSel.resolve] at h
    cases h
    exact ⟨fun p hp => List.mem_range.mp hp, gather_range labels, fun _ => List.nodup_range⟩

theorem ISel.resolve_spec (labels : List String) (s : ISel) (ps : List Nat)
    (h : s.resolve labels.length = .ok ps) :
    (∀ p ∈ ps, p < labels.length) ∧ gather labels ps = s.requested labels ∧
      (s.Distinct labels.length → ps.Nodup) := by
  cases s with
  | one i =>
    simp only [ISel.resolve] at h
    split at h
    · rename_i p hp
      cases h
      refine ⟨by simpa using normIdx_lt hp, ?_, fun _ => by simp⟩
      simp [ISel.requested, hp, gather]
    · cases h
  | many is =>
    simp only [ISel.resolve] at h
    split at h
    · rename_i qs hq
      cases h
      have hmap := mapM_map_some _ _ _ hq
      refine ⟨?_, ?_, ?_⟩
      · intro p hp
        have : some p ∈ is.map (normIdx labels.length) := by rw [hmap]; exact List.mem_map.mpr ⟨p, hp, rfl⟩
        obtain ⟨i, _, hi⟩ := List.mem_map.mp this
        exact normIdx_lt hi
      · show gather labels ps = is.filterMap fun i => (normIdx labels.length i).bind (labels[·]?)
        have : (is.filterMap fun i => (normIdx labels.length i).bind (labels[·]?)) =
            (is.map (normIdx labels.length)).filterMap (fun o => o.bind (labels[·]?)) := by
          rw [List.filterMap_map]; rfl
        rw [this, hmap, List.filterMap_map]
        rfl
      · intro hd
        have hd : (is.map (normIdx labels.length)).Nodup := hd
        rw [hmap] at hd
        exact List.Nodup.of_map _ hd
    · cases h
  | slice a b step =>
    simp only [ISel.resolve] at h
    split at h
    · cases h
    · cases h
      exact ⟨fun p hp => pySlice_lt hp, rfl, fun _ => pySlice_nodup _ _ _ _⟩
  | mask bs =>
    cases bs with
    | nil =>
      simp only [ISel.resolve] at h
      cases h
      exact ⟨by simp, by simp [ISel.requested, gather, keepMask_nil_right], fun _ => List.nodup_nil⟩
    | cons b bs =>
      simp only [ISel.resolve] at h
      split at h
      · rename_i hlen
        cases h
        refine ⟨?_, gather_maskPos labels (b :: bs) hlen, fun _ => maskPos_nodup _ _⟩
        intro p hp
        have := (maskPos_bounds (b :: bs) 0 p hp).2
        omega
      · cases h
  | all =>
    simp only [ISel.resolve] at h
    cases h
    exact ⟨fun p hp => List.mem_range.mp hp, gather_range labels, fun _ => List.nodup_range⟩

end resolve

/-! ### the tails of `getitem` / `loc` / `iloc`, `mkdm ∘ toDict` -/

section ops
variable {α : Type}

theorem finish_subview [Truncate α] {d : DM α} (hw : d.WF) {rowOne colOne : Bool} {rs cs : List Nat}
    (hrs : rs.Nodup) (hcs : cs.Nodup) (hrr : ∀ p ∈ rs, p < d.alts.length) (hcr : ∀ p ∈ cs, p < d.crits.length)
    {d' : DM α} (h : finish attach false d rowOne colOne rs cs = .ok d') :
    SubView d' d ∧ d'.alts = gather d.alts rs ∧ d'.crits = gather d.crits cs := by
  unfold finish at h
  split at h
  · cases h
  · split at h
    · exact attach_subview hw hrs hcs hrr hcr (cutOf_restore d hw rs cs hcs hcr upcast upcast_length) h
    · split at h
      · exact attach_subview hw hrs hcs hrr hcr (cutOf_take d hw rs cs hcs hcr) h
      · exact attach_subview hw hrs hcs hrr hcr (cutOf_take d hw rs cs hcs hcr) h

theorem mapM_ofInt_toInt (os : List Obj) : (os.map Obj.toInt).mapM Obj.ofInt? = some os := by
  induction os with
  | nil => rfl
  | cons o os ih =>
    simp only [List.map_cons, List.mapM_cons, ih]
    cases o <;> rfl

/-- `mkdm(**dm.to_dict())` rebuilds exactly the same matrix (all six parts, positionally) -/
theorem mkdm_toDict (d : DM α) (hw : d.WF) : mkdm (toDict d) = .ok d := by
  obtain ⟨_, _, hol, hwl, hdl, hcl, hrl⟩ := hw
  have h1 : (d.cells.all (·.length == d.crits.length)) = true := by
    rw [List.all_eq_true]; intro r hr; simpa using hrl r hr
  unfold mkdm toDict
  simp only [h1, not_true_eq_false, if_false, hcl, hdl, ne_eq, mapM_ofInt_toInt]
  simp [DM.init, hwl, hol]

end ops

end Skc.Data
