import Skc.Model.Weighters
import Skc.Proofs.Agg
import Mathlib.Analysis.SpecialFunctions.Log.NegMulLog
import Mathlib.Analysis.Convex.Jensen
import Mathlib.Logic.Equiv.Fin.Basic

set_option linter.unusedSectionVars false
set_option linter.unusedVariables false

/-! # Helpers for C13: the weighting kernels in `Finset` form (the S layer of the weighters), their
bounds (Cauchy–Schwarz ⇒ `r ≤ 1`, Gibbs ⇒ `H ≤ 1`) and their behaviour under permutations. -/
namespace Skc.Weighters
open Skc Finset

variable {m n : ℕ}

/-! ## materialised arrays are the functions they tabulate -/

@[simp] theorem tab_get {β : Type} {n : ℕ} (f : Fin n → β) : (tab f).get = f := by
  funext i; simp [tab, Tab.get]

@[simp] theorem tab2_get2 {β : Type} {m n : ℕ} (f : Fin m → Fin n → β) : (tab2 f).get2 = f := by
  funext i j; simp [tab2, Tab.get2]

/-! ## reductions under a permutation of the index -/

theorem sumFin_comp_perm {α : Type} [AddCommMonoid α] {n : ℕ} (f : Fin n → α) (τ : Equiv.Perm (Fin n)) :
    sumFin (fun j => f (τ j)) = sumFin f := by
  rw [sumFin_eq_sum, sumFin_eq_sum]; exact Equiv.sum_comp τ f

theorem maxFin_comp_perm {α : Type} [LinearOrder α] {n : ℕ} [NeZero n] (f : Fin n → α) (τ : Equiv.Perm (Fin n)) :
    maxFin (fun j => f (τ j)) = maxFin f := by
  apply le_antisymm
  · rw [maxFin_le_iff]; intro i; exact le_maxFin f (τ i)
  · rw [maxFin_le_iff]; intro i
    have := le_maxFin (fun j => f (τ j)) (τ.symm i)
    simpa using this

theorem minFin_comp_perm {α : Type} [LinearOrder α] {n : ℕ} [NeZero n] (f : Fin n → α) (τ : Equiv.Perm (Fin n)) :
    minFin (fun j => f (τ j)) = minFin f := by
  apply le_antisymm
  · rw [le_minFin_iff]; intro i
    have := minFin_le (fun j => f (τ j)) (τ.symm i)
    simpa using this
  · rw [le_minFin_iff]; intro i; exact minFin_le f (τ i)

theorem countFin_comp_perm {n : ℕ} (p : Fin n → Bool) (τ : Equiv.Perm (Fin n)) :
    countFin (fun j => p (τ j)) = countFin p := by
  rw [countFin_eq_card, countFin_eq_card]
  exact Finset.card_equiv τ (by intro i; simp)

/-! ## `v / np.sum(v)` -/
section normsum
variable {α : Type} [Field α] [LinearOrder α] [IsStrictOrderedRing α]

theorem normSum_apply (v : Vec n α) (j : Fin n) : normSum v j = v j / ∑ k, v k := by
  unfold normSum; rw [sumFin_eq_sum]

theorem normSum_sum_one (v : Vec n α) (h : ∑ k, v k ≠ 0) : ∑ j, normSum v j = 1 := by
  simp only [normSum_apply]; rw [← Finset.sum_div, div_self h]

theorem normSum_nonneg (v : Vec n α) (hv : ∀ j, 0 ≤ v j) (j : Fin n) : 0 ≤ normSum v j := by
  rw [normSum_apply]; exact div_nonneg (hv j) (Finset.sum_nonneg fun k _ => hv k)

theorem normSum_le_one (v : Vec n α) (hv : ∀ j, 0 ≤ v j) (h : ∑ k, v k ≠ 0) (j : Fin n) : normSum v j ≤ 1 := by
  rw [← normSum_sum_one v h]
  exact Finset.single_le_sum (f := fun j => normSum v j) (fun k _ => normSum_nonneg v hv k) (mem_univ j)

/-- a common non-zero factor cancels in the normalisation -/
theorem normSum_mul_left (v : Vec n α) {c : α} (hc : c ≠ 0) : normSum (fun j => c * v j) = normSum v := by
  funext j; rw [normSum_apply, normSum_apply, ← Finset.mul_sum, mul_div_mul_left _ _ hc]

/-- the normalised value follows its index -/
theorem normSum_comp_perm (v : Vec n α) (τ : Equiv.Perm (Fin n)) (j : Fin n) :
    normSum (fun j => v (τ j)) j = normSum v (τ j) := by
  rw [normSum_apply, normSum_apply, Equiv.sum_comp τ v]

theorem normSum_congr {v w : Vec n α} (h : ∀ j, v j = w j) : normSum v = normSum w := by
  have : v = w := funext h
  rw [this]

/-! ## `equal_weights` -/

theorem equalWeights_apply (A : Mat m n α) (b : α) (j : Fin n) : equalWeights A b j = b / (n : α) := rfl

theorem equalWeights_sum (A : Mat m n α) (b : α) (hn : n ≠ 0) : ∑ j, equalWeights A b j = b := by
  simp only [equalWeights_apply, Finset.sum_const, Finset.card_univ, Fintype.card_fin, nsmul_eq_mul]
  have : (n : α) ≠ 0 := Nat.cast_ne_zero.mpr hn
  field_simp

end normsum

/-! ## the S layer: the published formulas over `ℝ` -/
namespace Spec

/-- arithmetic mean of criterion `j` -/
noncomputable def mean (A : Mat m n ℝ) (j : Fin n) : ℝ := (∑ i, A i j) / m

/-- co-moment `Σ_i (a_ij − ā_j)(a_ik − ā_k)` of criteria `j`, `k` -/
noncomputable def cov (A : Mat m n ℝ) (j k : Fin n) : ℝ := ∑ i, (A i j - mean A j) * (A i k - mean A k)

/-- standard deviation of criterion `j` with `ddof` delta degrees of freedom
(`1`: sample, `0`: population): `sqrt(Σ_i (a_ij − ā_j)² / (m − ddof))` -/
noncomputable def std (ddof : ℕ) (A : Mat m n ℝ) (j : Fin n) : ℝ :=
  Real.sqrt (cov A j j / ((m - ddof : ℕ) : ℝ))

/-- share of alternative `i` in criterion `j`: `p_ij = a_ij / Σ_i a_ij` -/
noncomputable def share (A : Mat m n ℝ) (i : Fin m) (j : Fin n) : ℝ := A i j / ∑ i', A i' j

/-- normalised Shannon entropy of criterion `j`: `H_j = −Σ_i p_ij log p_ij / log m` -/
noncomputable def entropy (A : Mat m n ℝ) (j : Fin n) : ℝ := (∑ i, Real.negMulLog (share A i j)) / Real.log m

/-- Pearson correlation of criteria `j`, `k` -/
noncomputable def pearson (A : Mat m n ℝ) (j k : Fin n) : ℝ := cov A j k / Real.sqrt (cov A j j * cov A k k)

/-- average rank (ties share the mean of their positions), ascending, 1-based -/
noncomputable def avgRank (x : Fin m → ℝ) (i : Fin m) : ℝ :=
  ((univ.filter fun k => x k < x i).card : ℝ) + (((univ.filter fun k => x k = x i).card : ℝ) + 1) / 2

/-- every criterion replaced by its average ranks -/
noncomputable def ranks (A : Mat m n ℝ) : Mat m n ℝ := fun i j => avgRank (fun i' => A i' j) i

/-- Spearman correlation: Pearson correlation of the average ranks -/
noncomputable def spearman (A : Mat m n ℝ) (j k : Fin n) : ℝ := pearson (ranks A) j k

/-- ideal (`cenit`) and anti-ideal (`nadir`) value of criterion `j` under its objective -/
noncomputable def ideal [NeZero m] (A : Mat m n ℝ) (o : Vec n Obj) (j : Fin n) : ℝ :=
  if o j = .max then univ.sup' univ_nonempty (fun i => A i j) else univ.inf' univ_nonempty (fun i => A i j)
noncomputable def antiIdeal [NeZero m] (A : Mat m n ℝ) (o : Vec n Obj) (j : Fin n) : ℝ :=
  if o j = .max then univ.inf' univ_nonempty (fun i => A i j) else univ.sup' univ_nonempty (fun i => A i j)

/-- ideal-distance scaling: `(a_ij − anti_j) / (ideal_j − anti_j)` -/
noncomputable def cenit [NeZero m] (A : Mat m n ℝ) (o : Vec n Obj) : Mat m n ℝ :=
  fun i j => (A i j - antiIdeal A o j) / (ideal A o j - antiIdeal A o j)

/-- the matrix CRITIC works on -/
noncomputable def criticMatrix [NeZero m] (A : Mat m n ℝ) (o : Vec n Obj) (scale : Bool) : Mat m n ℝ :=
  if scale then cenit A o else A

/-- the correlation CRITIC uses -/
noncomputable def corr (c : Corr) (A : Mat m n ℝ) (j k : Fin n) : ℝ :=
  match c with
  | .pearson => pearson A j k
  | .spearman => spearman A j k

/-- CRITIC's information content of criterion `j`: `σ_j · Σ_k (1 − r_kj)` (population `σ`) -/
noncomputable def criticInfo [NeZero m] (A : Mat m n ℝ) (o : Vec n Obj) (c : Corr) (scale : Bool) (j : Fin n) : ℝ :=
  std 0 (criticMatrix A o scale) j * ∑ k, (1 - corr c (criticMatrix A o scale) k j)

end Spec

/-! ## kernels = formulas -/

theorem colMean_eq (A : Mat m n ℝ) : colMean A = Spec.mean A := by
  funext j; simp only [colMean, Spec.mean, sumFin_eq_sum]

theorem colStd_eq (ddof : ℕ) (A : Mat m n ℝ) : colStd ddof A = Spec.std ddof A := by
  funext j
  simp only [colStd, tab_get, colMean_eq, sumFin_eq_sum, sqrt_real, Spec.std, Spec.cov]

theorem stdWeightsDdof_eq (ddof : ℕ) (A : Mat m n ℝ) (j : Fin n) :
    stdWeightsDdof ddof A j = Spec.std ddof A j / ∑ k, Spec.std ddof A k := by
  simp only [stdWeightsDdof, tab_get, colStd_eq, normSum_apply]

theorem stdWeights_eq_ddof (A : Mat m n ℝ) : stdWeights A = stdWeightsDdof 1 A := rfl

theorem entr_eq_negMulLog {x : ℝ} (hx : 0 ≤ x) : entr x = Real.negMulLog x := by
  unfold entr Real.negMulLog
  rcases hx.lt_or_eq with h | h
  · simp [h]
  · subst h; simp

theorem scipyEntropy_eq (A : Mat m n ℝ) (hA : ∀ i j, 0 ≤ A i j) (j : Fin n) :
    scipyEntropy A m j = Spec.entropy A j := by
  simp only [scipyEntropy, tab_get, sumFin_eq_sum, log_real, Spec.entropy, Spec.share]
  congr 1
  apply Finset.sum_congr rfl; intro i _
  exact entr_eq_negMulLog (div_nonneg (hA i j) (Finset.sum_nonneg fun i' _ => hA i' j))

theorem entropyWeights_eq (A : Mat m n ℝ) (hA : ∀ i j, 0 ≤ A i j) (j : Fin n) :
    entropyWeights A j = (1 - Spec.entropy A j) / ∑ k, (1 - Spec.entropy A k) := by
  simp only [entropyWeights, tab_get, normSum_apply, scipyEntropy_eq A hA]

theorem pearson_eq (A : Mat m n ℝ) : pearson A = Spec.pearson A := by
  funext j k
  simp only [pearson, tab_get, tab2_get2, colMean_eq, sumFin_eq_sum, sqrt_real, Spec.pearson, Spec.cov]

theorem avgRank_eq (x : Fin m → ℝ) : avgRank x = Spec.avgRank x := by
  funext i
  simp only [avgRank, Spec.avgRank, countFin_eq_card, decide_eq_true_eq, not_lt]
  have h2 : (1 + 1 : ℝ) = 2 := by norm_num
  have hset : (univ.filter fun k => x i ≤ x k ∧ x k ≤ x i) = univ.filter fun k => x k = x i := by
    ext k; simp only [mem_filter, mem_univ, true_and]
    constructor
    · rintro ⟨h1, h2⟩; exact le_antisymm h2 h1
    · intro h; exact ⟨h.ge, h.le⟩
  rw [h2, hset]

theorem rankColumns_eq (A : Mat m n ℝ) : rankColumns A = Spec.ranks A := by
  funext i j; simp only [rankColumns, Spec.ranks, avgRank_eq]

theorem spearman_eq (A : Mat m n ℝ) : spearman A = Spec.spearman A := by
  funext j k
  simp only [spearman, tab2_get2, pearson_eq, rankColumns_eq, Spec.spearman]

theorem corrMatrix_eq (c : Corr) (A : Mat m n ℝ) : corrMatrix c A = Spec.corr c A := by
  funext j k; cases c <;> simp only [corrMatrix, Spec.corr, pearson_eq, spearman_eq]

theorem cenitScale_eq [NeZero m] (A : Mat m n ℝ) (o : Vec n Obj) : cenitScale A o = Spec.cenit A o := by
  funext i j
  simp only [cenitScale, Spec.cenit, Spec.ideal, Spec.antiIdeal, maxFin_eq_sup', minFin_eq_inf']

theorem criticWeights_eq [NeZero m] (A : Mat m n ℝ) (o : Vec n Obj) (c : Corr) (scale : Bool) (j : Fin n) :
    criticWeights A o c scale j = Spec.criticInfo A o c scale j / ∑ k, Spec.criticInfo A o c scale k := by
  have hM : (if scale = true then cenitScale A o else A) = Spec.criticMatrix A o scale := by
    unfold Spec.criticMatrix; rw [cenitScale_eq]
  simp only [criticWeights, tab_get, tab2_get2, normSum_apply, hM, colStd_eq, corrMatrix_eq, sumFin_eq_sum,
    Spec.criticInfo]


/-! ## bounds -/
namespace Spec

theorem std_nonneg (ddof : ℕ) (A : Mat m n ℝ) (j : Fin n) : 0 ≤ std ddof A j := Real.sqrt_nonneg _

theorem cov_self_nonneg (A : Mat m n ℝ) (j : Fin n) : 0 ≤ cov A j j :=
  Finset.sum_nonneg fun i _ => mul_self_nonneg _

/-- Cauchy–Schwarz: a correlation coefficient is at most one (also in the degenerate `x/0 = 0` case) -/
theorem pearson_le_one (A : Mat m n ℝ) (j k : Fin n) : pearson A j k ≤ 1 := by
  unfold pearson
  apply div_le_one_of_le₀ _ (Real.sqrt_nonneg _)
  have h := Finset.sum_mul_sq_le_sq_mul_sq univ (fun i => A i j - mean A j) (fun i => A i k - mean A k)
  apply le_trans (le_abs_self _)
  apply Real.abs_le_sqrt
  simpa only [cov, sq] using h

theorem neg_one_le_pearson (A : Mat m n ℝ) (j k : Fin n) : -1 ≤ pearson A j k := by
  unfold pearson
  rw [neg_le, ← neg_div]
  apply div_le_one_of_le₀ _ (Real.sqrt_nonneg _)
  have h := Finset.sum_mul_sq_le_sq_mul_sq univ (fun i => A i j - mean A j) (fun i => A i k - mean A k)
  apply le_trans (neg_le_abs _)
  apply Real.abs_le_sqrt
  simpa only [cov, sq] using h

/-- a non-constant criterion correlates perfectly with itself -/
theorem pearson_self (A : Mat m n ℝ) (j : Fin n) (h : 0 < cov A j j) : pearson A j j = 1 := by
  unfold pearson
  rw [Real.sqrt_mul_self h.le, div_self h.ne']

theorem corr_le_one (c : Corr) (A : Mat m n ℝ) (j k : Fin n) : corr c A j k ≤ 1 := by
  cases c
  · exact pearson_le_one A j k
  · exact pearson_le_one (ranks A) j k

theorem criticInfo_nonneg [NeZero m] (A : Mat m n ℝ) (o : Vec n Obj) (c : Corr) (scale : Bool) (j : Fin n) :
    0 ≤ criticInfo A o c scale j :=
  mul_nonneg (std_nonneg _ _ _) (Finset.sum_nonneg fun k _ => sub_nonneg.mpr (corr_le_one _ _ _ _))

/-- a criterion that is not constant has a positive co-moment with itself -/
theorem cov_self_pos (A : Mat m n ℝ) (j : Fin n) (h : ∃ i i', A i j ≠ A i' j) : 0 < cov A j j := by
  obtain ⟨i, i', hne⟩ := h
  have hex : ∃ i₀, A i₀ j ≠ mean A j := by
    by_contra hall
    push Not at hall
    exact hne ((hall i).trans (hall i').symm)
  obtain ⟨i₀, hi₀⟩ := hex
  apply Finset.sum_pos' (fun i _ => mul_self_nonneg _)
  exact ⟨i₀, mem_univ _, mul_self_pos.mpr (sub_ne_zero.mpr hi₀)⟩

theorem std_pos (ddof : ℕ) (hm : ddof < m) (A : Mat m n ℝ) (j : Fin n) (h : ∃ i i', A i j ≠ A i' j) :
    0 < std ddof A j := by
  unfold std
  apply Real.sqrt_pos.mpr
  apply div_pos (cov_self_pos A j h)
  exact_mod_cast Nat.sub_pos_of_lt hm

/-- the `ddof` only contributes a factor common to all criteria -/
theorem std_ddof (hm : 2 ≤ m) (A : Mat m n ℝ) (j : Fin n) :
    std 0 A j = Real.sqrt (((m : ℝ) - 1) / m) * std 1 A j := by
  have hm0 : (0 : ℝ) < m := by exact_mod_cast (by omega : 0 < m)
  have hm1 : (0 : ℝ) < (m : ℝ) - 1 := by
    have : (2 : ℝ) ≤ m := by exact_mod_cast hm
    linarith
  unfold std
  rw [← Real.sqrt_mul (div_nonneg hm1.le hm0.le), Nat.sub_zero, Nat.cast_pred (by omega : 0 < m)]
  congr 1
  field_simp

/-! ### entropy -/

theorem share_pos (A : Mat m n ℝ) (hA : ∀ i j, 0 < A i j) (i : Fin m) (j : Fin n) : 0 < share A i j :=
  div_pos (hA i j) (Finset.sum_pos' (fun i' _ => (hA i' j).le) ⟨i, mem_univ _, hA i j⟩)

theorem share_sum_one (A : Mat m n ℝ) (hA : ∀ i j, 0 < A i j) (hm : 0 < m) (j : Fin n) : ∑ i, share A i j = 1 := by
  unfold share
  rw [← Finset.sum_div]
  apply div_self
  exact (Finset.sum_pos' (fun i' _ => (hA i' j).le) ⟨⟨0, hm⟩, mem_univ _, hA _ j⟩).ne'

/-- Gibbs / Jensen: the Shannon entropy of a distribution on `m` points is at most `log m` -/
theorem sum_negMulLog_le_log (hm : 0 < m) (p : Fin m → ℝ) (hp : ∀ i, 0 ≤ p i) (hs : ∑ i, p i = 1) :
    ∑ i, Real.negMulLog (p i) ≤ Real.log m := by
  have hm' : (0 : ℝ) < m := by exact_mod_cast hm
  have hJ := Real.concaveOn_negMulLog.le_map_sum (t := univ) (w := fun _ : Fin m => (1 : ℝ) / m) (p := p)
    (fun i _ => by positivity) (by simp [hm'.ne']) (fun i _ => hp i)
  simp only [smul_eq_mul] at hJ
  rw [← Finset.mul_sum, ← Finset.mul_sum, hs, mul_one] at hJ
  have hval : Real.negMulLog ((1 : ℝ) / m) = (1 / m) * Real.log m := by
    unfold Real.negMulLog
    rw [one_div, Real.log_inv]; ring
  rw [hval] at hJ
  have := mul_le_mul_of_nonneg_left hJ hm'.le
  rw [← mul_assoc, ← mul_assoc, mul_one_div_cancel hm'.ne', one_mul, one_mul] at this
  exact this

/-- strict version: a distribution that is not uniform has entropy below `log m` -/
theorem sum_negMulLog_lt_log (hm : 0 < m) (p : Fin m → ℝ) (hp : ∀ i, 0 ≤ p i) (hs : ∑ i, p i = 1)
    (hne : ∃ i i', p i ≠ p i') : ∑ i, Real.negMulLog (p i) < Real.log m := by
  have hm' : (0 : ℝ) < m := by exact_mod_cast hm
  obtain ⟨i, i', hii⟩ := hne
  have hJ := Real.strictConcaveOn_negMulLog.lt_map_sum (t := univ) (w := fun _ : Fin m => (1 : ℝ) / m) (p := p)
    (fun i _ => by positivity) (by simp [hm'.ne']) (fun i _ => hp i) ⟨i, mem_univ _, i', mem_univ _, hii⟩
  simp only [smul_eq_mul] at hJ
  rw [← Finset.mul_sum, ← Finset.mul_sum, hs, mul_one] at hJ
  have hval : Real.negMulLog ((1 : ℝ) / m) = (1 / m) * Real.log m := by
    unfold Real.negMulLog
    rw [one_div, Real.log_inv]; ring
  rw [hval] at hJ
  have := mul_lt_mul_of_pos_left hJ hm'
  rw [← mul_assoc, ← mul_assoc, mul_one_div_cancel hm'.ne', one_mul, one_mul] at this
  exact this

/-- normalised entropy (base `m`, as `scipy.stats.entropy(..., base=m)`) is at most 1 -/
theorem entropy_le_one (hm : 2 ≤ m) (A : Mat m n ℝ) (hA : ∀ i j, 0 < A i j) (j : Fin n) : entropy A j ≤ 1 := by
  have hlog : 0 < Real.log m := Real.log_pos (by exact_mod_cast hm)
  unfold entropy
  rw [div_le_one hlog]
  exact sum_negMulLog_le_log (by omega) _ (fun i => (share_pos A hA i j).le) (share_sum_one A hA (by omega) j)

/-- … and below 1 for a criterion that is not constant -/
theorem entropy_lt_one (hm : 2 ≤ m) (A : Mat m n ℝ) (hA : ∀ i j, 0 < A i j) (j : Fin n)
    (h : ∃ i i', A i j ≠ A i' j) : entropy A j < 1 := by
  have hlog : 0 < Real.log m := Real.log_pos (by exact_mod_cast hm)
  unfold entropy
  rw [div_lt_one hlog]
  apply sum_negMulLog_lt_log (by omega) _ (fun i => (share_pos A hA i j).le) (share_sum_one A hA (by omega) j)
  obtain ⟨i, i', hne⟩ := h
  refine ⟨i, i', ?_⟩
  unfold share
  intro heq
  have hT : (∑ i', A i' j) ≠ 0 :=
    (Finset.sum_pos' (fun i' _ => (hA i' j).le) ⟨i, mem_univ _, hA i j⟩).ne'
  exact hne (by field_simp at heq; exact heq)

/-- the entropy is non-negative: every share lies in `[0, 1]` -/
theorem entropy_nonneg (hm : 2 ≤ m) (A : Mat m n ℝ) (hA : ∀ i j, 0 < A i j) (j : Fin n) : 0 ≤ entropy A j := by
  have hlog : 0 < Real.log m := Real.log_pos (by exact_mod_cast hm)
  unfold entropy
  apply div_nonneg _ hlog.le
  apply Finset.sum_nonneg; intro i _
  apply Real.negMulLog_nonneg (share_pos A hA i j).le
  rw [← share_sum_one A hA (by omega) j]
  exact Finset.single_le_sum (f := fun i => share A i j) (fun i' _ => (share_pos A hA i' j).le) (mem_univ i)

end Spec


/-! ## alternatives listed in another order (`σ` on the rows) -/
namespace Spec

theorem sup'_comp_perm {ι : Type} [Fintype ι] [Nonempty ι] (f : ι → ℝ) (σ : Equiv.Perm ι) :
    univ.sup' univ_nonempty (fun i => f (σ i)) = univ.sup' univ_nonempty f := by
  apply le_antisymm
  · apply sup'_le; intro i _; exact le_sup' f (mem_univ (σ i))
  · apply sup'_le; intro i _
    have h := le_sup' (fun i => f (σ i)) (mem_univ (σ.symm i))
    simp only [Equiv.apply_symm_apply] at h
    exact h

theorem inf'_comp_perm {ι : Type} [Fintype ι] [Nonempty ι] (f : ι → ℝ) (σ : Equiv.Perm ι) :
    univ.inf' univ_nonempty (fun i => f (σ i)) = univ.inf' univ_nonempty f := by
  apply le_antisymm
  · apply le_inf'; intro i _
    have h := inf'_le (fun i => f (σ i)) (mem_univ (σ.symm i))
    simp only [Equiv.apply_symm_apply] at h
    exact h
  · apply le_inf'; intro i _; exact inf'_le f (mem_univ (σ i))

variable (σ : Equiv.Perm (Fin m))

theorem mean_row_perm (A : Mat m n ℝ) (j : Fin n) : mean (fun i => A (σ i)) j = mean A j := by
  unfold mean; rw [Equiv.sum_comp σ (fun i => A i j)]

theorem cov_row_perm (A : Mat m n ℝ) (j k : Fin n) : cov (fun i => A (σ i)) j k = cov A j k := by
  unfold cov; simp only [mean_row_perm]
  exact Equiv.sum_comp σ (fun i => (A i j - mean A j) * (A i k - mean A k))

theorem std_row_perm (ddof : ℕ) (A : Mat m n ℝ) (j : Fin n) : std ddof (fun i => A (σ i)) j = std ddof A j := by
  unfold std; rw [cov_row_perm]

theorem share_row_perm (A : Mat m n ℝ) (i : Fin m) (j : Fin n) : share (fun i => A (σ i)) i j = share A (σ i) j := by
  unfold share; rw [Equiv.sum_comp σ (fun i => A i j)]

theorem entropy_row_perm (A : Mat m n ℝ) (j : Fin n) : entropy (fun i => A (σ i)) j = entropy A j := by
  unfold entropy; simp only [share_row_perm]
  rw [Equiv.sum_comp σ (fun i => Real.negMulLog (share A i j))]

theorem pearson_row_perm (A : Mat m n ℝ) (j k : Fin n) : pearson (fun i => A (σ i)) j k = pearson A j k := by
  unfold pearson; simp only [cov_row_perm]

theorem avgRank_row_perm (x : Fin m → ℝ) (i : Fin m) : avgRank (fun i => x (σ i)) i = avgRank x (σ i) := by
  unfold avgRank
  have h1 : (univ.filter fun k => x (σ k) < x (σ i)).card = (univ.filter fun k => x k < x (σ i)).card :=
    Finset.card_equiv σ (by intro k; simp)
  have h2 : (univ.filter fun k => x (σ k) = x (σ i)).card = (univ.filter fun k => x k = x (σ i)).card :=
    Finset.card_equiv σ (by intro k; simp)
  rw [h1, h2]

theorem ranks_row_perm (A : Mat m n ℝ) : ranks (fun i => A (σ i)) = fun i => ranks A (σ i) := by
  funext i j; unfold ranks; exact avgRank_row_perm σ (fun i' => A i' j) i

theorem spearman_row_perm (A : Mat m n ℝ) (j k : Fin n) : spearman (fun i => A (σ i)) j k = spearman A j k := by
  unfold spearman; rw [ranks_row_perm]; exact pearson_row_perm σ (ranks A) j k

theorem corr_row_perm (c : Corr) (A : Mat m n ℝ) (j k : Fin n) : corr c (fun i => A (σ i)) j k = corr c A j k := by
  cases c
  · exact pearson_row_perm σ A j k
  · exact spearman_row_perm σ A j k

theorem ideal_row_perm [NeZero m] (A : Mat m n ℝ) (o : Vec n Obj) (j : Fin n) :
    ideal (fun i => A (σ i)) o j = ideal A o j := by
  unfold ideal; rw [sup'_comp_perm (fun i => A i j) σ, inf'_comp_perm (fun i => A i j) σ]

theorem antiIdeal_row_perm [NeZero m] (A : Mat m n ℝ) (o : Vec n Obj) (j : Fin n) :
    antiIdeal (fun i => A (σ i)) o j = antiIdeal A o j := by
  unfold antiIdeal; rw [sup'_comp_perm (fun i => A i j) σ, inf'_comp_perm (fun i => A i j) σ]

theorem cenit_row_perm [NeZero m] (A : Mat m n ℝ) (o : Vec n Obj) :
    cenit (fun i => A (σ i)) o = fun i => cenit A o (σ i) := by
  funext i j; unfold cenit; rw [ideal_row_perm, antiIdeal_row_perm]

theorem criticMatrix_row_perm [NeZero m] (A : Mat m n ℝ) (o : Vec n Obj) (scale : Bool) :
    criticMatrix (fun i => A (σ i)) o scale = fun i => criticMatrix A o scale (σ i) := by
  unfold criticMatrix; cases scale
  · rfl
  · simp only [if_true]; exact cenit_row_perm σ A o

theorem criticInfo_row_perm [NeZero m] (A : Mat m n ℝ) (o : Vec n Obj) (c : Corr) (scale : Bool) (j : Fin n) :
    criticInfo (fun i => A (σ i)) o c scale j = criticInfo A o c scale j := by
  unfold criticInfo
  rw [criticMatrix_row_perm, std_row_perm σ 0 (criticMatrix A o scale)]
  simp only [corr_row_perm σ c (criticMatrix A o scale)]

/-! ## criteria (with their objectives) listed in another order (`τ` on the columns) -/
variable (τ : Equiv.Perm (Fin n))

theorem cov_col_perm (A : Mat m n ℝ) (j k : Fin n) : cov (fun i j => A i (τ j)) j k = cov A (τ j) (τ k) := rfl
theorem std_col_perm (ddof : ℕ) (A : Mat m n ℝ) (j : Fin n) : std ddof (fun i j => A i (τ j)) j = std ddof A (τ j) := rfl
theorem entropy_col_perm (A : Mat m n ℝ) (j : Fin n) : entropy (fun i j => A i (τ j)) j = entropy A (τ j) := rfl
theorem pearson_col_perm (A : Mat m n ℝ) (j k : Fin n) :
    pearson (fun i j => A i (τ j)) j k = pearson A (τ j) (τ k) := rfl
theorem ranks_col_perm (A : Mat m n ℝ) : ranks (fun i j => A i (τ j)) = fun i j => ranks A i (τ j) := rfl
theorem corr_col_perm (c : Corr) (A : Mat m n ℝ) (j k : Fin n) :
    corr c (fun i j => A i (τ j)) j k = corr c A (τ j) (τ k) := by
  cases c <;> rfl
theorem criticMatrix_col_perm [NeZero m] (A : Mat m n ℝ) (o : Vec n Obj) (scale : Bool) :
    criticMatrix (fun i j => A i (τ j)) (fun j => o (τ j)) scale = fun i j => criticMatrix A o scale i (τ j) := by
  cases scale <;> rfl

theorem criticInfo_col_perm [NeZero m] (A : Mat m n ℝ) (o : Vec n Obj) (c : Corr) (scale : Bool) (j : Fin n) :
    criticInfo (fun i j => A i (τ j)) (fun j => o (τ j)) c scale j = criticInfo A o c scale (τ j) := by
  unfold criticInfo
  rw [criticMatrix_col_perm]
  simp only [corr_col_perm τ c (criticMatrix A o scale), std_col_perm τ 0 (criticMatrix A o scale)]
  rw [Equiv.sum_comp τ (fun k => 1 - corr c (criticMatrix A o scale) k (τ j))]

end Spec

end Skc.Weighters
