import Skc.Proofs.Rank
import Skc.Model.Num
import Mathlib.Algebra.Order.Field.Basic
import Mathlib.Data.List.OfFn

set_option linter.unusedSectionVars false

/-! The rank of alternative `i` when the scores are given as a vector `Fin m → α`. -/
namespace Skc
variable {α : Type} [Field α] [LinearOrder α] [IsStrictOrderedRing α] {m : ℕ}

/-- rank of alternative `i` as `rank_values(score, reverse)` computes it -/
def rankFin (rev : Bool) (s : Fin m → α) (i : Fin m) : ℕ :=
  (rankValues rev (List.ofFn s))[i.val]'(by cases rev <;> simp [rankValues, denseRank])

theorem rankFin_true (s : Fin m → α) (i : Fin m) :
    rankFin true s i = rankOf (List.ofFn fun k => - s k) (- s i) := by
  simp [rankFin, rankValues, denseRank, List.map_ofFn, Function.comp_def]
theorem rankFin_false (s : Fin m → α) (i : Fin m) :
    rankFin false s i = rankOf (List.ofFn s) (s i) := by
  simp [rankFin, rankValues, denseRank]

/-- higher-is-better: strictly better score ⇔ strictly smaller rank -/
theorem rankFin_true_lt_iff (s : Fin m → α) (a b : Fin m) : rankFin true s a < rankFin true s b ↔ s b < s a := by
  rw [rankFin_true, rankFin_true, rankOf_lt_iff' _ ((List.mem_ofFn' _ _).mpr ⟨a, rfl⟩), neg_lt_neg_iff]
theorem rankFin_false_lt_iff (s : Fin m → α) (a b : Fin m) : rankFin false s a < rankFin false s b ↔ s a < s b := by
  rw [rankFin_false, rankFin_false, rankOf_lt_iff' _ ((List.mem_ofFn' _ _).mpr ⟨a, rfl⟩)]

theorem rankFin_true_le_of_ge (s : Fin m → α) (a b : Fin m) (h : s b ≤ s a) : rankFin true s a ≤ rankFin true s b := by
  by_contra hn; push Not at hn
  exact absurd ((rankFin_true_lt_iff s b a).mp hn) (not_lt.mpr h)
theorem rankFin_false_le_of_le (s : Fin m → α) (a b : Fin m) (h : s a ≤ s b) : rankFin false s a ≤ rankFin false s b := by
  by_contra hn; push Not at hn
  exact absurd ((rankFin_false_lt_iff s b a).mp hn) (not_lt.mpr h)
theorem rankFin_eq_of_eq (rev : Bool) (s : Fin m → α) (a b : Fin m) (h : s a = s b) : rankFin rev s a = rankFin rev s b := by
  cases rev
  · rw [rankFin_false, rankFin_false, h]
  · rw [rankFin_true, rankFin_true, h]

end Skc
