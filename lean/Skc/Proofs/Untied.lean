import Skc.Model.Untied
import Mathlib.Data.List.Basic
import Mathlib.Data.List.Nodup
import Mathlib.Data.List.Perm.Basic
import Mathlib.Data.List.Sort
import Mathlib.Tactic

/-! Helper lemmas for C18: the stable argsort sorts the positions by `(key, position)`; the
argsort of a permutation of `0..n-1` is its inverse; counting lemmas for the closed form. -/
namespace Skc.Untied
open List

/-- position `k` comes strictly before position `i` in the untied order of `r` -/
def before (r : List Nat) (k i : Nat) : Prop :=
  r.getD k 0 < r.getD i 0 ∨ (r.getD k 0 = r.getD i 0 ∧ k < i)

instance (r : List Nat) (k i : Nat) : Decidable (before r k i) := by unfold before; infer_instance

theorem before_trans {r : List Nat} {a b c : Nat} : before r a b → before r b c → before r a c := by
  unfold before; omega

theorem before_irrefl {r : List Nat} {a : Nat} : ¬ before r a a := by unfold before; omega

theorem before_asymm {r : List Nat} {a b : Nat} : before r a b → ¬ before r b a := by unfold before; omega

/-! ## the stable argsort -/

theorem insertPos_perm (r : List Nat) (i : Nat) (t : List Nat) : insertPos r i t ~ i :: t := by
  induction t with
  | nil => simp [insertPos]
  | cons j t ih =>
    simp only [insertPos]; split
    · exact Perm.refl _
    · exact (Perm.cons j ih).trans (Perm.swap i j t)

theorem insertPos_sorted (r : List Nat) (i : Nat) (t : List Nat) (hi : ∀ j ∈ t, i < j)
    (ht : t.Pairwise (before r)) : (insertPos r i t).Pairwise (before r) := by
  induction t with
  | nil => simp [insertPos]
  | cons j t ih =>
    have hj := pairwise_cons.mp ht
    simp only [insertPos]; split
    · rename_i h
      have hij : before r i j := by
        have := hi j mem_cons_self
        unfold before; omega
      refine pairwise_cons.mpr ⟨?_, ht⟩
      intro x hx
      rcases mem_cons.mp hx with rfl | hx
      · exact hij
      · exact before_trans hij (hj.1 x hx)
    · rename_i h
      refine pairwise_cons.mpr ⟨?_, ih (fun x hx => hi x (mem_cons_of_mem _ hx)) hj.2⟩
      intro x hx
      have hx' := (insertPos_perm r i t).subset hx
      rcases mem_cons.mp hx' with rfl | hx'
      · unfold before; omega
      · exact hj.1 x hx'

theorem argsortPos_perm (r l : List Nat) : argsortPos r l ~ l := by
  induction l with
  | nil => simp [argsortPos]
  | cons i t ih => exact (insertPos_perm r i _).trans (Perm.cons i ih)

theorem argsortPos_sorted (r l : List Nat) (hl : l.Pairwise (· < ·)) :
    (argsortPos r l).Pairwise (before r) := by
  induction l with
  | nil => simp [argsortPos]
  | cons i t ih =>
    have h := pairwise_cons.mp hl
    exact insertPos_sorted r i _ (fun j hj => h.1 j ((argsortPos_perm r t).subset hj)) (ih h.2)

theorem argsortStable_perm (r : List Nat) : argsortStable r ~ range r.length :=
  argsortPos_perm r _

theorem argsortStable_sorted (r : List Nat) : (argsortStable r).Pairwise (before r) :=
  argsortPos_sorted r _ pairwise_lt_range

theorem argsortStable_length (r : List Nat) : (argsortStable r).length = r.length := by
  simpa using (argsortStable_perm r).length_eq

theorem argsortStable_nodup (r : List Nat) : (argsortStable r).Nodup :=
  (argsortStable_perm r).nodup_iff.mpr nodup_range

theorem mem_argsortStable {r : List Nat} {k : Nat} : k ∈ argsortStable r ↔ k < r.length := by
  rw [(argsortStable_perm r).mem_iff, mem_range]

/-- in a list sorted by `before`, an element sits at the index that counts its predecessors -/
theorem idxOf_eq_countP_before {r σ : List Nat} (hs : σ.Pairwise (before r)) {i : Nat} (hi : i ∈ σ) :
    σ.idxOf i = σ.countP (fun k => decide (before r k i)) := by
  induction σ with
  | nil => simp at hi
  | cons a t ih =>
    have h := pairwise_cons.mp hs
    by_cases hai : a = i
    · subst hai
      rw [idxOf_cons_self, countP_cons]
      have h0 : countP (fun k => decide (before r k a)) t = 0 := by
        rw [countP_eq_zero]
        intro x hx
        simpa using before_asymm (h.1 x hx)
      simp [h0, before_irrefl]
    · have hit : i ∈ t := by
        rcases mem_cons.mp hi with rfl | h'
        · exact absurd rfl hai
        · exact h'
      rw [idxOf_cons_ne _ hai, countP_cons, ih h.2 hit]
      simp [h.1 i hit]

theorem map_getD_range (σ : List Nat) : (range σ.length).map (fun k => σ.getD k 0) = σ := by
  apply ext_getElem
  · simp
  · intro i h1 h2
    simp [List.getD_eq_getElem?_getD, getElem?_eq_getElem h2]

theorem getD_inj_of_nodup {σ : List Nat} (hn : σ.Nodup) {a b : Nat} (ha : a < σ.length) (hb : b < σ.length)
    (h : σ.getD a 0 = σ.getD b 0) : a = b := by
  rw [List.getD_eq_getElem?_getD, List.getD_eq_getElem?_getD, getElem?_eq_getElem ha, getElem?_eq_getElem hb] at h
  exact (hn.getElem_inj_iff).mp (by simpa using h)

/-- the stable argsort of a permutation `σ` of `0..n-1` is the inverse permutation -/
theorem argsort_of_perm_inverse {σ : List Nat} (hp : σ ~ range σ.length) :
    (argsortStable σ).map (fun k => σ.getD k 0) = range σ.length := by
  have hn : σ.Nodup := hp.nodup_iff.mpr nodup_range
  have hperm : (argsortStable σ).map (fun k => σ.getD k 0) ~ range σ.length := by
    have h1 := (argsortStable_perm σ).map (fun k => σ.getD k 0)
    rw [map_getD_range] at h1
    exact h1.trans hp
  have hsorted : ((argsortStable σ).map (fun k => σ.getD k 0)).Pairwise (· < ·) := by
    rw [pairwise_map]
    refine (argsortStable_sorted σ).imp_of_mem ?_
    intro a b ha hb hab
    rcases hab with h | ⟨h, hlt⟩
    · exact h
    · have := getD_inj_of_nodup hn (mem_argsortStable.mp ha) (mem_argsortStable.mp hb) h
      omega
  exact Perm.eq_of_pairwise (le := (· < ·)) (fun a b _ _ h1 h2 => by omega) hsorted pairwise_lt_range hperm

/-- entry `i` of `argsort(argsort r)` is the index of `i` in `argsort r` -/
theorem argsort_argsort_getElem (r : List Nat) (i : Nat) (hi : i < r.length) :
    (argsortStable (argsortStable r))[i]'(by rw [argsortStable_length, argsortStable_length]; exact hi)
      = (argsortStable r).idxOf i := by
  set σ := argsortStable r with hσ
  have hlen : σ.length = r.length := argsortStable_length r
  have hp : σ ~ range σ.length := by rw [hlen]; exact argsortStable_perm r
  have hinv := argsort_of_perm_inverse hp
  have hτlen : (argsortStable σ).length = σ.length := argsortStable_length σ
  have hi' : i < (argsortStable σ).length := by omega
  have hmem : (argsortStable σ)[i] < σ.length := mem_argsortStable.mp (getElem_mem hi')
  have hval : σ[(argsortStable σ)[i]] = i := by
    have := congrArg (fun l => l[i]?) hinv
    simp only [getElem?_map, getElem?_eq_getElem hi', Option.map_some] at this
    rw [getElem?_eq_getElem (by simpa [hlen] using hi), getElem_range] at this
    have h2 := Option.some.inj this
    rw [List.getD_eq_getElem?_getD, getElem?_eq_getElem hmem] at h2
    simpa using h2
  have hnd : σ.Nodup := argsortStable_nodup r
  have := hnd.idxOf_getElem _ hmem
  rw [hval] at this
  exact this.symm

/-! ## counting -/

theorem countP_lt_of_imp {α} {p q : α → Bool} {l : List α} (himp : ∀ x ∈ l, p x = true → q x = true)
    {a : α} (ha : a ∈ l) (hpa : p a = false) (hqa : q a = true) : countP p l < countP q l := by
  induction l with
  | nil => simp at ha
  | cons x t ih =>
    rw [countP_cons, countP_cons]
    have hmono : countP p t ≤ countP q t :=
      countP_mono_left (fun y hy => himp y (mem_cons_of_mem _ hy))
    rcases mem_cons.mp ha with rfl | hat
    · simp [hpa, hqa]; omega
    · have := ih (fun y hy => himp y (mem_cons_of_mem _ hy)) hat
      have hx := himp x mem_cons_self
      by_cases hpx : p x = true
      · simp [hpx, hx hpx]; omega
      · simp [hpx]; omega

/-- the number of positions before `i` grows strictly along the untied order -/
theorem countBefore_lt {r : List Nat} {i k : Nat} (hi : i < r.length) (h : before r i k) :
    (range r.length).countP (fun j => decide (before r j i))
      < (range r.length).countP (fun j => decide (before r j k)) := by
  apply countP_lt_of_imp (a := i)
  · intro x _ hx
    simp only [decide_eq_true_eq] at hx ⊢
    exact before_trans hx h
  · exact mem_range.mpr hi
  · simpa using before_irrefl
  · simpa using h

theorem filter_lt_range (n i : Nat) (hi : i ≤ n) : (range n).filter (fun k => decide (k < i)) = range i := by
  induction n with
  | zero => have : i = 0 := by omega
            subst this; simp
  | succ n ih =>
    rw [range_succ, filter_append]
    by_cases h : i ≤ n
    · rw [ih h]; simp; omega
    · have : i = n + 1 := by omega
      subst this
      rw [filter_eq_self.mpr (fun a ha => by simpa using Nat.lt_succ_of_lt (mem_range.mp ha))]
      simp [range_succ]

theorem countP_split (P L E B : Nat → Bool) (h : ∀ x, P x = (L x || (E x && B x)))
    (hd : ∀ x, L x = true → E x = false) (l : List Nat) :
    l.countP P = (l.filter L).length + ((l.filter B).filter E).length := by
  induction l with
  | nil => simp
  | cons x t ih =>
    have hx := h x
    have hdx := hd x
    rw [countP_cons, ih]
    simp only [filter_cons]
    cases hL : L x <;> cases hE : E x <;> cases hB : B x <;> simp_all <;> omega

/-- `#{k | before k i}` splits into the two counts of the closed form -/
theorem countBefore_split (r : List Nat) (i : Nat) (hi : i ≤ r.length) :
    (range r.length).countP (fun k => decide (before r k i)) + 1 = untiedAt r i := by
  unfold untiedAt
  have hgen : ∀ l : List Nat, l.countP (fun k => decide (before r k i))
      = (l.filter (fun k => decide (r.getD k 0 < r.getD i 0))).length
        + ((l.filter (fun k => decide (k < i))).filter (fun k => r.getD k 0 == r.getD i 0)).length := by
    intro l
    refine countP_split _ _ _ _ ?_ ?_ l
    · intro x
      unfold before
      by_cases a : r.getD x 0 < r.getD i 0 <;> by_cases b : r.getD x 0 = r.getD i 0 <;>
        by_cases c : x < i <;> simp [-List.getD_eq_getElem?_getD, a, b, c]
    · intro x hx
      have : r.getD x 0 < r.getD i 0 := by simpa [-List.getD_eq_getElem?_getD] using hx
      have : ¬ r.getD x 0 = r.getD i 0 := by omega
      simpa [-List.getD_eq_getElem?_getD] using this
  rw [hgen, filter_lt_range _ _ hi]

/-! ## code = closed form -/

theorem untiedSorted_length (r : List Nat) : (untiedSorted r).length = r.length := by
  simp [untiedSorted, argsortStable_length]

theorem untiedClosed_length (r : List Nat) : (untiedClosed r).length = r.length := by
  simp [untiedClosed]

theorem untiedSorted_getElem (r : List Nat) (i : Nat) (hi : i < r.length) :
    (untiedSorted r)[i]'(by rw [untiedSorted_length]; exact hi) = untiedAt r i := by
  simp only [untiedSorted, getElem_map]
  rw [argsort_argsort_getElem r i hi,
    idxOf_eq_countP_before (argsortStable_sorted r) (mem_argsortStable.mpr hi),
    (argsortStable_perm r).countP_eq, countBefore_split r i (by omega)]

theorem untiedSorted_eq_closed (r : List Nat) : untiedSorted r = untiedClosed r := by
  apply ext_getElem
  · rw [untiedSorted_length, untiedClosed_length]
  · intro i h1 h2
    have hi : i < r.length := by rwa [untiedSorted_length] at h1
    rw [untiedSorted_getElem r i hi]
    simp [untiedClosed]

theorem untiedSorted_perm (r : List Nat) : untiedSorted r ~ range' 1 r.length := by
  have h := ((argsortStable_perm (argsortStable r)).map (· + 1))
  rw [argsortStable_length] at h
  have e : (range r.length).map (· + 1) = range' 1 r.length := by
    rw [range'_eq_map_range]; apply map_congr_left; intro a _; omega
  rw [e] at h
  exact h

/-! ## ties -/

theorem uniq_length_le (r : List Nat) : (uniq r).length ≤ r.length := by
  induction r with
  | nil => simp [uniq]
  | cons x t ih => simp only [uniq]; split <;> simp <;> omega

theorem uniq_length_eq_iff (r : List Nat) : (uniq r).length = r.length ↔ r.Nodup := by
  induction r with
  | nil => simp [uniq]
  | cons x t ih =>
    have hle := uniq_length_le t
    simp only [uniq, nodup_cons]
    split
    · rename_i h
      have : x ∈ t := by simpa using h
      simp [this]; omega
    · rename_i h
      have : x ∉ t := by simpa using h
      simp [this, ih]

theorem hasTies_eq_false_iff (r : List Nat) : hasTies r = false ↔ r.Nodup := by
  simp [hasTies, uniq_length_eq_iff]

theorem hasTies_eq_true_iff (r : List Nat) : hasTies r = true ↔ ¬ r.Nodup := by
  rw [← hasTies_eq_false_iff]; simp

/-! ## no ties: a valid ranking is a permutation of `1..n` and both branches give it back -/

/-- what `RankResult` accepts (C03 `validRank_iff`): the set of values is `{1..k}` -/
def ValidRanking (r : List Nat) : Prop := ∃ k, ∀ x, x ∈ r ↔ 1 ≤ x ∧ x ≤ k

theorem perm_range'_of_valid_nodup {r : List Nat} (hv : ValidRanking r) (hn : r.Nodup) :
    r ~ range' 1 r.length := by
  obtain ⟨k, hk⟩ := hv
  have hp : r ~ range' 1 k := by
    rw [perm_ext_iff_of_nodup hn (nodup_range' (step := 1))]
    intro a
    rw [hk a, mem_range'_1]; omega
  have : r.length = k := by simpa using hp.length_eq
  rw [this]; exact hp

theorem countP_lt_range' (n v : Nat) : (range' 1 n).countP (fun x => decide (x < v)) = min (v - 1) n := by
  induction n with
  | zero => simp
  | succ n ih =>
    rw [range'_1_concat, countP_append, ih]
    by_cases h : 1 + n < v <;> simp [h] <;> omega

theorem untiedClosed_eq_self_of_perm {r : List Nat} (hp : r ~ range' 1 r.length) : untiedClosed r = r := by
  have hn : r.Nodup := hp.nodup_iff.mpr (nodup_range' (step := 1))
  apply ext_getElem
  · rw [untiedClosed_length]
  · intro i h1 h2
    simp only [untiedClosed, getElem_map, getElem_range, untiedAt]
    have hri : r.getD i 0 = r[i] := by simp [List.getD_eq_getElem?_getD, getElem?_eq_getElem h2]
    have hmem : r[i] ∈ range' 1 r.length := hp.subset (getElem_mem h2)
    rw [mem_range'_1] at hmem
    have h2nd : ((range i).filter (fun k => r.getD k 0 == r.getD i 0)).length = 0 := by
      rw [length_eq_zero_iff, filter_eq_nil_iff]
      intro k hk
      have hki : k < i := mem_range.mp hk
      intro h
      have := getD_inj_of_nodup hn (a := k) (b := i) (by omega) h2 (by simpa [-List.getD_eq_getElem?_getD] using h)
      omega
    have h1st : ((range r.length).filter (fun k => decide (r.getD k 0 < r.getD i 0))).length
        = r[i] - 1 := by
      rw [← countP_eq_length_filter]
      have : (range r.length).countP (fun k => decide (r.getD k 0 < r.getD i 0))
          = ((range r.length).map (fun k => r.getD k 0)).countP (fun x => decide (x < r.getD i 0)) := by
        rw [countP_map]; rfl
      rw [this, map_getD_range, hp.countP_eq, countP_lt_range', hri]
      omega
    rw [h1st, h2nd]; omega

/-! ## data frame -/

theorem lookup_of_mem {cells : List (String × Nat)} (hn : (cells.map Prod.fst).Nodup) {a : String} {v : Nat}
    (h : (a, v) ∈ cells) : cells.lookup a = some v := by
  induction cells with
  | nil => simp at h
  | cons c t ih =>
    obtain ⟨b, w⟩ := c
    simp only [map_cons, nodup_cons] at hn
    rcases mem_cons.mp h with heq | ht
    · have hb : a = b := (Prod.mk.inj heq).1
      have hw : v = w := (Prod.mk.inj heq).2
      subst hb; subst hw
      simp
    · have hne : a ≠ b := by
        rintro rfl
        exact hn.1 (mem_map.mpr ⟨(a, v), ht, rfl⟩)
      have hbeq : (a == b) = false := by simpa using hne
      rw [List.lookup_cons, hbeq]
      exact ih hn.2 ht

theorem mem_of_lookup_eq_some {cells : List (String × Nat)} {a : String} {v : Nat}
    (h : cells.lookup a = some v) : (a, v) ∈ cells := by
  induction cells with
  | nil => simp at h
  | cons c t ih =>
    obtain ⟨b, w⟩ := c
    rw [List.lookup_cons] at h
    by_cases hab : a = b
    · subst hab
      simp at h; subst h; exact mem_cons_self
    · have hbeq : (a == b) = false := by simpa using hab
      rw [hbeq] at h
      exact mem_cons_of_mem _ (ih h)

theorem lookup_eq_none_of_not_mem {cells : List (String × Nat)} {a : String}
    (h : a ∉ cells.map Prod.fst) : cells.lookup a = none := by
  induction cells with
  | nil => rfl
  | cons c t ih =>
    obtain ⟨b, w⟩ := c
    simp only [map_cons, mem_cons, not_or] at h
    have hbeq : (a == b) = false := by simpa using h.1
    rw [List.lookup_cons, hbeq]
    exact ih h.2

/-- a label lookup does not depend on the order in which the (distinct) labels are listed -/
theorem lookup_perm {c d : List (String × Nat)} (hn : (c.map Prod.fst).Nodup) (hp : c ~ d) (a : String) :
    c.lookup a = d.lookup a := by
  have hnd : (d.map Prod.fst).Nodup := (hp.map Prod.fst).nodup_iff.mp hn
  cases hd : d.lookup a with
  | some v => exact lookup_of_mem hn (hp.symm.subset (mem_of_lookup_eq_some hd))
  | none =>
    apply lookup_eq_none_of_not_mem
    intro hmem
    obtain ⟨⟨b, v⟩, hbv, hb⟩ := mem_map.mp hmem
    simp only at hb; subst hb
    have := lookup_of_mem hnd (hp.subset hbv)
    rw [hd] at this; cases this

theorem indexOf_of_mem {a : String} {l : List String} (h : a ∈ l) :
    ∃ i, indexOf a l = some i ∧ l[i]? = some a := by
  induction l with
  | nil => simp at h
  | cons b t ih =>
    by_cases hab : a = b
    · subst hab; exact ⟨0, by simp [indexOf], by simp⟩
    · have ht : a ∈ t := by
        rcases mem_cons.mp h with rfl | h'
        · exact absurd rfl hab
        · exact h'
      obtain ⟨i, h1, h2⟩ := ih ht
      refine ⟨i + 1, ?_, by simpa using h2⟩
      have hbeq : (a == b) = false := by simpa using hab
      simp [indexOf, hbeq, h1]

/-- with distinct names, the first column called `R.name` is `R`'s -/
theorem indexOf_name {rs : List Ranking} (hn : (rs.map (·.name)).Nodup) {R : Ranking} (hR : R ∈ rs) :
    ∃ j, indexOf R.name (rs.map (·.name)) = some j ∧ rs[j]? = some R := by
  induction rs with
  | nil => simp at hR
  | cons S t ih =>
    simp only [map_cons, nodup_cons] at hn
    rcases mem_cons.mp hR with rfl | ht
    · exact ⟨0, by simp [indexOf], by simp⟩
    · have hne : R.name ≠ S.name := by
        intro h
        exact hn.1 (h ▸ mem_map.mpr ⟨R, ht, rfl⟩)
      obtain ⟨j, h1, h2⟩ := ih hn.2 ht
      refine ⟨j + 1, ?_, by simpa using h2⟩
      have hbeq : (R.name == S.name) = false := by simpa using hne
      simp [indexOf, hbeq, h1]

theorem mem_insertLabel {x a : String} {l : List String} : x ∈ insertLabel a l ↔ x = a ∨ x ∈ l := by
  induction l with
  | nil => simp [insertLabel]
  | cons b t ih =>
    simp only [insertLabel]; split
    · simp [ih]; tauto
    · simp

theorem insertLabel_perm (a : String) (l : List String) : insertLabel a l ~ a :: l := by
  induction l with
  | nil => simp [insertLabel]
  | cons b t ih =>
    simp only [insertLabel]; split
    · exact (Perm.cons b ih).trans (Perm.swap a b t)
    · exact Perm.refl _

theorem sortLabels_perm (l : List String) : sortLabels l ~ l := by
  induction l with
  | nil => simp [sortLabels]
  | cons a t ih => exact (insertLabel_perm a _).trans (Perm.cons a ih)

theorem mem_uniqLabels {x : String} {seen l : List String} :
    x ∈ uniqLabels seen l ↔ x ∈ l ∧ x ∉ seen := by
  induction l generalizing seen with
  | nil => simp [uniqLabels]
  | cons a t ih =>
    simp only [uniqLabels]; split
    · rename_i h
      have ha : a ∈ seen := by simpa using h
      rw [ih]; constructor
      · rintro ⟨h1, h2⟩; exact ⟨mem_cons_of_mem _ h1, h2⟩
      · rintro ⟨h1, h2⟩
        rcases mem_cons.mp h1 with rfl | h1
        · exact absurd ha h2
        · exact ⟨h1, h2⟩
    · rename_i h
      have ha : a ∉ seen := by simpa using h
      rw [mem_cons, ih]; constructor
      · rintro (rfl | ⟨h1, h2⟩)
        · exact ⟨mem_cons_self, ha⟩
        · exact ⟨mem_cons_of_mem _ h1, fun h' => h2 (mem_cons_of_mem _ h')⟩
      · rintro ⟨h1, h2⟩
        by_cases hxa : x = a
        · exact Or.inl hxa
        · rcases mem_cons.mp h1 with rfl | h1
          · exact absurd rfl hxa
          · exact Or.inr ⟨h1, by simp [hxa, h2]⟩

theorem uniqLabels_nodup (seen l : List String) : (uniqLabels seen l).Nodup := by
  induction l generalizing seen with
  | nil => simp [uniqLabels]
  | cons a t ih =>
    simp only [uniqLabels]; split
    · exact ih seen
    · refine nodup_cons.mpr ⟨?_, ih _⟩
      intro h
      exact (mem_uniqLabels.mp h).2 mem_cons_self

/-- every alternative of every ranking is a row of the frame -/
theorem mem_frameRows {rs : List Ranking} {R : Ranking} (hR : R ∈ rs) {a : String} (ha : a ∈ R.alts) :
    a ∈ frameRows rs := by
  cases rs with
  | nil => simp at hR
  | cons r0 t =>
    simp only [frameRows]
    split
    · rename_i hall
      rcases mem_cons.mp hR with rfl | ht
      · exact ha
      · have := (all_eq_true.mp hall) R ht
        have : R.alts = r0.alts := by simpa using this
        rw [← this]; exact ha
    · rw [(sortLabels_perm _).mem_iff, mem_append, mem_uniqLabels, mem_uniqLabels]
      by_cases h0 : a ∈ r0.alts
      · exact Or.inl ⟨h0, by simp⟩
      · right
        rcases mem_cons.mp hR with rfl | ht
        · exact absurd ha h0
        · refine ⟨mem_flatten.mpr ⟨R.alts, mem_map.mpr ⟨R, ht, rfl⟩, ha⟩, ?_⟩
          intro h
          exact h0 (mem_uniqLabels.mp h).1

/-- no alternative appears twice among the rows (given that the first ranking lists none twice) -/
theorem frameRows_nodup {r0 : Ranking} {t : List Ranking} (h0 : r0.alts.Nodup) : (frameRows (r0 :: t)).Nodup := by
  simp only [frameRows]
  split
  · exact h0
  · rw [(sortLabels_perm _).nodup_iff]
    refine Nodup.append (uniqLabels_nodup _ _) (uniqLabels_nodup _ _) ?_
    intro x h1 h2
    exact (mem_uniqLabels.mp h2).2 h1

/-- the rows are exactly the alternatives that some ranking lists -/
theorem mem_frameRows_iff {rs : List Ranking} {a : String} :
    a ∈ frameRows rs ↔ ∃ R ∈ rs, a ∈ R.alts := by
  constructor
  · intro h
    cases rs with
    | nil => simp [frameRows] at h
    | cons r0 t =>
      simp only [frameRows] at h
      split at h
      · exact ⟨r0, mem_cons_self, h⟩
      · rw [(sortLabels_perm _).mem_iff, mem_append, mem_uniqLabels, mem_uniqLabels] at h
        rcases h with ⟨h, _⟩ | ⟨h, _⟩
        · exact ⟨r0, mem_cons_self, h⟩
        · obtain ⟨l, hl, hal⟩ := mem_flatten.mp h
          obtain ⟨R, hR, rfl⟩ := mem_map.mp hl
          exact ⟨R, mem_cons_of_mem _ hR, hal⟩
  · rintro ⟨R, hR, ha⟩
    exact mem_frameRows hR ha

/-- label-based access to the frame is the label-based lookup in the ranking of that name -/
theorem toFrame_at {rs : List Ranking} (hn : (rs.map (·.name)).Nodup) {R : Ranking} (hR : R ∈ rs)
    {a : String} (ha : a ∈ frameRows rs) : (toFrame rs).at R.name a = R.rankOf a := by
  obtain ⟨i, hi1, hi2⟩ := indexOf_of_mem ha
  obtain ⟨j, hj1, hj2⟩ := indexOf_name hn hR
  simp only [Frame.at, toFrame, hi1, hj1]
  have hi : i < (frameRows rs).length := by
    by_contra hc
    rw [getElem?_eq_none (by omega)] at hi2; cases hi2
  have hj : j < rs.length := by
    by_contra hc
    rw [getElem?_eq_none (by omega)] at hj2; cases hj2
  rw [getElem?_eq_getElem hi] at hi2
  rw [getElem?_eq_getElem hj] at hj2
  have hi2 := Option.some.inj hi2
  have hj2 := Option.some.inj hj2
  simp [List.getD_eq_getElem?_getD, hi, hj, hi2, hj2]

theorem rankOf_getElem {R : Ranking} (hn : R.alts.Nodup) (hl : R.alts.length = R.values.length) (i : Nat)
    (hi : i < R.alts.length) : R.rankOf R.alts[i] = some (R.values[i]'(by omega)) := by
  unfold Ranking.rankOf Ranking.cells
  apply lookup_of_mem
  · rw [map_fst_zip (by omega)]; exact hn
  · have hz : i < (R.alts.zip R.values).length := by simp; omega
    have := getElem_mem hz
    simpa using this

theorem untied_length (r : List Nat) : (untied r).length = r.length := by
  unfold untied; split
  · exact untiedSorted_length r
  · rfl

theorem before_of_getElem {r : List Nat} {i k : Nat} (hi : i < r.length) (hk : k < r.length)
    (h : r[i] < r[k] ∨ (r[i] = r[k] ∧ i < k)) : before r i k := by
  unfold before
  rw [List.getD_eq_getElem?_getD, List.getD_eq_getElem?_getD, getElem?_eq_getElem hi, getElem?_eq_getElem hk]
  simpa using h

theorem untiedSorted_lt {r : List Nat} {i k : Nat} (hi : i < r.length) (hk : k < r.length)
    (h : before r i k) :
    (untiedSorted r)[i]'(by rw [untiedSorted_length]; exact hi)
      < (untiedSorted r)[k]'(by rw [untiedSorted_length]; exact hk) := by
  rw [untiedSorted_getElem r i hi, untiedSorted_getElem r k hk,
    ← countBefore_split r i (by omega), ← countBefore_split r k (by omega)]
  have := countBefore_lt hi h
  omega

end Skc.Untied
