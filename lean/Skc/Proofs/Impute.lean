import Skc.Model.Impute
import Mathlib.Data.List.Sort
import Mathlib.Algebra.BigOperators.Group.List.Basic
import Mathlib.Algebra.Field.Defs
import Mathlib.Order.Defs.LinearOrder
import Mathlib.Data.Nat.Cast.Defs
import Mathlib.Tactic.Common
set_option linter.unusedSectionVars false

/-! Helper lemmas for C15 (`Skc/Model/Impute.lean`): cells of the filled matrix, the three
statistics against their specifications, executable forms of the contract. -/
namespace Skc.Impute

/-! ## cells, shape -/
section cells
variable {α : Type}

theorem fillCell_some (st : Option α) (x : α) : fillCell st (some x) = some x := rfl
theorem fillCell_none (st : Option α) : fillCell st none = st := rfl

theorem fillRow_length (stats : List (Option α)) (row : List (Option α)) :
    (fillRow stats row).length = row.length := by
  simp [fillRow]

theorem fillRow_getElem? (stats : List (Option α)) (row : List (Option α)) (j : Nat) :
    (fillRow stats row)[j]? = (row[j]?).map (fillCell (stats[j]?).join) := by
  simp [fillRow, List.getElem?_mapIdx]

theorem cellAt_map_fillRow (stats : List (Option α)) (M : OMat α) (i j : Nat) :
    cellAt (M.map (fillRow stats)) i j = (cellAt M i j).map (fillCell (stats[j]?).join) := by
  unfold cellAt
  rw [List.getElem?_map]
  cases M[i]? with
  | none => rfl
  | some r => simp [fillRow_getElem?]

theorem map_fillRow_shape (stats : List (Option α)) (M : OMat α) :
    (M.map (fillRow stats)).map List.length = M.map List.length := by
  rw [List.map_map]
  apply List.map_congr_left
  intro r _
  exact fillRow_length stats r

theorem width_of_rect {M : OMat α} {n : Nat} (h : Rect M n) (hne : M ≠ []) : width M = n := by
  cases M with
  | nil => exact absurd rfl hne
  | cons r t => exact h r (List.mem_cons_self)

theorem cellAt_some_iff {M : OMat α} {i j : Nat} {c : Option α} :
    cellAt M i j = some c ↔ ∃ r, M[i]? = some r ∧ r[j]? = some c := by
  unfold cellAt
  cases M[i]? with
  | none => simp
  | some r => simp

theorem mem_colOf {M : OMat α} {j : Nat} {c : Option α} :
    c ∈ colOf M j ↔ ∃ i, cellAt M i j = some c := by
  unfold colOf
  rw [List.mem_filterMap]
  constructor
  · rintro ⟨r, hr, hc⟩
    obtain ⟨i, hi⟩ := List.mem_iff_getElem?.mp hr
    exact ⟨i, cellAt_some_iff.mpr ⟨r, hi, hc⟩⟩
  · rintro ⟨i, hi⟩
    obtain ⟨r, hr, hc⟩ := cellAt_some_iff.mp hi
    exact ⟨r, List.mem_iff_getElem?.mpr ⟨i, hr⟩, hc⟩

theorem mem_observed {c : List (Option α)} {x : α} : x ∈ observed c ↔ some x ∈ c := by
  unfold observed
  rw [List.mem_filterMap]
  constructor
  · rintro ⟨a, ha, h⟩; simp only [id] at h; exact h ▸ ha
  · intro h; exact ⟨some x, h, rfl⟩

/-- criterion `j` has an observed value iff the list of its observed values is not empty -/
theorem hasObserved_iff {M : OMat α} {j : Nat} : HasObserved M j ↔ observed (colOf M j) ≠ [] := by
  unfold HasObserved
  constructor
  · rintro ⟨x, hx⟩ h
    have := mem_observed.mpr hx
    rw [h] at this
    exact absurd this (List.not_mem_nil)
  · intro h
    obtain ⟨x, hx⟩ := List.exists_mem_of_ne_nil _ h
    exact ⟨x, mem_observed.mp hx⟩

/-! executable forms of the contract -/

theorem completeB_iff (M : OMat α) : completeB M = true ↔ Complete M := by
  unfold completeB Complete
  simp only [List.all_eq_true]
  constructor
  · intro h r hr c hc hn
    have := h r hr c hc
    rw [hn] at this
    exact absurd this (by simp)
  · intro h r hr c hc
    cases c with
    | none => exact absurd rfl (h r hr none hc)
    | some x => rfl

theorem sameShapeB_iff (M R : OMat α) : sameShapeB M R = true ↔ SameShape M R := by
  unfold sameShapeB SameShape
  exact beq_iff_eq

theorem observedKeptB_iff [DecidableEq α] (M R : OMat α) :
    observedKeptB M R = true ↔ ObservedKept M R := by
  unfold observedKeptB ObservedKept
  simp only [List.all_eq_true]
  constructor
  · intro h i j x hx
    obtain ⟨r, hr, hc⟩ := cellAt_some_iff.mp hx
    have h1 := h (r, i) (List.mem_zipIdx_iff_getElem?.mpr hr) (some x, j)
      (List.mem_zipIdx_iff_getElem?.mpr hc)
    simpa using h1
  · intro h ri hri cj hcj
    have hr := List.mem_zipIdx_iff_getElem?.mp hri
    have hc := List.mem_zipIdx_iff_getElem?.mp hcj
    cases hcx : cj.1 with
    | none => rfl
    | some x =>
      rw [hcx] at hc
      simpa using h ri.2 cj.2 x (cellAt_some_iff.mpr ⟨ri.1, hr, hc⟩)

end cells

/-! ## specifications of the statistics -/
section specs
variable {α : Type}

/-- `v` is the mean of `obs`: the sum of the values divided by their number -/
def IsMean [Add α] [Zero α] [Div α] [NatCast α] (obs : List α) (v : α) : Prop :=
  v = obs.sum / (obs.length : α)

/-- `v` is the median of `obs`: in THE sorted arrangement of `obs` it is the middle value (odd
number of values) or the mean of the two middle ones (even number). Stated for every sorted
arrangement; there is exactly one (`sorted_arrangement_exists`, `sorted_arrangement_unique`). -/
def IsMedian [LE α] [Add α] [Div α] [OfNat α 2] (obs : List α) (v : α) : Prop :=
  ∀ srt : List α, srt.Perm obs → srt.Pairwise (· ≤ ·) →
    (srt.length % 2 = 1 → srt[srt.length / 2]? = some v) ∧
    (srt.length % 2 = 0 → ∃ a b, srt[srt.length / 2 - 1]? = some a ∧ srt[srt.length / 2]? = some b ∧
      v = (a + b) / 2)

/-- `v` is the smallest mode of `obs`: a value of `obs` of maximal count, and no value of the same
count is smaller -/
def IsSmallestMode [LE α] [BEq α] (obs : List α) (v : α) : Prop :=
  v ∈ obs ∧ (∀ y ∈ obs, obs.count y ≤ obs.count v) ∧ (∀ y ∈ obs, obs.count y = obs.count v → v ≤ y)

end specs

section stats
variable {α : Type} [Field α] [LinearOrder α]

theorem sortLE_eq_insertionSort (l : List α) : sortLE l = l.insertionSort (· ≤ ·) := by
  induction l with
  | nil => rfl
  | cons x t ih =>
    simp only [sortLE, List.insertionSort_cons, ih]
    generalize List.insertionSort (· ≤ ·) t = u
    induction u with
    | nil => rfl
    | cons y u ihu => simp only [insertLE, List.orderedInsert, ihu]

theorem sortLE_perm (l : List α) : (sortLE l).Perm l := by
  rw [sortLE_eq_insertionSort]; exact List.perm_insertionSort _ _

theorem sortLE_pairwise (l : List α) : (sortLE l).Pairwise (· ≤ ·) := by
  rw [sortLE_eq_insertionSort]; exact List.pairwise_insertionSort _ _

theorem sortLE_length (l : List α) : (sortLE l).length = l.length := (sortLE_perm l).length_eq

/-- a list has a sorted arrangement … -/
theorem sorted_arrangement_exists (obs : List α) :
    ∃ srt : List α, srt.Perm obs ∧ srt.Pairwise (· ≤ ·) :=
  ⟨sortLE obs, sortLE_perm obs, sortLE_pairwise obs⟩

/-- … and only one -/
theorem sorted_arrangement_unique {obs s t : List α} (hs : s.Perm obs) (hs' : s.Pairwise (· ≤ ·))
    (ht : t.Perm obs) (ht' : t.Pairwise (· ≤ ·)) : s = t :=
  List.Perm.eq_of_pairwise' (r := (· ≤ ·)) hs' ht' (hs.trans ht.symm)

theorem sumL_eq_sum (l : List α) : sumL l = l.sum := by
  unfold sumL
  rw [List.sum_eq_foldl]

theorem meanOf_spec (obs : List α) : IsMean obs (meanOf obs) := by
  unfold IsMean meanOf
  rw [sumL_eq_sum]

theorem medianOf_spec {obs : List α} {v : α} (h : medianOf obs = some v) : IsMedian obs v := by
  intro srt hp hs
  have : srt = sortLE obs :=
    sorted_arrangement_unique hp hs (sortLE_perm obs) (sortLE_pairwise obs)
  subst this
  unfold medianOf at h
  simp only at h
  constructor
  · intro hodd
    rw [if_pos hodd] at h
    exact h
  · intro heven
    rw [if_neg (by omega)] at h
    cases ha : (sortLE obs)[(sortLE obs).length / 2 - 1]? with
    | none => rw [ha] at h; simp at h
    | some a =>
      cases hb : (sortLE obs)[(sortLE obs).length / 2]? with
      | none => rw [ha, hb] at h; simp at h
      | some b =>
        rw [ha, hb] at h
        simp only [Option.some.injEq] at h
        refine ⟨a, b, rfl, rfl, ?_⟩
        rw [← h, Nat.cast_ofNat]

theorem medianOf_isSome {obs : List α} (h : obs ≠ []) : ∃ v, medianOf obs = some v := by
  have hl : 0 < (sortLE obs).length := by
    rw [sortLE_length]; exact List.length_pos_of_ne_nil h
  unfold medianOf
  simp only
  by_cases hodd : (sortLE obs).length % 2 = 1
  · rw [if_pos hodd]
    have : (sortLE obs).length / 2 < (sortLE obs).length := by omega
    exact ⟨_, List.getElem?_eq_getElem this⟩
  · rw [if_neg hodd]
    have h1 : (sortLE obs).length / 2 - 1 < (sortLE obs).length := by omega
    have h2 : (sortLE obs).length / 2 < (sortLE obs).length := by omega
    rw [List.getElem?_eq_getElem h1, List.getElem?_eq_getElem h2]
    exact ⟨_, rfl⟩

/-- the scan invariant: `best` is the smallest most frequent value (frequency `f`) of the
processed prefix `pre` -/
def ModeInv (f : α → Nat) (pre : List α) : Option α → Prop
  | none => pre = []
  | some b => b ∈ pre ∧ (∀ y ∈ pre, f y ≤ f b) ∧ (∀ y ∈ pre, f y = f b → b ≤ y)

def stepF (f : α → Nat) (best : Option α) (x : α) : Option α :=
  match best with
  | none => some x
  | some b => if f b < f x then some x else some b

theorem modeInv_foldl (f : α → Nat) (s pre : List α) (best : Option α)
    (hinv : ModeInv f pre best) (hsorted : (pre ++ s).Pairwise (· ≤ ·)) :
    ModeInv f (pre ++ s) (s.foldl (stepF f) best) := by
  induction s generalizing pre best with
  | nil => simpa using hinv
  | cons x s ih =>
    have hx : ∀ y ∈ pre, y ≤ x := by
      intro y hy
      exact (List.pairwise_append.mp hsorted).2.2 y hy x (List.mem_cons_self)
    have hsorted' : ((pre ++ [x]) ++ s).Pairwise (· ≤ ·) := by simpa using hsorted
    have key : ModeInv f (pre ++ [x]) (stepF f best x) := by
      cases best with
      | none =>
        simp only [ModeInv] at hinv
        subst hinv
        simp [stepF, ModeInv]
      | some b =>
        obtain ⟨hb, hmax, hmin⟩ := hinv
        by_cases hlt : f b < f x
        · simp only [stepF, if_pos hlt, ModeInv]
          refine ⟨by simp, ?_, ?_⟩
          · intro y hy
            rcases List.mem_append.mp hy with hy | hy
            · exact le_of_lt (lt_of_le_of_lt (hmax y hy) hlt)
            · simp only [List.mem_singleton] at hy; subst hy; exact le_refl _
          · intro y hy heq
            rcases List.mem_append.mp hy with hy | hy
            · have := hmax y hy; omega
            · simp only [List.mem_singleton] at hy; subst hy; exact le_refl _
        · simp only [stepF, if_neg hlt, ModeInv]
          refine ⟨List.mem_append_left _ hb, ?_, ?_⟩
          · intro y hy
            rcases List.mem_append.mp hy with hy | hy
            · exact hmax y hy
            · simp only [List.mem_singleton] at hy; subst hy; omega
          · intro y hy heq
            rcases List.mem_append.mp hy with hy | hy
            · exact hmin y hy heq
            · simp only [List.mem_singleton] at hy; subst hy; exact hx b hb
    have := ih (pre ++ [x]) (stepF f best x) key hsorted'
    simpa using this

theorem modeStep_eq (obs : List α) : modeStep obs = stepF (fun y => obs.count y) := by
  funext best x
  cases best <;> rfl

theorem modeOf_inv (obs : List α) : ModeInv (fun y => obs.count y) (sortLE obs) (modeOf obs) := by
  unfold modeOf
  rw [modeStep_eq]
  have := modeInv_foldl (fun y => obs.count y) (sortLE obs) [] none rfl
    (by simpa using sortLE_pairwise obs)
  simpa using this

theorem modeOf_spec {obs : List α} {v : α} (h : modeOf obs = some v) : IsSmallestMode obs v := by
  have hinv := modeOf_inv obs
  rw [h] at hinv
  obtain ⟨hv, hmax, hmin⟩ := hinv
  have hm : ∀ y, y ∈ sortLE obs ↔ y ∈ obs := fun y => (sortLE_perm obs).mem_iff
  exact ⟨(hm v).mp hv, fun y hy => hmax y ((hm y).mpr hy), fun y hy => hmin y ((hm y).mpr hy)⟩

theorem modeOf_isSome {obs : List α} (h : obs ≠ []) : ∃ v, modeOf obs = some v := by
  have hinv := modeOf_inv obs
  cases hm : modeOf obs with
  | some v => exact ⟨v, rfl⟩
  | none =>
    rw [hm] at hinv
    simp only [ModeInv] at hinv
    have := sortLE_length obs
    rw [hinv] at this
    exact absurd (List.eq_nil_of_length_eq_zero this.symm) h

/-- what `statistics_[j]` is, strategy by strategy, for a column with an observed value -/
def IsStat (s : Strategy α) (obs : List α) (v : α) : Prop :=
  match s with
  | .mean => IsMean obs v
  | .median => IsMedian obs v
  | .mostFrequent => IsSmallestMode obs v
  | .constant f => v = f.getD 0

theorem statOf_spec {s : Strategy α} {obs : List α} {v : α} (hne : obs ≠ [])
    (h : statOf s obs = some v) : IsStat s obs v := by
  cases s with
  | mean =>
    have : obs.isEmpty = false := by cases obs <;> simp_all
    simp only [statOf, this, Bool.false_eq_true, if_false, Option.some.injEq] at h
    subst h
    exact meanOf_spec obs
  | median => exact medianOf_spec h
  | mostFrequent => exact modeOf_spec h
  | constant f =>
    simp only [statOf, Option.some.injEq] at h
    exact h.symm

theorem statOf_isSome (s : Strategy α) {obs : List α} (hne : obs ≠ []) : ∃ v, statOf s obs = some v := by
  cases s with
  | mean =>
    have : obs.isEmpty = false := by cases obs <;> simp_all
    exact ⟨meanOf obs, by simp only [statOf, this, Bool.false_eq_true, if_false]⟩
  | median => exact medianOf_isSome hne
  | mostFrequent => exact modeOf_isSome hne
  | constant f => exact ⟨_, rfl⟩

theorem statOf_nil (s : Strategy α) :
    statOf s [] = match s with | .constant f => some (f.getD 0) | _ => none := by
  cases s <;> rfl

theorem stat_of_statOf {s : Strategy α} {k : Bool} {obs : List α} {v : α} (h : statOf s obs = some v) :
    stat s k obs = some v := by
  simp [stat, h]

theorem stat_spec {s : Strategy α} {k : Bool} {obs : List α} {v : α} (hne : obs ≠ [])
    (h : stat s k obs = some v) : IsStat s obs v := by
  obtain ⟨w, hw⟩ := statOf_isSome s hne
  rw [stat_of_statOf hw] at h
  cases h
  exact statOf_spec hne hw

/-! ## the filled matrix -/

theorem statistics_length (s : Strategy α) (k : Bool) (M : OMat α) :
    (statistics s k M).length = width M := by
  simp [statistics]

theorem statistics_getElem? (s : Strategy α) (k : Bool) (M : OMat α) {j : Nat} (hj : j < width M) :
    (statistics s k M)[j]? = some (stat s k (observed (colOf M j))) := by
  simp [statistics, hj]

theorem simpleImpute_ok_iff (s : Strategy α) (k : Bool) (M R : OMat α) :
    simpleImpute s k M = .ok R ↔
      (statistics s k M).all Option.isSome = true ∧ R = M.map (fillRow (statistics s k M)) := by
  unfold simpleImpute
  simp only
  by_cases h : (statistics s k M).all Option.isSome = true
  · rw [if_pos h]
    constructor
    · intro e; cases e; exact ⟨h, rfl⟩
    · rintro ⟨_, rfl⟩; rfl
  · rw [if_neg h]
    constructor
    · intro e; cases e
    · rintro ⟨h', _⟩; exact absurd h' h

theorem simpleImpute_error_iff (s : Strategy α) (k : Bool) (M : OMat α) :
    simpleImpute s k M = .error .valueError ↔ (statistics s k M).all Option.isSome = false := by
  unfold simpleImpute
  simp only
  by_cases h : (statistics s k M).all Option.isSome = true
  · rw [if_pos h]; simp [h]
  · rw [if_neg h]; simpa using h

/-- when every column has an observed value every statistic exists -/
theorem statistics_all_isSome (s : Strategy α) (k : Bool) (M : OMat α)
    (hobs : ∀ j, j < width M → HasObserved M j) :
    (statistics s k M).all Option.isSome = true := by
  rw [List.all_eq_true]
  intro st hst
  obtain ⟨j, hj⟩ := List.mem_iff_getElem?.mp hst
  have hjw : j < width M := by
    have := (List.getElem?_eq_some_iff.mp hj).1
    rwa [statistics_length] at this
  rw [statistics_getElem? s k M hjw] at hj
  obtain ⟨v, hv⟩ := statOf_isSome s (hasObserved_iff.mp (hobs j hjw))
  rw [stat_of_statOf hv] at hj
  cases hj
  rfl

end stats

end Skc.Impute
