import Skc.Model.Num
import Mathlib.Order.Basic
import Mathlib.Data.Fintype.Card
import Mathlib.Data.Finset.Card
import Mathlib.Order.Fin.Basic
import Mathlib.Tactic

/-! Definition of (strict) dominance under each criterion's own objective, and its order laws
(used by C06, C07, C12, C14). -/
namespace Skc
open Finset

variable {α : Type*} [LinearOrder α] {n : ℕ}

/-- `x` is better than `y` under objective `o` -/
def better (o : Obj) (x y : α) : Prop := match o with | .max => y < x | .min => x < y
instance (o : Obj) (x y : α) : Decidable (better o x y) := by unfold better; cases o <;> infer_instance

/-- `x` is at least as good as `y` -/
def atLeast (o : Obj) (x y : α) : Prop := ¬ better o y x
instance (o : Obj) (x y : α) : Decidable (atLeast o x y) := by unfold atLeast; infer_instance

theorem better_irrefl (o : Obj) (x : α) : ¬ better o x x := by cases o <;> simp [better]
theorem better_asymm {o : Obj} {x y : α} (h : better o x y) : ¬ better o y x := by
  cases o <;> simp only [better] at * <;> exact lt_asymm h
theorem better_trans {o : Obj} {x y z : α} (h1 : better o x y) (h2 : better o y z) : better o x z := by
  cases o <;> simp only [better] at * <;> [exact lt_trans h2 h1; exact lt_trans h1 h2]
theorem better_trichotomy (o : Obj) (x y : α) : better o x y ∨ x = y ∨ better o y x := by
  cases o <;> simp only [better] <;> rcases lt_trichotomy x y with h | h | h <;> simp [h]
theorem atLeast_iff {o : Obj} {x y : α} : atLeast o x y ↔ better o x y ∨ x = y := by
  unfold atLeast
  rcases better_trichotomy o x y with h | h | h
  · simp [h, better_asymm h]
  · subst h; simp [better_irrefl]
  · simp only [h, not_true_eq_false, false_iff, not_or]
    exact ⟨better_asymm h, fun e => better_irrefl o x (e ▸ h)⟩
theorem atLeast_max {x y : α} : atLeast .max x y ↔ y ≤ x := by simp [atLeast, better]
theorem atLeast_min {x y : α} : atLeast .min x y ↔ x ≤ y := by simp [atLeast, better]
theorem atLeast_better_trans {o : Obj} {x y z : α} (h1 : atLeast o x y) (h2 : better o y z) : better o x z := by
  rcases atLeast_iff.mp h1 with h | h
  · exact better_trans h h2
  · exact h ▸ h2
theorem better_atLeast_trans {o : Obj} {x y z : α} (h1 : better o x y) (h2 : atLeast o y z) : better o x z := by
  rcases atLeast_iff.mp h2 with h | h
  · exact better_trans h1 h
  · exact h ▸ h1
theorem atLeast_trans {o : Obj} {x y z : α} (h1 : atLeast o x y) (h2 : atLeast o y z) : atLeast o x z := by
  rcases atLeast_iff.mp h1 with h | h
  · exact atLeast_iff.mpr (Or.inl (better_atLeast_trans h h2))
  · exact h ▸ h2

/-- `a` dominates `b`: nowhere worse, somewhere better -/
def dominates (o : Fin n → Obj) (a b : Fin n → α) : Prop :=
  (∀ j, atLeast (o j) (a j) (b j)) ∧ ∃ j, better (o j) (a j) (b j)
/-- `a` strictly dominates `b`: better everywhere (at least one criterion) -/
def sdominates (o : Fin n → Obj) (a b : Fin n → α) : Prop := 0 < n ∧ ∀ j, better (o j) (a j) (b j)

instance (o : Fin n → Obj) (a b : Fin n → α) : Decidable (dominates o a b) := by unfold dominates atLeast; infer_instance
instance (o : Fin n → Obj) (a b : Fin n → α) : Decidable (sdominates o a b) := by unfold sdominates; infer_instance

theorem dominates_irrefl (o : Fin n → Obj) (a : Fin n → α) : ¬ dominates o a a :=
  fun ⟨_, j, hj⟩ => better_irrefl _ _ hj
theorem dominates_asymm {o : Fin n → Obj} {a b : Fin n → α} (h : dominates o a b) : ¬ dominates o b a :=
  fun ⟨h2, _⟩ => let ⟨j, hj⟩ := h.2; h2 j hj
theorem dominates_trans {o : Fin n → Obj} {a b c : Fin n → α} (h1 : dominates o a b) (h2 : dominates o b c) :
    dominates o a c :=
  ⟨fun j => atLeast_trans (h1.1 j) (h2.1 j), let ⟨j, hj⟩ := h1.2; ⟨j, better_atLeast_trans hj (h2.1 j)⟩⟩
theorem sdominates_dominates {o : Fin n → Obj} {a b : Fin n → α} (h : sdominates o a b) : dominates o a b :=
  ⟨fun j => fun hb => better_asymm (h.2 j) hb, ⟨⟨0, h.1⟩, h.2 _⟩⟩
theorem sdominates_trans {o : Fin n → Obj} {a b c : Fin n → α} (h1 : sdominates o a b) (h2 : sdominates o b c) :
    sdominates o a c := ⟨h1.1, fun j => better_trans (h1.2 j) (h2.2 j)⟩

/-- the counts kept by the accessor -/
def btCount (o : Fin n → Obj) (a b : Fin n → α) : ℕ := (univ.filter fun j => better (o j) (a j) (b j)).card
def eqCount (a b : Fin n → α) : ℕ := (univ.filter fun j => a j = b j).card

theorem counts_sum (o : Fin n → Obj) (a b : Fin n → α) : btCount o a b + btCount o b a + eqCount a b = n := by
  unfold btCount eqCount
  have hd1 : Disjoint (univ.filter fun j => better (o j) (a j) (b j)) (univ.filter fun j => better (o j) (b j) (a j)) := by
    rw [disjoint_filter]; intro j _ h; exact better_asymm h
  have hd2 : Disjoint ((univ.filter fun j => better (o j) (a j) (b j)) ∪ (univ.filter fun j => better (o j) (b j) (a j)))
      (univ.filter fun j => a j = b j) := by
    rw [disjoint_left]; intro j hj he
    simp only [mem_union, mem_filter, mem_univ, true_and] at hj he
    rcases hj with h | h <;> exact better_irrefl (o j) (b j) (he ▸ h)
  rw [← card_union_of_disjoint hd1, ← card_union_of_disjoint hd2]
  have : (univ.filter fun j => better (o j) (a j) (b j)) ∪ (univ.filter fun j => better (o j) (b j) (a j)) ∪
      (univ.filter fun j => a j = b j) = univ := by
    ext j; simp only [mem_union, mem_filter, mem_univ, true_and, iff_true]
    rcases better_trichotomy (o j) (a j) (b j) with h | h | h <;> simp [h]
  rw [this]; simp

theorem dominates_iff_counts (o : Fin n → Obj) (a b : Fin n → α) :
    dominates o a b ↔ 0 < btCount o a b ∧ btCount o b a = 0 := by
  unfold dominates btCount atLeast
  rw [card_pos, card_eq_zero, filter_eq_empty_iff]
  constructor
  · rintro ⟨h1, j, hj⟩; exact ⟨⟨j, by simp [hj]⟩, fun j _ => h1 j⟩
  · rintro ⟨⟨j, hj⟩, h2⟩; exact ⟨fun j => h2 (mem_univ j), j, by simpa using hj⟩

theorem sdominates_iff_counts (o : Fin n → Obj) (a b : Fin n → α) :
    sdominates o a b ↔ eqCount a b = 0 ∧ 0 < btCount o a b ∧ btCount o b a = 0 := by
  constructor
  · intro h
    have hd := (dominates_iff_counts o a b).mp (sdominates_dominates h)
    refine ⟨?_, hd⟩
    unfold eqCount; rw [card_eq_zero, filter_eq_empty_iff]
    intro j _ he; exact better_irrefl (o j) (b j) (he ▸ h.2 j)
  · rintro ⟨he, hpos, hz⟩
    have hs := counts_sum o a b
    refine ⟨by omega, fun j => ?_⟩
    unfold eqCount at he; rw [card_eq_zero, filter_eq_empty_iff] at he
    unfold btCount at hz; rw [card_eq_zero, filter_eq_empty_iff] at hz
    rcases better_trichotomy (o j) (a j) (b j) with h | h | h
    · exact h
    · exact absurd h (he (mem_univ j))
    · exact absurd h (hz (mem_univ j))

end Skc
