import Skc.Proofs.Electre
import Mathlib.Logic.Equiv.Defs
import Mathlib.Algebra.BigOperators.Group.Finset.Basic
set_option linter.unusedSectionVars false

/-! ELECTRE under permutations of alternatives (rows) and criteria (columns). -/
namespace Skc.Electre
open Skc Finset

variable {m n : ℕ}
variable {α : Type} [Field α] [LinearOrder α] [IsStrictOrderedRing α]

theorem sup'_comp_perm {ι : Type} [Fintype ι] [Nonempty ι] (f : ι → α) (σ : Equiv.Perm ι) :
    univ.sup' univ_nonempty (fun i => f (σ i)) = univ.sup' univ_nonempty f := by
  apply le_antisymm
  · apply sup'_le; intro i _; exact le_sup' f (mem_univ (σ i))
  · apply sup'_le; intro i _
    have h := le_sup' (fun i => f (σ i)) (mem_univ (σ.symm i))
    simp only [Equiv.apply_symm_apply] at h
    exact h
theorem inf'_comp_perm {ι : Type} [Fintype ι] [Nonempty ι] (f : ι → α) (σ : Equiv.Perm ι) :
    univ.inf' univ_nonempty (fun i => f (σ i)) = univ.inf' univ_nonempty f := by
  apply le_antisymm
  · apply le_inf'; intro i _
    have h := inf'_le (fun i => f (σ i)) (mem_univ (σ.symm i))
    simp only [Equiv.apply_symm_apply] at h
    exact h
  · apply le_inf'; intro i _; exact inf'_le f (mem_univ (σ i))

theorem maxFin_comp_perm [NeZero n] (f : Fin n → α) (τ : Equiv.Perm (Fin n)) : (maxFin fun j => f (τ j)) = maxFin f := by
  rw [maxFin_eq_sup', maxFin_eq_sup']; exact sup'_comp_perm f τ
theorem minFin_comp_perm [NeZero n] (f : Fin n → α) (τ : Equiv.Perm (Fin n)) : (minFin fun j => f (τ j)) = minFin f := by
  rw [minFin_eq_inf', minFin_eq_inf']; exact inf'_comp_perm f τ
theorem sumFin_comp_perm (f : Fin n → α) (τ : Equiv.Perm (Fin n)) : (sumFin fun j => f (τ j)) = sumFin f := by
  rw [sumFin_eq_sum, sumFin_eq_sum]; exact Equiv.sum_comp τ f

theorem maxRange_row_perm [NeZero m] [NeZero n] (A : Mat m n α) (σ : Equiv.Perm (Fin m)) :
    maxRange (fun i => A (σ i)) = maxRange A := by
  unfold maxRange
  congr 1; funext j
  rw [maxFin_comp_perm (fun i => A i j) σ, minFin_comp_perm (fun i => A i j) σ]
theorem maxRange_col_perm [NeZero m] [NeZero n] (A : Mat m n α) (τ : Equiv.Perm (Fin n)) :
    maxRange (fun i j => A i (τ j)) = maxRange A := by
  unfold maxRange
  exact maxFin_comp_perm (fun j => (maxFin fun i => A i j) - (minFin fun i => A i j)) τ

theorem worBody_col_perm (wv : Vec n α) (isMax : Fin n → Bool) (A : Mat m n α) (τ : Equiv.Perm (Fin n)) (a b : Fin m) :
    worBody (fun j => wv (τ j)) (fun j => isMax (τ j)) (fun i j => A i (τ j)) a b = worBody wv isMax A a b := by
  unfold worBody
  split
  · rfl
  · have h1 := sumFin_comp_perm
      (fun j => if (if isMax j then decide (A b j < A a j) else decide (A a j < A b j)) = true then wv j else 0) τ
    have h2 := sumFin_comp_perm
      (fun j => if (if isMax j then decide (A a j < A b j) else decide (A b j < A a j)) = true then wv j else 0) τ
    show decide ((sumFin fun j => if (if isMax (τ j) then decide (A a (τ j) < A b (τ j)) else decide (A b (τ j) < A a (τ j))) = true then wv (τ j) else 0) ≤
        sumFin fun j => if (if isMax (τ j) then decide (A b (τ j) < A a (τ j)) else decide (A a (τ j) < A b (τ j))) = true then wv (τ j) else 0) = _
    rw [h1, h2]

end Skc.Electre
