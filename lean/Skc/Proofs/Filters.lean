import Skc.Model.Filters
import Mathlib.Data.List.Basic
import Mathlib.Data.List.Perm.Basic
import Mathlib.Data.List.Nodup
import Mathlib.Data.List.Zip
import Mathlib.Order.Basic
import Mathlib.Tactic
set_option linter.unusedSectionVars false
set_option linter.unusedVariables false

/-! Helper lemmas for C14 (criteria filters, `FilterNonDominated`). The statements a reader should
audit are in `Skc/Props/C14.lean`; here: boolean-mask selection, the closed form of the pairing
loop, the row-wise reading of the three masks, label lookup under column permutations, and the
count-based dominance of `core/dominance.py` against the definition. -/
namespace Skc.Filters

/-! ## `select` (boolean-mask indexing) -/

@[simp] theorem select_nil_left {β : Type} (xs : List β) : select [] xs = [] := by
  cases xs <;> rfl

@[simp] theorem select_nil_right {β : Type} (m : List Bool) : select m ([] : List β) = [] := by
  cases m with
  | nil => rfl
  | cons b m => cases b <;> rfl

theorem select_sublist {β : Type} (m : List Bool) (xs : List β) : (select m xs).Sublist xs := by
  induction m generalizing xs with
  | nil => simp
  | cons b m ih =>
    cases xs with
    | nil => simp
    | cons x xs =>
      cases b
      · exact (ih xs).cons x
      · exact (ih xs).cons_cons x

theorem select_zip {β γ : Type} (m : List Bool) (xs : List β) (ys : List γ) :
    select m (xs.zip ys) = (select m xs).zip (select m ys) := by
  induction m generalizing xs ys with
  | nil => simp
  | cons b m ih =>
    cases xs with
    | nil => simp
    | cons x xs =>
      cases ys with
      | nil => simp
      | cons y ys =>
        cases b
        · simpa [select] using ih xs ys
        · simpa [select] using ih xs ys

/-- a mask computed row by row selects exactly the (alternative, row) pairs whose row passes -/
theorem select_map_zip {β γ : Type} (p : γ → Bool) (ys : List γ) (xs : List β) :
    select (ys.map p) (xs.zip ys) = (xs.zip ys).filter fun q => p q.2 := by
  induction ys generalizing xs with
  | nil => simp
  | cons y ys ih =>
    cases xs with
    | nil => simp
    | cons x xs =>
      cases h : p y
      · simp [select, h, ih]
      · simp [select, h, ih]

theorem select_length_eq {β γ : Type} (m : List Bool) (xs : List β) (ys : List γ)
    (h : xs.length = ys.length) : (select m xs).length = (select m ys).length := by
  induction m generalizing xs ys with
  | nil => simp
  | cons b m ih =>
    cases xs with
    | nil => cases ys with
      | nil => simp
      | cons y ys => simp at h
    | cons x xs =>
      cases ys with
      | nil => simp at h
      | cons y ys =>
        have h' : xs.length = ys.length := by simpa using h
        cases b
        · simpa [select] using ih xs ys h'
        · simpa [select] using ih xs ys h'

/-- membership in the two parallel selections `alternatives[mask]`, `matrix[mask]` -/
theorem mem_select_zip {γ : Type} (p : γ → Bool) (alts : List String) (rows : List γ)
    (a : String) (row : γ) :
    (a, row) ∈ (select (rows.map p) alts).zip (select (rows.map p) rows) ↔
      (a, row) ∈ alts.zip rows ∧ p row = true := by
  rw [← select_zip, select_map_zip, List.mem_filter]

/-! ## the pairing loop in closed form -/

/-- the condition names a criterion of the matrix -/
def present {β : Type} (crits : List String) (c : String × β) : Bool := crits.contains c.1

theorem present_iff {β : Type} (crits : List String) (c : String × β) :
    present crits c = true ↔ c.1 ∈ crits := by
  simp [present]

theorem pairing_eq {β : Type} (crits : List String) (ig : Bool) (conds : List (String × β)) :
    pairing crits ig conds =
      if (!ig && conds.any fun c => !present crits c) = true then .error .valueError
      else .ok (conds.filter (present crits)) := by
  induction conds with
  | nil => simp [pairing]
  | cons hd tl ih =>
    obtain ⟨c, f⟩ := hd
    rw [pairing, ih]
    have hp : present crits (c, f) = crits.contains c := rfl
    simp only [List.any_cons, List.filter_cons, hp]
    cases hm : crits.contains c <;> cases ig <;>
      cases ha : (tl.any fun c => !present crits c) <;> simp

theorem transformData_eq {α β : Type}
    (mk : List String → List (String × β) → List (List α) → List Bool)
    (crits alts : List String) (rows : List (List α)) (conds : List (String × β)) (ig : Bool) :
    transformData mk crits alts rows conds ig =
      if (!ig && conds.any fun c => !present crits c) = true then .error .valueError
      else if (conds.filter (present crits)).isEmpty = true then .ok (alts, rows)
      else .ok (select (mk crits (conds.filter (present crits)) rows) alts,
                select (mk crits (conds.filter (present crits)) rows) rows) := by
  unfold transformData
  rw [pairing_eq]
  by_cases h : (!ig && conds.any fun c => !present crits c) = true
  · rw [if_pos h, if_pos h]
  · rw [if_neg h, if_neg h]

/-! ## the masks, row by row -/

/-- a row passes: every usable condition holds on the value found under the label it names -/
def rowPass {α β : Type} (test : β → α → Bool) (crits : List String) (cs : List (String × β))
    (row : List α) : Bool :=
  cs.all fun c =>
    match cellOf crits row c.1 with
    | some x => test c.2 x
    | none => false

theorem rowPass_iff {α β : Type} (test : β → α → Bool) (crits : List String)
    (cs : List (String × β)) (row : List α) :
    rowPass test crits cs row = true ↔
      ∀ c ∈ cs, ∃ x, cellOf crits row c.1 = some x ∧ test c.2 x = true := by
  unfold rowPass
  rw [List.all_eq_true]
  constructor
  · intro h c hc
    have := h c hc
    split at this
    · rename_i x hx; exact ⟨x, hx, this⟩
    · exact absurd this (by simp)
  · intro h c hc
    obtain ⟨x, hx, ht⟩ := h c hc
    simp only [hx, ht]

theorem rowPass_nil {α β : Type} (test : β → α → Bool) (crits : List String) (row : List α) :
    rowPass test crits ([] : List (String × β)) row = true := by
  simp [rowPass]

theorem rowPass_perm {α β : Type} (test : β → α → Bool) (crits : List String)
    {cs cs' : List (String × β)} (h : cs.Perm cs') (row : List α) :
    rowPass test crits cs row = rowPass test crits cs' row := by
  rw [Bool.eq_iff_iff, rowPass_iff, rowPass_iff]
  exact ⟨fun hx c hc => hx c (h.mem_iff.mpr hc), fun hx c hc => hx c (h.mem_iff.mp hc)⟩

/-- the mask builders that read the matrix only through label lookup, for usable conditions -/
def RowWise {α β : Type} (mk : List String → List (String × β) → List (List α) → List Bool)
    (test : β → α → Bool) : Prop :=
  ∀ (crits : List String) (cs : List (String × β)) (rows : List (List α)),
    (∀ c ∈ cs, c.1 ∈ crits) → mk crits cs rows = rows.map (rowPass test crits cs)

theorem fnMask_rowWise {α : Type} : RowWise (fnMask (α := α)) (fun p x => p x) := by
  intro crits cs rows _
  rfl

section order
variable {α : Type} [LinearOrder α]

theorem setMask_rowWise (invert : Bool) :
    RowWise (setMask (α := α) invert) (fun s x => (s.contains x) != invert) := by
  intro crits cs rows _
  rfl

theorem cellOf_of_mem (crits : List String) (row : List α) (c : String) (h : c ∈ crits) :
    cellOf crits row c = row[crits.idxOf c]? := by
  simp [cellOf, List.idxOf_lt_length_iff.mpr h]

theorem arithMask_rowWise (r : Rel) : RowWise (arithMask (α := α) r) (fun t x => r.holds x t) := by
  intro crits cs rows hcs
  unfold arithMask rowPass
  apply List.map_congr_left
  intro row _
  simp only [List.map_map, List.zip_map', List.all_map]
  rw [Bool.eq_iff_iff, List.all_eq_true, List.all_eq_true]
  refine forall_congr' fun c => forall_congr' fun hc => ?_
  simp only [Function.comp, cellOf_of_mem crits row c.1 (hcs c hc)]
  rfl

/-- the comparison a filter class stands for, as a proposition: `x` is the cell, `t` the threshold -/
def Rel.sat (r : Rel) (x t : α) : Prop :=
  match r with
  | .gt => t < x
  | .ge => t ≤ x
  | .lt => x < t
  | .le => x ≤ t
  | .eq => x = t
  | .ne => x ≠ t

theorem Rel.holds_iff (r : Rel) (x t : α) : r.holds x t = true ↔ r.sat x t := by
  cases r <;> simp [Rel.holds, Rel.sat]

end order

/-! ## generic facts about `transformData` -/

section generic
variable {α β : Type}
variable (mk : List String → List (String × β) → List (List α) → List Bool)
variable (test : β → α → Bool)

theorem filter_present_mem (crits : List String) (conds : List (String × β)) :
    ∀ c ∈ conds.filter (present crits), c.1 ∈ crits := by
  intro c hc
  exact (present_iff crits c).mp (List.mem_filter.mp hc).2

theorem gen_error_iff (crits alts : List String) (rows : List (List α))
    (conds : List (String × β)) (ig : Bool) :
    transformData mk crits alts rows conds ig = .error .valueError ↔
      ig = false ∧ ∃ c ∈ conds, c.1 ∉ crits := by
  rw [transformData_eq]
  have hany : (conds.any fun c => !present crits c) = true ↔ ∃ c ∈ conds, c.1 ∉ crits := by
    simp [present]
  by_cases h1 : (!ig && conds.any fun c => !present crits c) = true
  · rw [if_pos h1]
    simp only [Bool.and_eq_true, Bool.not_eq_true'] at h1
    simp only [true_iff]
    exact ⟨h1.1, hany.mp h1.2⟩
  · rw [if_neg h1]
    have : ¬ (ig = false ∧ ∃ c ∈ conds, c.1 ∉ crits) := by
      rintro ⟨hig, hex⟩
      apply h1
      simp only [Bool.and_eq_true, Bool.not_eq_true']
      exact ⟨hig, hany.mpr hex⟩
    constructor
    · intro h; split at h <;> cases h
    · intro h; exact absurd h this

theorem gen_ok_or_error (crits alts : List String) (rows : List (List α))
    (conds : List (String × β)) (ig : Bool) :
    (∃ res, transformData mk crits alts rows conds ig = .ok res) ∨
      transformData mk crits alts rows conds ig = .error .valueError := by
  rw [transformData_eq]
  split
  · exact Or.inr rfl
  · split <;> exact Or.inl ⟨_, rfl⟩

theorem gen_survive_iff (hmk : RowWise mk test) (crits alts : List String) (rows : List (List α))
    (conds : List (String × β)) (ig : Bool) (res : List String × List (List α))
    (h : transformData mk crits alts rows conds ig = .ok res) (a : String) (row : List α) :
    (a, row) ∈ res.1.zip res.2 ↔
      (a, row) ∈ alts.zip rows ∧
        ∀ c ∈ conds, c.1 ∈ crits → ∃ x, cellOf crits row c.1 = some x ∧ test c.2 x = true := by
  rw [transformData_eq] at h
  have hq : (∀ c ∈ conds.filter (present crits),
        ∃ x, cellOf crits row c.1 = some x ∧ test c.2 x = true) ↔
      ∀ c ∈ conds, c.1 ∈ crits → ∃ x, cellOf crits row c.1 = some x ∧ test c.2 x = true := by
    constructor
    · intro hx c hc hp
      exact hx c (List.mem_filter.mpr ⟨hc, (present_iff crits c).mpr hp⟩)
    · intro hx c hc
      have := List.mem_filter.mp hc
      exact hx c this.1 ((present_iff crits c).mp this.2)
  split at h
  · exact absurd h (by simp)
  · split at h
    · rename_i hemp
      have hres : res = (alts, rows) := by
        injection h with h; exact h.symm
      subst hres
      rw [List.isEmpty_iff] at hemp
      rw [← hq, hemp]
      simp
    · have hres : res = (select (mk crits (conds.filter (present crits)) rows) alts,
          select (mk crits (conds.filter (present crits)) rows) rows) := by
        injection h with h; exact h.symm
      subst hres
      rw [hmk crits _ rows (filter_present_mem crits conds)]
      simp only
      rw [mem_select_zip, rowPass_iff, hq]

theorem gen_conds_perm (hmk : RowWise mk test) (crits alts : List String) (rows : List (List α))
    {conds conds' : List (String × β)} (hp : conds.Perm conds') (ig : Bool) :
    transformData mk crits alts rows conds ig = transformData mk crits alts rows conds' ig := by
  rw [transformData_eq, transformData_eq]
  have hany : (conds.any fun c => !present crits c) = (conds'.any fun c => !present crits c) := by
    rw [Bool.eq_iff_iff, List.any_eq_true, List.any_eq_true]
    exact ⟨fun ⟨c, hc, h⟩ => ⟨c, hp.mem_iff.mp hc, h⟩, fun ⟨c, hc, h⟩ => ⟨c, hp.mem_iff.mpr hc, h⟩⟩
  have hf : (conds.filter (present crits)).Perm (conds'.filter (present crits)) := hp.filter _
  have hemp : (conds.filter (present crits)).isEmpty = (conds'.filter (present crits)).isEmpty := by
    rw [Bool.eq_iff_iff, List.isEmpty_iff, List.isEmpty_iff]
    exact ⟨fun h => by rw [h] at hf; exact hf.symm.eq_nil, fun h => by rw [h] at hf; exact hf.eq_nil⟩
  have hmask : mk crits (conds.filter (present crits)) rows =
      mk crits (conds'.filter (present crits)) rows := by
    rw [hmk crits _ rows (filter_present_mem crits conds),
      hmk crits _ rows (filter_present_mem crits conds')]
    apply List.map_congr_left
    intro row _
    exact rowPass_perm test crits hf row
  rw [hany, hemp, hmask]

theorem gen_ignore (crits alts : List String) (rows : List (List α))
    (conds : List (String × β)) :
    transformData mk crits alts rows conds true =
      transformData mk crits alts rows (conds.filter (present crits)) false := by
  rw [transformData_eq, transformData_eq]
  have h1 : ((conds.filter (present crits)).any fun c => !present crits c) = false := by
    rw [List.any_eq_false]
    intro c hc
    simp [(List.mem_filter.mp hc).2]
  have hff : (conds.filter (present crits)).filter (present crits) = conds.filter (present crits) :=
    List.filter_eq_self.mpr fun c hc => (List.mem_filter.mp hc).2
  rw [hff, h1]
  simp

theorem gen_ignore_absent (crits alts : List String) (rows : List (List α))
    (pre post : List (String × β)) (c : String × β) (hc : c.1 ∉ crits) :
    transformData mk crits alts rows (pre ++ c :: post) true =
      transformData mk crits alts rows (pre ++ post) true := by
  rw [gen_ignore, gen_ignore mk crits alts rows (pre ++ post)]
  have : present crits c = false := by
    rw [← Bool.not_eq_true, present_iff]; exact hc
  simp [List.filter_append, this]

theorem gen_sublist (crits alts : List String) (rows : List (List α))
    (conds : List (String × β)) (ig : Bool) (res : List String × List (List α))
    (h : transformData mk crits alts rows conds ig = .ok res) :
    (res.1.zip res.2).Sublist (alts.zip rows) ∧ res.1.Sublist alts ∧ res.2.Sublist rows ∧
      (alts.length = rows.length → res.1.length = res.2.length) := by
  rw [transformData_eq] at h
  split at h
  · exact absurd h (by simp)
  · split at h
    · have hres : res = (alts, rows) := by injection h with h; exact h.symm
      subst hres
      exact ⟨List.Sublist.refl _, List.Sublist.refl _, List.Sublist.refl _, fun h => h⟩
    · have hres : res = (select (mk crits (conds.filter (present crits)) rows) alts,
          select (mk crits (conds.filter (present crits)) rows) rows) := by
        injection h with h; exact h.symm
      subst hres
      refine ⟨?_, select_sublist _ _, select_sublist _ _, select_length_eq _ _ _⟩
      simp only
      rw [← select_zip]
      exact select_sublist _ _

/-- the result depends on the matrix only through label lookup: two presentations (criteria
labels, rows) under which every label finds the same value in corresponding rows keep the same
alternatives -/
theorem gen_lookup_invariant (hmk : RowWise mk test) (crits crits' alts : List String)
    (rows rows' : List (List α)) (conds : List (String × β)) (ig : Bool)
    (hmem : ∀ c, c ∈ crits ↔ c ∈ crits')
    (hrows : List.Forall₂ (fun row row' => ∀ c, cellOf crits row c = cellOf crits' row' c) rows rows') :
    (transformData mk crits alts rows conds ig).map (·.1) =
      (transformData mk crits' alts rows' conds ig).map (·.1) := by
  rw [transformData_eq, transformData_eq]
  have hpres : present (β := β) crits = present crits' := by
    funext c
    rw [Bool.eq_iff_iff, present_iff, present_iff]
    exact hmem c.1
  rw [hpres]
  have hmask : mk crits (conds.filter (present crits')) rows =
      mk crits' (conds.filter (present crits')) rows' := by
    rw [hmk crits _ rows (fun c hc => (hmem c.1).mpr (filter_present_mem crits' conds c hc)),
      hmk crits' _ rows' (filter_present_mem crits' conds)]
    generalize conds.filter (present crits') = cs
    induction hrows with
    | nil => rfl
    | cons hrow _ ih =>
      simp only [List.map_cons, ih]
      congr 1
      unfold rowPass
      apply List.all_congr rfl
      intro c
      rw [hrow c.1]
  rw [hmask]
  split
  · rfl
  · split <;> rfl

end generic

/-! ## label lookup and column permutations -/

theorem cellOf_eq_some_iff {α : Type} (crits : List String) (row : List α) (hnd : crits.Nodup)
    (hlen : crits.length = row.length) (c : String) (x : α) :
    cellOf crits row c = some x ↔ (c, x) ∈ crits.zip row := by
  unfold cellOf
  constructor
  · intro h
    simp only at h
    split at h
    · rename_i hi
      have hi' : crits.idxOf c < row.length := hlen ▸ hi
      rw [List.getElem?_eq_getElem hi'] at h
      injection h with h
      rw [List.mem_iff_getElem]
      refine ⟨crits.idxOf c, by simp [hi, hi'], ?_⟩
      simp [List.getElem_zip, h]
    · exact absurd h (by simp)
  · intro h
    obtain ⟨i, hi, he⟩ := List.mem_iff_getElem.mp h
    have hi1 : i < crits.length := by simp at hi; exact hi.1
    have hi2 : i < row.length := by simp at hi; exact hi.2
    rw [List.getElem_zip] at he
    injection he with h1 h2
    have hidx : crits.idxOf c = i := by
      rw [← h1]; exact List.Nodup.idxOf_getElem hnd i hi1
    simp only [hidx, hi1, if_true]
    rw [List.getElem?_eq_getElem hi2, h2]

/-- reordering the columns together with their labels does not change what a label finds -/
theorem cellOf_perm {α : Type} (crits crits' : List String) (row row' : List α) (hnd : crits.Nodup)
    (hlen : crits.length = row.length) (hlen' : crits'.length = row'.length)
    (hp : (crits.zip row).Perm (crits'.zip row')) (c : String) :
    cellOf crits row c = cellOf crits' row' c := by
  have hpc : crits.Perm crits' := by
    have := hp.map Prod.fst
    rwa [List.map_fst_zip (by omega), List.map_fst_zip (by omega)] at this
  have hnd' : crits'.Nodup := hpc.nodup_iff.mp hnd
  apply Option.ext
  intro x
  rw [cellOf_eq_some_iff crits row hnd hlen, cellOf_eq_some_iff crits' row' hnd' hlen']
  exact hp.mem_iff

/-- a column permutation of every row (same label–value pairs) preserves every lookup -/
theorem forall₂_lookup {β : Type} (crits crits' : List String) (rows rows' : List (List β))
    (hnd : crits.Nodup)
    (hcols : List.Forall₂ (fun row row' => crits.length = row.length ∧ crits'.length = row'.length ∧
      (crits.zip row).Perm (crits'.zip row')) rows rows') :
    List.Forall₂ (fun row row' => ∀ c, cellOf crits row c = cellOf crits' row' c) rows rows' := by
  induction hcols with
  | nil => exact List.Forall₂.nil
  | cons h _ ih => exact List.Forall₂.cons (cellOf_perm crits crits' _ _ hnd h.1 h.2.1 h.2.2) ih

/-! ## dominance: the counts of `rank.dominance` against the definition -/

section dominance
variable {α : Type} [LinearOrder α]

/-- `x` is better than `y` under objective `o` -/
def better (o : Obj) (x y : α) : Prop :=
  match o with
  | .max => y < x
  | .min => x < y

/-- criterion by criterion: (objective, value of `a`, value of `b`) -/
def triples (objs : List Obj) (a b : List α) : List (Obj × α × α) := objs.zip (a.zip b)

/-- `a` dominates `b`: nowhere worse, somewhere better -/
def Dominates (objs : List Obj) (a b : List α) : Prop :=
  (∀ t ∈ triples objs a b, ¬ better t.1 t.2.2 t.2.1) ∧ ∃ t ∈ triples objs a b, better t.1 t.2.1 t.2.2

/-- `a` strictly dominates `b`: better on every criterion (and there is one) -/
def SDominates (objs : List Obj) (a b : List α) : Prop :=
  triples objs a b ≠ [] ∧ ∀ t ∈ triples objs a b, better t.1 t.2.1 t.2.2

/-- the relation `FilterNonDominated(strict)` is configured with -/
def Dom (strict : Bool) (objs : List Obj) (a b : List α) : Prop :=
  if strict = true then SDominates objs a b else Dominates objs a b

theorem aDbAt_iff (o : Obj) (x y : α) : aDbAt o x y = true ↔ better o x y := by
  cases o <;> simp [aDbAt, better]

theorem better_irrefl (o : Obj) (x : α) : ¬ better o x x := by
  cases o <;> simp [better]

theorem better_asymm {o : Obj} {x y : α} (h : better o x y) : ¬ better o y x := by
  cases o <;> simp only [better] at * <;> exact lt_asymm h

theorem better_trichotomy (o : Obj) (x y : α) : better o x y ∨ x = y ∨ better o y x := by
  cases o <;> simp only [better] <;> rcases lt_trichotomy x y with h | h | h <;> simp [h]

/-- `bDa_where = ~(aDb_where | eq_where)` is "b better than a" on a linear order -/
theorem bDa_iff (o : Obj) (x y : α) :
    (!(aDbAt o x y || decide (x = y))) = true ↔ better o y x := by
  simp only [Bool.not_eq_true', Bool.or_eq_false_iff, decide_eq_false_iff_not]
  rw [← Bool.not_eq_true, aDbAt_iff]
  rcases better_trichotomy o x y with h | h | h
  · simp [h, better_asymm h]
  · subst h; simp [better_irrefl]
  · simp only [h, iff_true]
    exact ⟨better_asymm h, fun e => better_irrefl o y (by rw [e] at h; exact h)⟩

theorem mem_triples_iff (objs : List Obj) (a b : List α) (n : Nat) (ho : objs.length = n)
    (ha : a.length = n) (hb : b.length = n) (t : Obj × α × α) :
    t ∈ triples objs a b ↔ ∃ (j : Nat) (h : j < n), t = (objs[j], a[j], b[j]) := by
  unfold triples
  rw [List.mem_iff_getElem]
  constructor
  · rintro ⟨j, hj, rfl⟩
    have hj' : j < n := by simp at hj; omega
    exact ⟨j, hj', by simp [List.getElem_zip]⟩
  · rintro ⟨j, hj, rfl⟩
    exact ⟨j, by simp; omega, by simp [List.getElem_zip]⟩

/-- the verdict of `dominance(strict)` on the entry `dominance(a, b)` read directly -/
def domB (strict : Bool) (objs : List Obj) (a b : List α) : Bool :=
  let e := domEntry objs a b
  if strict && e.eq != 0 then false else decide (0 < e.aDb) && e.bDa == 0

theorem triples_swap (objs : List Obj) (a b : List α) :
    triples objs b a = (triples objs a b).map fun t => (t.1, t.2.2, t.2.1) := by
  unfold triples
  rw [← List.zip_swap a b, List.zip_map_right]
  simp [Prod.swap]

theorem domEntry_swap (objs : List Obj) (a b : List α) :
    (domEntry objs b a).eq = (domEntry objs a b).eq ∧
      (domEntry objs b a).bDa = (domEntry objs a b).aDb ∧
      (domEntry objs b a).aDb = (domEntry objs a b).bDa := by
  have hs := triples_swap objs a b
  unfold triples at hs
  simp only [domEntry, hs, List.countP_map]
  refine ⟨?_, ?_, ?_⟩
  · apply List.countP_congr
    intro t _
    simp only [Function.comp, decide_eq_true_eq]
    exact eq_comm
  · apply List.countP_congr
    intro t _
    simp only [Function.comp]
    rw [bDa_iff, aDbAt_iff]
  · apply List.countP_congr
    intro t _
    simp only [Function.comp]
    rw [bDa_iff, aDbAt_iff]

theorem domB_iff (strict : Bool) (objs : List Obj) (a b : List α) :
    domB strict objs a b = true ↔ Dom strict objs a b := by
  have haDb : 0 < (domEntry objs a b).aDb ↔ ∃ t ∈ triples objs a b, better t.1 t.2.1 t.2.2 := by
    simp only [domEntry, triples, List.countP_pos_iff, aDbAt_iff]
  have hbDa : (domEntry objs a b).bDa = 0 ↔ ∀ t ∈ triples objs a b, ¬ better t.1 t.2.2 t.2.1 := by
    simp only [domEntry, triples, List.countP_eq_zero]
    constructor
    · intro h t ht hb; exact h t ht ((bDa_iff t.1 t.2.1 t.2.2).mpr hb)
    · intro h t ht hb; exact h t ht ((bDa_iff t.1 t.2.1 t.2.2).mp hb)
  have heq : (domEntry objs a b).eq = 0 ↔ ∀ t ∈ triples objs a b, t.2.1 ≠ t.2.2 := by
    simp only [domEntry, triples, List.countP_eq_zero, decide_eq_true_eq]
  unfold domB Dom
  cases strict
  · simp only [Bool.false_and, Bool.false_eq_true, if_false, Bool.and_eq_true, decide_eq_true_eq,
      beq_iff_eq, haDb, hbDa]
    exact ⟨fun ⟨h1, h2⟩ => ⟨h2, h1⟩, fun ⟨h1, h2⟩ => ⟨h2, h1⟩⟩
  · simp only [Bool.true_and, if_true]
    by_cases he : (domEntry objs a b).eq = 0
    · have : ((domEntry objs a b).eq != 0) = false := by simp [he]
      rw [this]
      simp only [Bool.false_eq_true, if_false, Bool.and_eq_true, decide_eq_true_eq, beq_iff_eq,
        haDb, hbDa]
      rw [heq] at he
      constructor
      · rintro ⟨⟨t, ht, hb⟩, h2⟩
        refine ⟨List.ne_nil_of_mem ht, fun u hu => ?_⟩
        rcases better_trichotomy u.1 u.2.1 u.2.2 with h | h | h
        · exact h
        · exact absurd h (he u hu)
        · exact absurd h (h2 u hu)
      · rintro ⟨hne, hall⟩
        obtain ⟨t, ht⟩ := List.exists_mem_of_ne_nil _ hne
        exact ⟨⟨t, ht, hall t ht⟩, fun u hu => better_asymm (hall u hu)⟩
    · have : ((domEntry objs a b).eq != 0) = true := by simp [he]
      rw [this]
      simp only [if_true, Bool.false_eq_true, false_iff]
      rintro ⟨_, hall⟩
      apply he
      rw [heq]
      intro t ht e
      exact better_irrefl t.1 t.2.2 (by have := hall t ht; rwa [e] at this)

theorem zip_self_mem {β : Type} (a : List β) : ∀ p ∈ a.zip a, p.1 = p.2 := by
  induction a with
  | nil => simp
  | cons x xs ih =>
    intro p hp
    simp only [List.zip_cons_cons, List.mem_cons] at hp
    rcases hp with rfl | hp
    · rfl
    · exact ih p hp

/-- nothing (strictly) dominates itself -/
theorem Dom_irrefl (strict : Bool) (objs : List Obj) (a : List α) : ¬ Dom strict objs a a := by
  have hself : ∀ t ∈ triples objs a a, t.2.1 = t.2.2 := fun t ht =>
    zip_self_mem a t.2 (List.of_mem_zip (a := t.1) (b := t.2) ht).2
  unfold Dom
  cases strict
  · simp only [Bool.false_eq_true, if_false]
    rintro ⟨_, t, ht, hb⟩
    rw [hself t ht] at hb
    exact better_irrefl _ _ hb
  · simp only [if_true]
    rintro ⟨hne, hall⟩
    obtain ⟨t, ht⟩ := List.exists_mem_of_ne_nil _ hne
    have := hall t ht
    rw [hself t ht] at this
    exact better_irrefl _ _ this

theorem dominanceCell_eq (strict : Bool) (objs : List Obj) (rows : List (List α)) (i j : Nat)
    (hi : i < rows.length) (hj : j < rows.length) (hij : i ≠ j) :
    dominanceCell strict objs rows i j = domB strict objs rows[i] rows[j] := by
  unfold dominanceCell
  rw [if_neg hij]
  simp only [List.getD_eq_getElem?_getD, List.getElem?_eq_getElem hi, List.getElem?_eq_getElem hj,
    Option.getD_some]
  by_cases hlt : i < j
  · simp [hlt, domB]
  · obtain ⟨h1, h2, h3⟩ := domEntry_swap objs rows[i] rows[j]
    simp [hlt, domB, h1, h2, h3]

/-- `dominated(strict)`, row by row: some row of the matrix (strictly) dominates this one -/
theorem dominatedMask_eq (strict : Bool) (objs : List Obj) (rows : List (List α)) :
    dominatedMask strict objs rows =
      rows.map fun row => rows.any fun row' => domB strict objs row' row := by
  unfold dominatedMask
  apply List.ext_getElem
  · simp
  · intro j h1 h2
    have hj : j < rows.length := by simpa using h1
    simp only [List.getElem_map, List.getElem_range]
    rw [Bool.eq_iff_iff, List.any_eq_true, List.any_eq_true]
    constructor
    · rintro ⟨i, hi, hc⟩
      have hi' : i < rows.length := List.mem_range.mp hi
      have hij : i ≠ j := by
        rintro rfl
        simp [dominanceCell] at hc
      rw [dominanceCell_eq strict objs rows i j hi' hj hij] at hc
      exact ⟨rows[i], List.getElem_mem hi', hc⟩
    · rintro ⟨row', hr, hc⟩
      obtain ⟨i, hi, rfl⟩ := List.mem_iff_getElem.mp hr
      have hij : i ≠ j := by
        rintro rfl
        exact Dom_irrefl strict objs _ ((domB_iff strict objs _ _).mp hc)
      exact ⟨i, List.mem_range.mpr hi, by rw [dominanceCell_eq strict objs rows i j hi hj hij]; exact hc⟩

end dominance

end Skc.Filters
