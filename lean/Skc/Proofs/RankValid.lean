import Skc.Proofs.Rank

/-! `RankResult._validate_result` accepts exactly the vectors whose value set is `{1..k}`. -/
namespace Skc

theorem isort_eq_insertionSort (l : List Int) : isort l = l.insertionSort (· ≤ ·) := by
  induction l with
  | nil => rfl
  | cons x t ih =>
    simp only [isort, List.insertionSort_cons, ih]
    generalize List.insertionSort (· ≤ ·) t = u
    induction u with
    | nil => rfl
    | cons y u ihu => simp only [insertSorted, List.orderedInsert, ihu]

theorem targetRank_pairwise (k : Nat) :
    ((List.range k).map (fun (i : Nat) => (i : Int) + 1)).Pairwise (· ≤ ·) := by
  rw [List.pairwise_map]
  refine (List.pairwise_lt_range).imp ?_
  intro a b h; omega

theorem targetRank_nodup (k : Nat) : ((List.range k).map (fun (i : Nat) => (i : Int) + 1)).Nodup := by
  refine List.Nodup.map ?_ List.nodup_range
  intro a b h; simpa using h

theorem mem_targetRank (k : Nat) (r : Int) :
    r ∈ (List.range k).map (fun (i : Nat) => (i : Int) + 1) ↔ 1 ≤ r ∧ r ≤ k := by
  simp only [List.mem_map, List.mem_range]
  constructor
  · rintro ⟨i, hi, rfl⟩; omega
  · rintro ⟨h1, h2⟩; exact ⟨(r - 1).toNat, by omega, by omega⟩

theorem validRank_iff' (v : List Int) :
    validRank v = true ↔ ∀ r : Int, r ∈ v ↔ (1 ≤ r ∧ r ≤ ((distinct v).length : Int)) := by
  unfold validRank
  rw [beq_iff_eq, isort_eq_insertionSort]
  constructor
  · intro h r
    rw [← mem_distinct, ← List.mem_insertionSort (· ≤ ·), h, mem_targetRank]
  · intro h
    apply List.Perm.eq_of_pairwise' (r := (· ≤ ·))
    · exact List.pairwise_insertionSort _ _
    · exact targetRank_pairwise _
    · refine (List.perm_insertionSort _ _).trans ?_
      rw [List.perm_ext_iff_of_nodup (nodup_distinct v) (targetRank_nodup _)]
      intro r
      rw [mem_distinct, h r, mem_targetRank]

theorem kernelOf_getElem (out : List (List Bool)) (n k : Nat) (hk : k < n) :
    (kernelOf out n)[k]'(by simp [kernelOf, hk]) = true ↔ ∀ r ∈ out, r.getD k false = false := by
  simp [kernelOf]

end Skc
