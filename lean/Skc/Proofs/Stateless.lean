import Skc.Model.Stateless
/-! Helper lemmas for C20 (core Lean only). -/
namespace Skc.Stateless

variable {P S D O : Type}

/-- the inserted probe is element number `k` -/
theorem getElem?_insertAt (k : Nat) (probe : D) (hist : List D) (hk : k ≤ hist.length) :
    (insertAt k probe hist)[k]? = some probe := by
  have hlen : (hist.take k).length = k := by
    rw [List.length_take]; exact Nat.min_eq_left hk
  unfold insertAt
  rw [List.getElem?_append_right (Nat.le_of_eq hlen), hlen, Nat.sub_self]
  rfl

/-- the probe of a history whose outputs are a `map` -/
theorem probeOut_of_map (step : Step P S D O) (o : Obj P S) (f : D → O)
    (hmap : ∀ l : List D, outputs step o l = l.map f)
    (hist : List D) (probe : D) (k : Nat) (hk : k ≤ hist.length) :
    probeOut step o hist probe k = some (f probe) := by
  unfold probeOut
  rw [hmap, List.getElem?_map, getElem?_insertAt k probe hist hk]
  rfl

end Skc.Stateless
