import Skc.Proofs.RankInv
set_option linter.unusedSectionVars false
set_option linter.unusedVariables false

/-! # The clauses of C19 as predicates; what a produced experiment satisfies; soundness of the
executable checks of `checkTrace`; the order oracle; the structure of `evaluate` -/
namespace Skc.RankInv

section field
variable {α : Type} [Field α] [LinearOrder α] [IsStrictOrderedRing α]

/-! ## the clauses -/

/-- every criterion moves only in its worsening direction: down (`≤ 0`) if maximised, up if minimised -/
def Direction (objs : List Obj) (noise : List α) : Prop :=
  ∀ (j : Nat) (o : Obj) x, objs[j]? = some o → noise[j]? = some x → (o = Obj.max → x ≤ 0) ∧ (o = Obj.min → 0 ≤ x)

/-- one noise per criterion, each at most the gap in absolute value (up to `tol`) -/
def Bounded (tol : α) (gap noise : List α) : Prop :=
  noise.length = gap.length ∧ ∀ (j : Nat) b x, gap[j]? = some b → noise[j]? = some x → |x| ≤ b + tol

/-- at least one criterion strictly moves -/
def Strict (noise : List α) : Prop := ∃ x ∈ noise, x ≠ 0

/-- `d'` is `d` except possibly in the rows of alternative `a`: same labels, objectives, weights, shape -/
def SameBut (d : DM α) (a : String) (d' : DM α) : Prop :=
  d'.alts = d.alts ∧ d'.crits = d.crits ∧ d'.objs = d.objs ∧ d'.wts = d.wts ∧ d'.cells.length = d.cells.length ∧
  ∀ (i : Nat), d.alts[i]? ≠ some a → d'.cells[i]? = d.cells[i]?

/-- `r' = r + n` criterion by criterion, within `tol` -/
def AddedTol (tol : α) (r n r' : List α) : Prop :=
  r'.length = r.length ∧ n.length = r.length ∧
  ∀ (j : Nat) x m y, r[j]? = some x → n[j]? = some m → r'[j]? = some y → |y - (x + m)| ≤ tol

/-- the stored noise is the change applied to the mutated row (exactly) -/
def RecordedExact (d : DM α) (e : Exp α) : Prop :=
  ∀ (i : Nat) r, d.alts[i]? = some e.mutated → d.cells[i]? = some r → e.dm.cells[i]? = some (addRow r e.noise)

/-- the stored noise is the change applied to the mutated row, within `tol` -/
def RecordedTol (tol : α) (d : DM α) (e : Exp α) : Prop :=
  ∀ (i : Nat) r, d.alts[i]? = some e.mutated → d.cells[i]? = some r → ∃ r', e.dm.cells[i]? = some r' ∧ AddedTol tol r e.noise r'

/-! ## what a produced experiment satisfies -/

theorem withRow_sameBut (d : DM α) (a : String) (nz : List α) : SameBut d a (withRow d a nz) := by
  refine ⟨rfl, rfl, rfl, rfl, mutRows_length _ _ _ _, ?_⟩
  intro i hi
  show (mutRows d.alts d.cells a nz)[i]? = _
  rw [mutRows_getElem?, if_neg hi]

theorem withRow_recorded (d : DM α) (a : String) (nz : List α) (i : Nat) (r : List α)
    (hi : d.alts[i]? = some a) (hr : d.cells[i]? = some r) : (withRow d a nz).cells[i]? = some (addRow r nz) := by
  show (mutRows d.alts d.cells a nz)[i]? = _
  rw [mutRows_getElem?, if_pos hi, hr]; rfl

/-- the core of an accepted mutation, whichever version produced it -/
structure Core (d : DM α) (draws : Nat → α) (job : Nat × String × List α) (e : Exp α) : Prop where
  it : e.iteration = job.1
  who : e.mutated = job.2.1
  noise : ∃ p, e.noise = signNoise d.objs (drawNoise job.2.2 draws p) ∧ allZero (drawNoise job.2.2 draws p) = false
  dm : e.dm = withRow d job.2.1 e.noise
  nonneg : ∀ x ∈ job.2.2, 0 ≤ x

theorem produced_v0_core {fuel : Nat} {d : DM α} {draws : Nat → α} {job : Nat × String × List α} {e : Exp α}
    (h : Produced (mutate_v0 fuel) d draws job e) : Core d draws job e := by
  obtain ⟨pos, pos', hm, hit, hmu⟩ := h
  obtain ⟨hneg, p, -, hz, hn, hd, -⟩ := mutate_v0_ok hm
  exact ⟨hit, hmu, ⟨p, hn, hz⟩, hd, (hasNeg_false_iff _).mp hneg⟩

theorem produced_core {fuel : Nat} {d : DM α} {draws : Nat → α} {job : Nat × String × List α} {e : Exp α}
    (h : Produced (mutate fuel) d draws job e) : Core d draws job e ∧ hasRoom job.2.2 = true := by
  obtain ⟨pos, pos', hm, hit, hmu⟩ := h
  obtain ⟨hr, h0⟩ := mutate_ok hm
  exact ⟨produced_v0_core ⟨pos, pos', h0, hit, hmu⟩, hr⟩

theorem core_entry {d : DM α} {draws : Nat → α} {job : Nat × String × List α} {e : Exp α} (h : Core d draws job e) :
    ∃ p, ∀ j x, e.noise[j]? = some x → ∃ b, job.2.2[j]? = some b ∧ x = flip d.objs[j]? (b * draws (p + j)) := by
  obtain ⟨p, hn, -⟩ := h.noise
  refine ⟨p, fun j x hx => ?_⟩
  rw [hn, signNoise_getElem?, drawNoise_getElem?] at hx
  cases hb : job.2.2[j]? with
  | none => simp [hb] at hx
  | some b =>
    refine ⟨b, rfl, ?_⟩
    simp only [hb, Option.map_some, Option.some.injEq] at hx
    exact hx.symm

theorem core_direction {d : DM α} {draws : Nat → α} {job : Nat × String × List α} {e : Exp α} (h : Core d draws job e)
    (hu : ∀ i, 0 ≤ draws i ∧ draws i < 1) : Direction d.objs e.noise := by
  have hg := h.nonneg
  obtain ⟨p, hp⟩ := core_entry h
  intro j o x ho hx
  obtain ⟨b, hb, rfl⟩ := hp j x hx
  have hb0 : 0 ≤ b := hg b (List.mem_of_getElem? hb)
  have : 0 ≤ b * draws (p + j) := mul_nonneg hb0 (hu _).1
  rw [ho]
  constructor
  · rintro rfl; simpa [flip] using this
  · rintro rfl; simpa [flip] using this

theorem abs_flip (o : Option Obj) (x : α) : |flip o x| = |x| := by
  unfold flip
  split
  · exact abs_neg x
  · rfl

theorem core_bounded {d : DM α} {draws : Nat → α} {job : Nat × String × List α} {e : Exp α} (h : Core d draws job e)
    (hu : ∀ i, 0 ≤ draws i ∧ draws i < 1) : Bounded 0 job.2.2 e.noise := by
  have hg := h.nonneg
  obtain ⟨p, hp⟩ := core_entry h
  constructor
  · obtain ⟨q, hn, -⟩ := h.noise
    rw [hn, signNoise_length, drawNoise_length]
  · intro j b x hb hx
    obtain ⟨b', hb', rfl⟩ := hp j x hx
    rw [hb] at hb'
    obtain rfl : b = b' := by simpa using hb'
    have hb0 : 0 ≤ b := hg b (List.mem_of_getElem? hb)
    rw [abs_flip, abs_of_nonneg (mul_nonneg hb0 (hu _).1), add_zero]
    calc b * draws (p + j) ≤ b * 1 := mul_le_mul_of_nonneg_left (le_of_lt (hu _).2) hb0
      _ = b := mul_one b

theorem flip_ne_zero (o : Option Obj) (x : α) (hx : x ≠ 0) : flip o x ≠ 0 := by
  unfold flip
  split
  · exact neg_ne_zero.mpr hx
  · exact hx

theorem core_strict {d : DM α} {draws : Nat → α} {job : Nat × String × List α} {e : Exp α} (h : Core d draws job e) :
    Strict e.noise := by
  obtain ⟨p, hn, hz⟩ := h.noise
  have : ¬ ∀ x ∈ drawNoise job.2.2 draws p, x = 0 := by
    rw [← allZero_iff]; simp [hz]
  push Not at this
  obtain ⟨y, hy, hy0⟩ := this
  obtain ⟨j, hj, rfl⟩ := List.getElem_of_mem hy
  refine ⟨flip d.objs[j]? (drawNoise job.2.2 draws p)[j], ?_, flip_ne_zero _ _ hy0⟩
  apply List.mem_of_getElem? (i := j)
  rw [hn, signNoise_getElem?, List.getElem?_eq_getElem hj]; rfl

theorem core_sameBut {d : DM α} {draws : Nat → α} {job : Nat × String × List α} {e : Exp α} (h : Core d draws job e) :
    SameBut d e.mutated e.dm := by
  rw [h.dm, h.who]; exact withRow_sameBut _ _ _

theorem core_recorded {d : DM α} {draws : Nat → α} {job : Nat × String × List α} {e : Exp α} (h : Core d draws job e) :
    RecordedExact d e := by
  intro i r hi hr
  rw [h.dm]
  rw [h.who] at hi
  exact withRow_recorded d _ _ i r hi hr

/-! ## soundness of the executable checks -/

theorem dirOK_sound {objs : List Obj} {noise : List α} (h : dirOK objs noise = true) : Direction objs noise := by
  induction objs generalizing noise with
  | nil =>
    intro j o x ho; simp at ho
  | cons o os ih =>
    cases noise with
    | nil => intro j o' x _ hx; simp at hx
    | cons y ys =>
      intro j o' x ho hx
      cases j with
      | zero =>
        simp only [List.getElem?_cons_zero, Option.some.injEq] at ho hx
        subst ho hx
        cases o <;> simp [dirOK] at h <;> simp [h.1]
      | succ j =>
        simp only [List.getElem?_cons_succ] at ho hx
        have h' : dirOK os ys = true := by cases o <;> simp [dirOK] at h <;> exact h.2
        exact ih h' j o' x ho hx

theorem boundOK_sound {tol : α} {g noise : List α} (h : boundOK tol g noise = true) : Bounded tol g noise := by
  induction g generalizing noise with
  | nil =>
    cases noise with
    | nil => exact ⟨rfl, fun j b x hb => by simp at hb⟩
    | cons y ys => simp [boundOK] at h
  | cons b bs ih =>
    cases noise with
    | nil => simp [boundOK] at h
    | cons y ys =>
      simp only [boundOK, Bool.and_eq_true, decide_eq_true_eq] at h
      obtain ⟨hl, hr⟩ := ih h.2
      refine ⟨by simp [hl], fun j b' x hb hx => ?_⟩
      cases j with
      | zero =>
        simp only [List.getElem?_cons_zero, Option.some.injEq] at hb hx
        subst hb hx
        rw [← absV_eq_abs]; exact h.1
      | succ j =>
        simp only [List.getElem?_cons_succ] at hb hx
        exact hr j b' x hb hx

theorem strictOK_sound {noise : List α} (h : strictOK noise = true) : Strict noise := by
  simpa [strictOK, Strict] using h

theorem addOK_sound {tol : α} {r n r' : List α} (h : addOK tol r n r' = true) : AddedTol tol r n r' := by
  induction r generalizing n r' with
  | nil =>
    cases n <;> cases r' <;> simp [addOK] at h
    exact ⟨rfl, rfl, fun j x m y hx => by simp at hx⟩
  | cons x xs ih =>
    cases n with
    | nil => simp [addOK] at h
    | cons m ms =>
      cases r' with
      | nil => simp [addOK] at h
      | cons y ys =>
        simp only [addOK, Bool.and_eq_true, within, decide_eq_true_eq] at h
        obtain ⟨h1, h2, h3⟩ := ih h.2
        refine ⟨by simp [h1], by simp [h2], fun j x' m' y' hx hm hy => ?_⟩
        cases j with
        | zero =>
          simp only [List.getElem?_cons_zero, Option.some.injEq] at hx hm hy
          subst hx hm hy
          rw [← absV_eq_abs]; exact h.1
        | succ j =>
          simp only [List.getElem?_cons_succ] at hx hm hy
          exact h3 j x' m' y' hx hm hy

theorem rowsOK_sound {tol : α} {a : String} {noise : List α} {alts : List String} {cells cells' : List (List α)}
    (h : rowsOK tol a noise alts cells cells' = true) :
    cells'.length = cells.length ∧ (∀ (i : Nat), alts[i]? ≠ some a → cells'[i]? = cells[i]?) ∧
    (∀ (i : Nat) r, alts[i]? = some a → cells[i]? = some r → ∃ r', cells'[i]? = some r' ∧ AddedTol tol r noise r') := by
  induction alts generalizing cells cells' with
  | nil =>
    cases cells <;> cases cells' <;> simp [rowsOK] at h
    exact ⟨rfl, fun i _ => rfl, fun i r hi => by simp at hi⟩
  | cons b bs ih =>
    cases cells with
    | nil => simp [rowsOK] at h
    | cons r rs =>
      cases cells' with
      | nil => simp [rowsOK] at h
      | cons r' rs' =>
        simp only [rowsOK, Bool.and_eq_true] at h
        obtain ⟨h1, h2, h3⟩ := ih h.2
        refine ⟨by simp [h1], fun i hi => ?_, fun i q hi hq => ?_⟩
        · cases i with
          | zero =>
            simp only [List.getElem?_cons_zero, ne_eq, Option.some.injEq] at hi
            have := h.1
            rw [if_neg hi] at this
            simp only [decide_eq_true_eq] at this
            simp [this]
          | succ i =>
            simp only [List.getElem?_cons_succ] at hi ⊢
            exact h2 i hi
        · cases i with
          | zero =>
            simp only [List.getElem?_cons_zero, Option.some.injEq] at hi hq
            subst hq
            have := h.1
            rw [if_pos hi] at this
            exact ⟨r', by simp, addOK_sound this⟩
          | succ i =>
            simp only [List.getElem?_cons_succ] at hi hq ⊢
            exact h3 i q hi hq

/-- what the checker establishes about one recorded experiment -/
structure TraceGood (tol : α) (d : DM α) (job : Nat × String × List α) (e : Exp α) : Prop where
  it : e.iteration = job.1
  who : e.mutated = job.2.1
  same : SameBut d e.mutated e.dm
  recorded : RecordedTol tol d e
  direction : Direction d.objs e.noise
  bounded : Bounded tol job.2.2 e.noise
  strict : Strict e.noise

theorem ite_nil_iff {c : Prop} [Decidable c] {s : String} : (if c then ([] : List String) else [s]) = [] ↔ c := by
  by_cases hc : c <;> simp [hc]

theorem checkExp_sound {tol : α} {d : DM α} {job : Nat × String × List α} {e : Exp α}
    (h : checkExp tol d job e = []) : TraceGood tol d job e := by
  unfold checkExp at h
  simp only [List.append_eq_nil_iff, ite_nil_iff] at h
  obtain ⟨⟨⟨⟨⟨⟨hit, hwho⟩, hl1, hl2, hl3, hl4⟩, hrows⟩, hdir⟩, hb⟩, hs⟩ := h
  obtain ⟨r1, r2, r3⟩ := rowsOK_sound hrows
  refine ⟨hit, hwho, ⟨hl1, hl2, hl3, hl4, r1, ?_⟩, ?_, dirOK_sound hdir, boundOK_sound hb, strictOK_sound hs⟩
  · rw [hwho]; exact r2
  · intro i r hi hr
    rw [hwho] at hi
    exact r3 i r hi hr

theorem checkAll_sound {tol : α} {d : DM α} {js : List (Nat × String × List α)} {es : List (Exp α)}
    (h : checkAll tol d js es = []) : List.Forall₂ (TraceGood tol d) js es := by
  induction js generalizing es with
  | nil =>
    cases es with
    | nil => exact List.Forall₂.nil
    | cons e es => simp [checkAll] at h
  | cons j js ih =>
    cases es with
    | nil => simp [checkAll] at h
    | cons e es =>
      simp only [checkAll, List.append_eq_nil_iff] at h
      exact List.Forall₂.cons (checkExp_sound h.1) (ih h.2)

end field

/-! ## the order oracle -/

/-- `order` lists the non-best alternatives in a sort of the ranking `(alts, values)` whose head is `b` -/
structure ValidOrder (alts : List String) (values : List Nat) (order : List String) (b : String) : Prop where
  perm : (b :: order).Perm alts
  notin : b ∉ order
  sorted : (b :: order).Pairwise (fun x y => rankIn alts values x ≤ rankIn alts values y)

theorem sortedBy_pairwise (f : String → Nat) (l : List String) (h : sortedBy f l = true) :
    l.Pairwise (fun x y => f x ≤ f y) := by
  induction l with
  | nil => exact List.Pairwise.nil
  | cons a l ih =>
    cases l with
    | nil => simp
    | cons b rest =>
      simp only [sortedBy, Bool.and_eq_true, decide_eq_true_eq] at h
      have hp := ih h.2
      refine List.Pairwise.cons ?_ hp
      intro y hy
      rcases List.mem_cons.mp hy with rfl | hy
      · exact h.1
      · exact le_trans h.1 ((List.pairwise_cons.mp hp).1 y hy)

theorem isOrderOf_sound {alts : List String} {values : List Nat} {order : List String}
    (h : isOrderOf alts values order = true) : ∃ b, bestOf alts order = some b ∧ ValidOrder alts values order b := by
  unfold isOrderOf at h
  split at h
  · rename_i b hb
    simp only [Bool.and_eq_true, List.isPerm_iff] at h
    refine ⟨b, hb, h.1, ?_, sortedBy_pairwise _ _ h.2⟩
    unfold bestOf at hb
    split at hb
    · rename_i b' hf
      simp only [Option.some.injEq] at hb
      subst hb
      have : b' ∈ alts.filter (fun a => !order.contains a) := by rw [hf]; simp
      simpa using (List.mem_filter.mp this).2
    · simp at hb
  · simp at h

theorem ValidOrder.length {alts : List String} {values : List Nat} {order : List String} {b : String}
    (h : ValidOrder alts values order b) : order.length + 1 = alts.length := by
  simpa using h.perm.length_eq

/-! ## the structure of `evaluate` -/

section field
variable {α : Type} [Field α] [LinearOrder α] [IsStrictOrderedRing α]

theorem unamesLoop_length (names : List String) (tbl : List (String × Nat)) (used acc : List String) :
    (unamesLoop names tbl used acc).length = names.length + acc.length := by
  induction names generalizing tbl used acc with
  | nil => simp [unamesLoop]
  | cons n rest ih =>
    simp only [unamesLoop]
    split <;> simp [ih] <;> omega

theorem uniqueNames_length (names : List String) : (uniqueNames names).length = names.length := by
  simp [uniqueNames, unamesLoop_length]

/-- a successful `evaluate`: the original ranking was patched, the order is a sort of it over the
alternatives of `dm`, the experiments are those of `run`, each ranked and patched in turn -/
theorem evaluate_ok {dmaker : DM α → RankRes} {strat : List α → α} {fuel : Nat} {allow : Bool} {d : DM α}
    {order : List String} {draws : Nat → α} {rep : Nat} {out : Outcome α}
    (h : evaluate dmaker strat fuel allow d order draws rep = .ok out) :
    ∃ (porank : PRank α) (es : List (Exp α)) (ps : List (PRank α)) (p : Nat),
      addMutationInfo allow d.alts (dmaker d) none = .ok porank ∧
      porank.alts.Perm d.alts ∧ isOrderOf porank.alts porank.values order = true ∧
      run strat fuel d order draws rep = .ok (es, p) ∧
      List.Forall₂ (fun e q => addMutationInfo allow d.alts (dmaker e.dm) (some (e.iteration, e.mutated, e.noise)) = .ok q) es ps ∧
      out.seen = d :: es.map (·.dm) ∧
      out.ranks = (uniqueNames ("Original" :: es.map fun e => "M." ++ e.mutated)).zip (porank :: ps) := by
  unfold evaluate at h
  split at h
  · simp at h
  · rename_i porank hpo
    split at h
    · simp at h
    · rename_i hord
      have hord : porank.alts.Perm d.alts ∧ isOrderOf porank.alts porank.values order = true := by
        have : (porank.alts.isPerm d.alts && isOrderOf porank.alts porank.values order) = true := by
          cases hb : (porank.alts.isPerm d.alts && isOrderOf porank.alts porank.values order)
          · exact absurd (by simp [hb]) hord
          · rfl
        simpa [Bool.and_eq_true, List.isPerm_iff] using this
      split at h
      · simp at h
      · rename_i eps q hl
        obtain ⟨es, hes, hf⟩ := loopWith_spec hl
        simp only [Except.ok.injEq] at h
        subst h
        have key : eps.map (·.1) = es ∧
            List.Forall₂ (fun e q => addMutationInfo allow d.alts (dmaker e.dm) (some (e.iteration, e.mutated, e.noise)) = .ok q)
              es (eps.map (·.2)) := by
          clear hes hl
          induction hf with
          | nil => exact ⟨rfl, List.Forall₂.nil⟩
          | cons hk _ ih =>
            rename_i e ep es' eps'
            split at hk
            · simp at hk
            · rename_i pq hpq
              simp only [Except.ok.injEq] at hk
              subst hk
              exact ⟨by simp [ih.1], List.Forall₂.cons hpq ih.2⟩
        refine ⟨porank, es, eps.map (·.2), q, hpo, hord.1, hord.2, hes, key.2, ?_, ?_⟩
        · simp only [← key.1, List.map_map, Function.comp_def]
        · simp only [← key.1, List.map_map, Function.comp_def]

end field
section field
variable {α : Type} [Field α] [LinearOrder α] [IsStrictOrderedRing α]

/-! ## from the loop to single experiments (used by the statements of `Skc/Props/C19.lean`) -/

theorem forall₂_mem_right {β γ : Type} {R : β → γ → Prop} {l₁ : List β} {l₂ : List γ}
    (h : List.Forall₂ R l₁ l₂) {c : γ} (hc : c ∈ l₂) : ∃ b ∈ l₁, R b c := by
  induction h with
  | nil => simp at hc
  | cons hr _ ih =>
    rcases List.mem_cons.mp hc with rfl | hc
    · exact ⟨_, List.mem_cons_self, hr⟩
    · obtain ⟨b, hb, hR⟩ := ih hc
      exact ⟨b, List.mem_cons_of_mem _ hb, hR⟩

theorem forall₂_mem_left {β γ : Type} {R : β → γ → Prop} {l₁ : List β} {l₂ : List γ}
    (h : List.Forall₂ R l₁ l₂) {b : β} (hb : b ∈ l₁) : ∃ c ∈ l₂, R b c := by
  induction h with
  | nil => simp at hb
  | cons hr _ ih =>
    rcases List.mem_cons.mp hb with rfl | hb
    · exact ⟨_, List.mem_cons_self, hr⟩
    · obtain ⟨c, hc, hR⟩ := ih hb
      exact ⟨c, List.mem_cons_of_mem _ hc, hR⟩

theorem forall₂_map_eq {β γ δ : Type} {R : β → γ → Prop} {f : β → δ} {g : γ → δ} {l₁ : List β} {l₂ : List γ}
    (h : List.Forall₂ R l₁ l₂) (hfg : ∀ b c, R b c → f b = g c) : l₁.map f = l₂.map g := by
  induction h with
  | nil => rfl
  | cons hr _ ih => simp [hfg _ _ hr, ih]

theorem zip_fst (order : List String) (gaps : List (List α)) (h : gaps.length = order.length) :
    (order.zip gaps).map (·.1) = order := by
  rw [List.map_fst_zip]; omega

theorem zip_labels (order : List String) (gaps : List (List α)) (h : gaps.length = order.length) (it : Nat) :
    (order.zip gaps).map (fun r => (it, r.1)) = order.map fun a => (it, a) := by
  have := zip_fst order gaps h
  calc (order.zip gaps).map (fun r => (it, r.1)) = ((order.zip gaps).map (·.1)).map (fun a => (it, a)) := by
        simp [List.map_map, Function.comp_def]
    _ = order.map fun a => (it, a) := by rw [this]

theorem map_zip_snd {β γ δ : Type} (l₁ : List β) (l₂ : List γ) (f : γ → δ) (h : l₂.length ≤ l₁.length) :
    (l₁.zip l₂).map (fun r => f r.2) = l₂.map f := by
  rw [show (fun r : β × γ => f r.2) = f ∘ Prod.snd from rfl, ← List.map_map, List.map_snd_zip h]

theorem mem_zip_index {order : List String} {gaps : List (List α)} {a : String} {g : List α}
    (h : (a, g) ∈ order.zip gaps) : ∃ k : Nat, order[k]? = some a ∧ gaps[k]? = some g := by
  obtain ⟨k, hk⟩ := List.mem_iff_getElem?.mp h
  exact ⟨k, List.getElem?_zip_eq_some.mp hk⟩

theorem run_spec {strat : List α → α} {fuel : Nat} {d : DM α} {order : List String} {draws : Nat → α} {rep : Nat}
    {es : List (Exp α)} {p : Nat} (h : run strat fuel d order draws rep = .ok (es, p)) :
    List.Forall₂ (Produced (mutate fuel) d draws) (jobs (order.zip (maxAbsNoises strat d order)) rep) es :=
  loopWith_ok h

/-- every experiment is the accepted mutation of one alternative of `order` with its own gap row -/
theorem exp_job {strat : List α → α} {fuel : Nat} {d : DM α} {order : List String} {draws : Nat → α} {rep : Nat}
    {es : List (Exp α)} {p : Nat} (h : run strat fuel d order draws rep = .ok (es, p)) {e : Exp α} (he : e ∈ es) :
    ∃ (k : Nat) (g : List α), order[k]? = some e.mutated ∧ (maxAbsNoises strat d order)[k]? = some g ∧
      e.iteration < rep ∧ Core d draws (e.iteration, e.mutated, g) e ∧ hasRoom g = true := by
  obtain ⟨job, hjob, hp⟩ := forall₂_mem_right (run_spec h) he
  obtain ⟨hc, hroom⟩ := produced_core hp
  obtain ⟨hit, hmem⟩ := mem_jobs hjob
  obtain ⟨k, hk1, hk2⟩ := mem_zip_index hmem
  obtain ⟨it, a, g⟩ := job
  have h1 : e.iteration = it := hc.it
  have h2 : e.mutated = a := hc.who
  subst h1 h2
  exact ⟨k, g, hk1, hk2, hit, hc, hroom⟩

end field
end Skc.RankInv
