import Skc.Model.RankInv
import Mathlib.Algebra.Order.Field.Basic
import Mathlib.Algebra.Order.AbsoluteValue.Basic
import Mathlib.Data.List.Basic
import Mathlib.Data.List.Perm.Basic
import Mathlib.Data.List.Forall2
import Mathlib.Tactic
set_option linter.unusedSectionVars false
set_option linter.unusedVariables false

/-! # Lemmas about the rank-reversal model (`Skc/Model/RankInv.lean`) used by `Skc/Props/C19.lean` -/
namespace Skc.RankInv

section field
variable {α : Type} [Field α] [LinearOrder α] [IsStrictOrderedRing α]

theorem absV_eq_abs (x : α) : absV x = |x| := by
  unfold absV
  split
  · rw [abs_of_neg ‹_›]
  · rw [abs_of_nonneg (not_lt.mp ‹_›)]

/-! ## `drawNoise` -/

theorem drawNoise_length (g : List α) (draws : Nat → α) (pos : Nat) : (drawNoise g draws pos).length = g.length := by
  induction g generalizing pos with
  | nil => rfl
  | cons x xs ih => simp [drawNoise, ih]

theorem drawNoise_getElem? (g : List α) (draws : Nat → α) (pos j : Nat) :
    (drawNoise g draws pos)[j]? = g[j]?.map (fun b => b * draws (pos + j)) := by
  induction g generalizing pos j with
  | nil => simp [drawNoise]
  | cons x xs ih =>
    cases j with
    | zero => simp [drawNoise]
    | succ j => simp [drawNoise, ih, Nat.add_assoc, Nat.add_comm 1 j]

theorem drawNoise_congr (g : List α) (draws draws' : Nat → α) (pos : Nat)
    (h : ∀ i, pos ≤ i → i < pos + g.length → draws i = draws' i) : drawNoise g draws pos = drawNoise g draws' pos := by
  induction g generalizing pos with
  | nil => rfl
  | cons x xs ih =>
    simp only [drawNoise]
    rw [h pos (le_refl _) (by simp), ih (pos + 1) (fun i h1 h2 => h i (by omega) (by simp; omega))]

theorem allZero_iff (l : List α) : allZero l = true ↔ ∀ x ∈ l, x = 0 := by
  simp [allZero]

theorem drawNoise_zero (g : List α) (draws : Nat → α) (pos : Nat) (hg : ∀ x ∈ g, x = 0) :
    allZero (drawNoise g draws pos) = true := by
  rw [allZero_iff]
  intro x hx
  obtain ⟨j, hj, rfl⟩ := List.getElem_of_mem hx
  have := drawNoise_getElem? g draws pos j
  rw [List.getElem?_eq_getElem hj] at this
  rw [drawNoise_length] at hj
  rw [List.getElem?_eq_getElem hj] at this
  simp at this
  rw [this, hg _ (List.getElem_mem hj), zero_mul]

/-! ## the redraw loop -/

theorem drawUntilNonzero_some {fuel : Nat} {g : List α} {draws : Nat → α} {pos : Nat} {nz : List α} {pos' : Nat}
    (h : drawUntilNonzero fuel g draws pos = some (nz, pos')) :
    ∃ p, pos ≤ p ∧ nz = drawNoise g draws p ∧ allZero nz = false ∧ pos' = p + g.length := by
  induction fuel generalizing pos with
  | zero => simp [drawUntilNonzero] at h
  | succ n ih =>
    simp only [drawUntilNonzero] at h
    split at h
    · obtain ⟨p, hp, rest⟩ := ih h
      exact ⟨p, by omega, rest⟩
    · rename_i hz
      simp only [Option.some.injEq, Prod.mk.injEq] at h
      obtain ⟨rfl, rfl⟩ := h
      exact ⟨pos, le_refl _, rfl, by simpa using hz, rfl⟩

/-- the pre-fix loop on a row without room: no draw is ever accepted -/
theorem drawUntilNonzero_zero (fuel : Nat) (g : List α) (draws : Nat → α) (pos : Nat) (hg : ∀ x ∈ g, x = 0) :
    drawUntilNonzero fuel g draws pos = none := by
  induction fuel generalizing pos with
  | zero => rfl
  | succ n ih =>
    simp only [drawUntilNonzero]
    rw [if_pos (drawNoise_zero g draws pos hg)]
    exact ih _

theorem drawUntilNonzero_congr {fuel : Nat} {g : List α} {draws draws' : Nat → α} {pos : Nat} {nz : List α} {pos' : Nat}
    (h : drawUntilNonzero fuel g draws pos = some (nz, pos')) (hd : ∀ i < pos', draws i = draws' i) :
    drawUntilNonzero fuel g draws' pos = some (nz, pos') := by
  induction fuel generalizing pos with
  | zero => simp [drawUntilNonzero] at h
  | succ n ih =>
    obtain ⟨p, hp, -, -, hpos'⟩ := drawUntilNonzero_some h
    have hc : drawNoise g draws pos = drawNoise g draws' pos :=
      drawNoise_congr g draws draws' pos (fun i h1 h2 => hd i (by omega))
    simp only [drawUntilNonzero] at h ⊢
    rw [← hc]
    split at h
    · rename_i hz
      rw [if_pos hz]
      exact ih h
    · rename_i hz
      rw [if_neg hz]
      exact h

/-! ## `signNoise`, `mutRows` -/

theorem signNoise_length (os : List Obj) (xs : List α) : (signNoise os xs).length = xs.length := by
  induction os generalizing xs with
  | nil => cases xs <;> simp [signNoise]
  | cons o os ih =>
    cases xs with
    | nil => cases o <;> simp [signNoise]
    | cons x xs => cases o <;> simp [signNoise, ih]

/-- what `noise[dm.maxwhere] *= -1` does to entry `j` -/
def flip (o : Option Obj) (x : α) : α :=
  match o with
  | some .max => -x
  | _ => x

theorem signNoise_getElem? (os : List Obj) (xs : List α) (j : Nat) :
    (signNoise os xs)[j]? = xs[j]?.map (flip os[j]?) := by
  induction os generalizing xs j with
  | nil =>
    have hf : (flip (none : Option Obj) : α → α) = id := by funext x; rfl
    cases xs <;> simp [signNoise, hf]
  | cons o os ih =>
    cases xs with
    | nil => cases o <;> simp [signNoise]
    | cons x xs =>
      cases j with
      | zero => cases o <;> simp [signNoise, flip]
      | succ j => cases o <;> simp [signNoise, ih]

theorem mutRows_length (alts : List String) (cells : List (List α)) (a : String) (nz : List α) :
    (mutRows alts cells a nz).length = cells.length := by
  induction alts generalizing cells with
  | nil => simp [mutRows]
  | cons b bs ih =>
    cases cells with
    | nil => simp [mutRows]
    | cons r rs => simp [mutRows, ih]

theorem mutRows_getElem? (alts : List String) (cells : List (List α)) (a : String) (nz : List α) (i : Nat) :
    (mutRows alts cells a nz)[i]? = if alts[i]? = some a then cells[i]?.map (fun r => addRow r nz) else cells[i]? := by
  induction alts generalizing cells i with
  | nil => simp [mutRows]
  | cons b bs ih =>
    cases cells with
    | nil => simp [mutRows]
    | cons r rs =>
      cases i with
      | zero =>
        simp only [mutRows, List.getElem?_cons_zero, Option.some.injEq, Option.map_some]
        split <;> rfl
      | succ i => simp [mutRows, ih]

/-! ## `mutate` -/

theorem mutate_v0_ok {fuel : Nat} {d : DM α} {a : String} {g : List α} {draws : Nat → α} {pos : Nat}
    {md : DM α} {noise : List α} {pos' : Nat} (h : mutate_v0 fuel d a g draws pos = .ok (md, noise, pos')) :
    hasNeg g = false ∧
    ∃ p, pos ≤ p ∧ allZero (drawNoise g draws p) = false ∧ noise = signNoise d.objs (drawNoise g draws p) ∧
      md = withRow d a noise ∧ pos' = p + g.length := by
  unfold mutate_v0 at h
  split at h
  · simp at h
  · rename_i hneg
    refine ⟨by simpa using hneg, ?_⟩
    split at h
    · simp at h
    · rename_i nz q hq
      obtain ⟨p, hp, rfl, hz, rfl⟩ := drawUntilNonzero_some hq
      simp only [Except.ok.injEq, Prod.mk.injEq] at h
      obtain ⟨rfl, rfl, rfl⟩ := h
      exact ⟨p, hp, hz, rfl, rfl, rfl⟩

theorem hasNeg_false_iff (g : List α) : hasNeg g = false ↔ ∀ x ∈ g, 0 ≤ x := by
  simp [hasNeg]

theorem mutate_ok {fuel : Nat} {d : DM α} {a : String} {g : List α} {draws : Nat → α} {pos : Nat}
    {r : DM α × List α × Nat} (h : mutate fuel d a g draws pos = .ok r) :
    hasRoom g = true ∧ mutate_v0 fuel d a g draws pos = .ok r := by
  unfold mutate at h
  split at h
  · exact ⟨‹_›, h⟩
  · simp at h

theorem hasRoom_iff (g : List α) : hasRoom g = true ↔ ∃ x ∈ g, 0 < x := by
  simp [hasRoom]

theorem mutate_v0_congr {fuel : Nat} {d : DM α} {a : String} {g : List α} {draws draws' : Nat → α} {pos : Nat}
    {md : DM α} {noise : List α} {pos' : Nat} (h : mutate_v0 fuel d a g draws pos = .ok (md, noise, pos'))
    (hd : ∀ i < pos', draws i = draws' i) : mutate_v0 fuel d a g draws' pos = .ok (md, noise, pos') := by
  unfold mutate_v0 at h ⊢
  split at h
  · simp at h
  · rename_i hneg
    rw [if_neg hneg]
    split at h
    · simp at h
    · rename_i nz q hq
      have hq' : q = pos' := by
        simp only [Except.ok.injEq, Prod.mk.injEq] at h
        exact h.2.2
      subst hq'
      rw [drawUntilNonzero_congr hq hd]
      exact h

theorem mutate_congr {fuel : Nat} {d : DM α} {a : String} {g : List α} {draws draws' : Nat → α} {pos : Nat}
    {md : DM α} {noise : List α} {pos' : Nat} (h : mutate fuel d a g draws pos = .ok (md, noise, pos'))
    (hd : ∀ i < pos', draws i = draws' i) : mutate fuel d a g draws' pos = .ok (md, noise, pos') := by
  obtain ⟨hr, h0⟩ := mutate_ok h
  unfold mutate
  rw [if_pos hr]
  exact mutate_v0_congr h0 hd

/-! ## the loop -/

/-- experiment `e` is what the mutation function returned for job `(iteration, alternative, gap row)` -/
def Produced (mutf : DM α → String → List α → (Nat → α) → Nat → Except Err (DM α × List α × Nat))
    (d : DM α) (draws : Nat → α) (job : Nat × String × List α) (e : Exp α) : Prop :=
  ∃ pos pos', mutf d job.2.1 job.2.2 draws pos = .ok (e.dm, e.noise, pos') ∧ e.iteration = job.1 ∧ e.mutated = job.2.1

theorem loopWith_ok {mutf : DM α → String → List α → (Nat → α) → Nat → Except Err (DM α × List α × Nat)}
    {d : DM α} {draws : Nat → α} {js : List (Nat × String × List α)} {pos : Nat} {es : List (Exp α)} {p : Nat}
    (h : loopWith mutf (fun e => .ok e) d draws js pos = .ok (es, p)) : List.Forall₂ (Produced mutf d draws) js es := by
  induction js generalizing pos es p with
  | nil =>
    simp only [loopWith, Except.ok.injEq, Prod.mk.injEq] at h
    obtain ⟨rfl, rfl⟩ := h
    exact List.Forall₂.nil
  | cons j js ih =>
    obtain ⟨it, a, g⟩ := j
    simp only [loopWith] at h
    split at h
    · simp at h
    · rename_i md noise pos' hm
      split at h
      · simp at h
      · rename_i bs q hl
        simp only [Except.ok.injEq, Prod.mk.injEq] at h
        obtain ⟨rfl, rfl⟩ := h
        exact List.Forall₂.cons ⟨pos, pos', hm, rfl, rfl⟩ (ih hl)

theorem loopWith_spec {β : Type} {mutf : DM α → String → List α → (Nat → α) → Nat → Except Err (DM α × List α × Nat)}
    {k : Exp α → Except Err β} {d : DM α} {draws : Nat → α} {js : List (Nat × String × List α)} {pos : Nat}
    {bs : List β} {p : Nat} (h : loopWith mutf k d draws js pos = .ok (bs, p)) :
    ∃ es, loopWith mutf (fun e => .ok e) d draws js pos = .ok (es, p) ∧ List.Forall₂ (fun e b => k e = .ok b) es bs := by
  induction js generalizing pos bs p with
  | nil =>
    simp only [loopWith, Except.ok.injEq, Prod.mk.injEq] at h
    obtain ⟨rfl, rfl⟩ := h
    exact ⟨[], rfl, List.Forall₂.nil⟩
  | cons j js ih =>
    obtain ⟨it, a, g⟩ := j
    simp only [loopWith] at h
    split at h
    · simp at h
    · rename_i md noise pos' hm
      split at h
      · simp at h
      · rename_i b hk
        split at h
        · simp at h
        · rename_i bs' q hl
          simp only [Except.ok.injEq, Prod.mk.injEq] at h
          obtain ⟨rfl, rfl⟩ := h
          obtain ⟨es, hes, hf⟩ := ih hl
          refine ⟨⟨it, a, noise, md⟩ :: es, ?_, List.Forall₂.cons hk hf⟩
          simp only [loopWith, hm, hes]

theorem mutate_pos_le {fuel : Nat} {d : DM α} {a : String} {g : List α} {draws : Nat → α} {pos : Nat}
    {md : DM α} {noise : List α} {pos' : Nat} (h : mutate fuel d a g draws pos = .ok (md, noise, pos')) : pos ≤ pos' := by
  obtain ⟨-, p, hp, -, -, -, rfl⟩ := mutate_v0_ok (mutate_ok h).2
  omega

theorem loop_pos_le {fuel : Nat} {d : DM α} {draws : Nat → α} {js : List (Nat × String × List α)} {pos : Nat}
    {es : List (Exp α)} {p : Nat} (h : loopWith (mutate fuel) (fun e => .ok e) d draws js pos = .ok (es, p)) : pos ≤ p := by
  induction js generalizing pos es p with
  | nil =>
    simp only [loopWith, Except.ok.injEq, Prod.mk.injEq] at h
    omega
  | cons j js ih =>
    obtain ⟨it, a, g⟩ := j
    simp only [loopWith] at h
    split at h
    · simp at h
    · rename_i md noise pos' hm
      split at h
      · simp at h
      · rename_i bs q hl
        simp only [Except.ok.injEq, Prod.mk.injEq] at h
        obtain ⟨-, rfl⟩ := h
        have := mutate_pos_le hm
        have := ih hl
        omega

theorem loop_congr {fuel : Nat} {d : DM α} {draws draws' : Nat → α} {js : List (Nat × String × List α)} {pos : Nat}
    {es : List (Exp α)} {p : Nat} (h : loopWith (mutate fuel) (fun e => .ok e) d draws js pos = .ok (es, p))
    (hd : ∀ i < p, draws i = draws' i) : loopWith (mutate fuel) (fun e => .ok e) d draws' js pos = .ok (es, p) := by
  induction js generalizing pos es p with
  | nil => simpa [loopWith] using h
  | cons j js ih =>
    obtain ⟨it, a, g⟩ := j
    simp only [loopWith] at h ⊢
    split at h
    · simp at h
    · rename_i md noise pos' hm
      split at h
      · simp at h
      · rename_i bs q hl
        simp only [Except.ok.injEq, Prod.mk.injEq] at h
        obtain ⟨rfl, rfl⟩ := h
        have hle := loop_pos_le hl
        rw [mutate_congr hm (fun i hi => hd i (by omega))]
        simp only [ih hl hd]

/-! ## the iteration space -/

theorem jobs_length (rows : List (String × List α)) (rep : Nat) : (jobs rows rep).length = rows.length * rep := by
  unfold jobs
  induction rep with
  | zero => simp
  | succ n ih =>
    rw [List.range_succ, List.flatMap_append, List.length_append, ih]
    simp [Nat.mul_succ]

theorem mem_jobs {rows : List (String × List α)} {rep : Nat} {j : Nat × String × List α} (h : j ∈ jobs rows rep) :
    j.1 < rep ∧ (j.2.1, j.2.2) ∈ rows := by
  unfold jobs at h
  simp only [List.mem_flatMap, List.mem_range, List.mem_map] at h
  obtain ⟨it, hit, r, hr, rfl⟩ := h
  exact ⟨hit, hr⟩

theorem jobs_labels (rows : List (String × List α)) (rep : Nat) :
    (jobs rows rep).map (fun j => (j.1, j.2.1)) = (List.range rep).flatMap fun it => rows.map fun r => (it, r.1) := by
  unfold jobs
  simp [List.map_flatMap, Function.comp_def]

/-! ## the gap table -/

theorem consecGaps_length (rows : List (List α)) : (consecGaps rows).length = rows.length - 1 := by
  induction rows with
  | nil => rfl
  | cons r rs ih =>
    cases rs with
    | nil => rfl
    | cons r' rest =>
      simp only [consecGaps, List.length_cons] at ih ⊢
      omega

theorem maxAbsNoises_length (strat : List α → α) (d : DM α) (order : List String) :
    (maxAbsNoises strat d order).length = order.length := by
  cases order with
  | nil => rfl
  | cons a as => simp [maxAbsNoises, consecGaps_length]

theorem consecGaps_nonneg (rows : List (List α)) : ∀ g ∈ consecGaps rows, ∀ x ∈ g, 0 ≤ x := by
  induction rows with
  | nil => simp [consecGaps]
  | cons r rs ih =>
    cases rs with
    | nil => simp [consecGaps]
    | cons r' rest =>
      intro g hg x hx
      simp only [consecGaps, List.mem_cons] at hg
      rcases hg with rfl | hg
      · unfold absDiff at hx
        obtain ⟨j, hj, rfl⟩ := List.getElem_of_mem hx
        simp only [List.getElem_zipWith, absV_eq_abs]
        exact abs_nonneg _
      · exact ih g hg x hx

/-- the gap rows are non-negative as soon as the strategy maps non-negative gaps to a non-negative bound
(`median`, `mean`, `max`, `min`, … do) -/
theorem maxAbsNoises_nonneg (strat : List α → α) (hstrat : ∀ l, (∀ x ∈ l, 0 ≤ x) → 0 ≤ strat l)
    (d : DM α) (order : List String) : ∀ g ∈ maxAbsNoises strat d order, ∀ x ∈ g, 0 ≤ x := by
  cases order with
  | nil => simp [maxAbsNoises]
  | cons a as =>
    intro g hg x hx
    simp only [maxAbsNoises, List.mem_append, List.mem_singleton] at hg
    rcases hg with hg | rfl
    · exact consecGaps_nonneg _ g hg x hx
    · simp only [lastGap, List.mem_map, List.mem_range] at hx
      obtain ⟨j, -, rfl⟩ := hx
      apply hstrat
      intro y hy
      simp only [column, List.mem_map] at hy
      obtain ⟨r, hr, rfl⟩ := hy
      rw [List.getD_eq_getElem?_getD]
      cases hrj : r[j]? with
      | none => simp
      | some v =>
        simp only [Option.getD_some]
        exact consecGaps_nonneg _ r hr v (List.mem_of_getElem? hrj)

/-- two identical consecutive alternatives leave the first of them no room -/
theorem absDiff_self (r : List α) : ∀ x ∈ absDiff r r, x = 0 := by
  intro x hx
  unfold absDiff at hx
  obtain ⟨j, hj, rfl⟩ := List.getElem_of_mem hx
  simp [absV_eq_abs]

/-! ## the built-in strategies map non-negative gaps to a non-negative bound -/

theorem foldl_nonneg (f : α → α → α) (hf : ∀ a b, 0 ≤ a → 0 ≤ b → 0 ≤ f a b) (t : List α) (acc : α)
    (hacc : 0 ≤ acc) (ht : ∀ y ∈ t, 0 ≤ y) : 0 ≤ t.foldl f acc := by
  induction t generalizing acc with
  | nil => simpa using hacc
  | cons y ys ih =>
    simp only [List.foldl_cons]
    exact ih _ (hf _ _ hacc (ht y List.mem_cons_self)) (fun z hz => ht z (List.mem_cons_of_mem _ hz))

theorem maxL_nonneg : ∀ l : List α, (∀ x ∈ l, 0 ≤ x) → 0 ≤ maxL l := by
  intro l hl
  cases l with
  | nil => simp [maxL]
  | cons x t =>
    simp only [maxL]
    refine foldl_nonneg _ (fun a b ha hb => ?_) t x (hl x List.mem_cons_self) (fun y hy => hl y (List.mem_cons_of_mem _ hy))
    split <;> assumption

theorem minL_nonneg : ∀ l : List α, (∀ x ∈ l, 0 ≤ x) → 0 ≤ minL l := by
  intro l hl
  cases l with
  | nil => simp [minL]
  | cons x t =>
    simp only [minL]
    refine foldl_nonneg _ (fun a b ha hb => ?_) t x (hl x List.mem_cons_self) (fun y hy => hl y (List.mem_cons_of_mem _ hy))
    split <;> assumption

theorem mean_nonneg : ∀ l : List α, (∀ x ∈ l, 0 ≤ x) → 0 ≤ mean l := by
  intro l hl
  unfold mean
  split
  · exact le_refl _
  · exact div_nonneg (foldl_nonneg _ (fun a b ha hb => add_nonneg ha hb) l 0 (le_refl _) hl) (Nat.cast_nonneg _)

theorem mem_insertLE (x y : α) (l : List α) : y ∈ insertLE x l ↔ y = x ∨ y ∈ l := by
  induction l with
  | nil => simp [insertLE]
  | cons z t ih =>
    simp only [insertLE]
    split
    · simp
    · simp only [List.mem_cons, ih]; tauto

theorem mem_sortLE (y : α) (l : List α) : y ∈ sortLE l ↔ y ∈ l := by
  induction l with
  | nil => simp [sortLE]
  | cons x t ih => simp [sortLE, mem_insertLE, ih]

theorem getD_nonneg (l : List α) (i : Nat) (hl : ∀ x ∈ l, 0 ≤ x) : 0 ≤ l.getD i 0 := by
  rw [List.getD_eq_getElem?_getD]
  cases h : l[i]? with
  | none => simp
  | some v => simpa using hl v (List.mem_of_getElem? h)

theorem median_nonneg : ∀ l : List α, (∀ x ∈ l, 0 ≤ x) → 0 ≤ median l := by
  intro l hl
  have hs : ∀ x ∈ sortLE l, 0 ≤ x := fun x hx => hl x ((mem_sortLE x l).mp hx)
  unfold median
  simp only
  split
  · exact le_refl _
  · split
    · exact getD_nonneg _ _ hs
    · exact div_nonneg (add_nonneg (getD_nonneg _ _ hs) (getD_nonneg _ _ hs)) (Nat.cast_nonneg _)

end field
end Skc.RankInv
