import Skc.Model.Num
import Mathlib.Algebra.Order.Field.Basic
import Mathlib.Algebra.BigOperators.Fin
import Mathlib.Algebra.Order.BigOperators.Group.Finset
import Mathlib.Data.Finset.Lattice.Fold
import Mathlib.Order.Fin.Basic
import Mathlib.Data.List.OfFn
import Mathlib.Data.Fintype.Card
import Mathlib.Tactic

/-! Bridge lemmas: the list folds of the executable numeric layer are the `Finset` operations. -/
namespace Skc
open Finset

variable {α : Type}

theorem sumFin_eq_sum [AddCommMonoid α] {n : ℕ} (f : Fin n → α) : sumFin f = ∑ i, f i := by
  unfold sumFin
  rw [← List.sum_eq_foldl, List.sum_ofFn]

theorem foldl_max_spec [LinearOrder α] : ∀ (l : List α) (a : α),
    (∀ y ∈ a :: l, y ≤ l.foldl max a) ∧ l.foldl max a ∈ a :: l := by
  intro l
  induction l with
  | nil => intro a; simp
  | cons b t ih =>
    intro a
    obtain ⟨h1, h2⟩ := ih (max a b)
    simp only [List.foldl_cons]
    constructor
    · intro y hy
      rcases List.mem_cons.mp hy with rfl | hy
      · exact le_trans (le_max_left _ _) (h1 _ (List.mem_cons_self))
      · rcases List.mem_cons.mp hy with rfl | hy
        · exact le_trans (le_max_right _ _) (h1 _ (List.mem_cons_self))
        · exact h1 _ (List.mem_cons_of_mem _ hy)
    · rcases List.mem_cons.mp h2 with h | h
      · rw [h]
        rcases max_choice a b with h' | h' <;> rw [h'] <;> simp
      · exact List.mem_cons_of_mem _ (List.mem_cons_of_mem _ h)

theorem foldl_min_spec [LinearOrder α] : ∀ (l : List α) (a : α),
    (∀ y ∈ a :: l, l.foldl min a ≤ y) ∧ l.foldl min a ∈ a :: l := by
  intro l
  induction l with
  | nil => intro a; simp
  | cons b t ih =>
    intro a
    obtain ⟨h1, h2⟩ := ih (min a b)
    simp only [List.foldl_cons]
    constructor
    · intro y hy
      rcases List.mem_cons.mp hy with rfl | hy
      · exact le_trans (h1 _ (List.mem_cons_self)) (min_le_left _ _)
      · rcases List.mem_cons.mp hy with rfl | hy
        · exact le_trans (h1 _ (List.mem_cons_self)) (min_le_right _ _)
        · exact h1 _ (List.mem_cons_of_mem _ hy)
    · rcases List.mem_cons.mp h2 with h | h
      · rw [h]
        rcases min_choice a b with h' | h' <;> rw [h'] <;> simp
      · exact List.mem_cons_of_mem _ (List.mem_cons_of_mem _ h)

/-- `np.max` over a non-empty axis is the supremum -/
theorem maxFin_eq_sup' [LinearOrder α] {n : ℕ} [NeZero n] (f : Fin n → α) :
    maxFin f = univ.sup' univ_nonempty f := by
  unfold maxFin
  obtain ⟨h1, h2⟩ := foldl_max_spec (List.ofFn f) (f 0)
  apply le_antisymm
  · have : ∃ k, f k = (List.ofFn f).foldl max (f 0) := by
      rcases List.mem_cons.mp h2 with h | h
      · exact ⟨0, h.symm⟩
      · obtain ⟨i, hi⟩ := (List.mem_ofFn' _ _).mp h
        exact ⟨i, hi⟩
    obtain ⟨k, hk⟩ := this
    rw [← hk]; exact le_sup' f (mem_univ k)
  · apply sup'_le; intro i _
    exact h1 _ (List.mem_cons_of_mem _ ((List.mem_ofFn' _ _).mpr ⟨i, rfl⟩))

theorem minFin_eq_inf' [LinearOrder α] {n : ℕ} [NeZero n] (f : Fin n → α) :
    minFin f = univ.inf' univ_nonempty f := by
  unfold minFin
  obtain ⟨h1, h2⟩ := foldl_min_spec (List.ofFn f) (f 0)
  apply le_antisymm
  · apply le_inf'; intro i _
    exact h1 _ (List.mem_cons_of_mem _ ((List.mem_ofFn' _ _).mpr ⟨i, rfl⟩))
  · have : ∃ k, f k = (List.ofFn f).foldl min (f 0) := by
      rcases List.mem_cons.mp h2 with h | h
      · exact ⟨0, h.symm⟩
      · obtain ⟨i, hi⟩ := (List.mem_ofFn' _ _).mp h
        exact ⟨i, hi⟩
    obtain ⟨k, hk⟩ := this
    rw [← hk]; exact inf'_le f (mem_univ k)

theorem le_maxFin [LinearOrder α] {n : ℕ} [NeZero n] (f : Fin n → α) (i : Fin n) : f i ≤ maxFin f := by
  rw [maxFin_eq_sup']; exact le_sup' f (mem_univ i)
theorem minFin_le [LinearOrder α] {n : ℕ} [NeZero n] (f : Fin n → α) (i : Fin n) : minFin f ≤ f i := by
  rw [minFin_eq_inf']; exact inf'_le f (mem_univ i)
theorem exists_eq_maxFin [LinearOrder α] {n : ℕ} [NeZero n] (f : Fin n → α) : ∃ i, f i = maxFin f := by
  rw [maxFin_eq_sup']
  obtain ⟨i, _, hi⟩ := exists_mem_eq_sup' univ_nonempty f
  exact ⟨i, hi.symm⟩
theorem exists_eq_minFin [LinearOrder α] {n : ℕ} [NeZero n] (f : Fin n → α) : ∃ i, f i = minFin f := by
  rw [minFin_eq_inf']
  obtain ⟨i, _, hi⟩ := exists_mem_eq_inf' univ_nonempty f
  exact ⟨i, hi.symm⟩
theorem maxFin_le_iff [LinearOrder α] {n : ℕ} [NeZero n] (f : Fin n → α) (c : α) : maxFin f ≤ c ↔ ∀ i, f i ≤ c := by
  rw [maxFin_eq_sup', sup'_le_iff]; simp
theorem le_minFin_iff [LinearOrder α] {n : ℕ} [NeZero n] (f : Fin n → α) (c : α) : c ≤ minFin f ↔ ∀ i, c ≤ f i := by
  rw [minFin_eq_inf', le_inf'_iff]; simp

theorem anyFin_iff {n : ℕ} (p : Fin n → Bool) : anyFin p = true ↔ ∃ i, p i = true := by
  unfold anyFin
  simp [List.any_eq_true, List.mem_ofFn']
theorem allFin_iff {n : ℕ} (p : Fin n → Bool) : allFin p = true ↔ ∀ i, p i = true := by
  unfold allFin
  simp [List.all_eq_true, List.mem_ofFn']

theorem countFin_eq_card {n : ℕ} (p : Fin n → Bool) : countFin p = (univ.filter fun i => p i = true).card := by
  unfold countFin
  induction n with
  | zero => simp
  | succ k ih =>
    rw [List.ofFn_succ, List.filter_cons]
    have hrec := ih (fun i => p i.succ)
    have hsplit : (univ.filter fun i : Fin (k+1) => p i = true).card =
        (if p 0 = true then 1 else 0) + (univ.filter fun i : Fin k => p i.succ = true).card := by
      rw [Fin.card_filter_univ_succ]
      split <;> omega
    rw [hsplit, ← hrec]
    by_cases h0 : p 0 = true <;> simp [h0] <;> omega

theorem absv_eq_abs [Field α] [LinearOrder α] [IsStrictOrderedRing α] (x : α) : absv x = |x| := by
  unfold absv
  split
  · rename_i h; rw [abs_of_neg h]
  · rename_i h; rw [abs_of_nonneg (not_lt.mp h)]

theorem tabulate_eq {n : ℕ} (f : Fin n → α) : tabulate f = f := by
  funext i; simp [tabulate]
theorem tabulate2_eq {m n : ℕ} (f : Fin m → Fin n → α) : tabulate2 f = f := by
  funext i j; simp [tabulate2]

end Skc
