import Skc.Model.Electre
import Skc.Proofs.Num
import Skc.Proofs.Dominance
import Skc.Proofs.Rank
import Mathlib.Algebra.Order.Field.Basic
set_option linter.unusedSectionVars false

/-! Helper lemmas for the ELECTRE model. -/
namespace Skc.Electre
open Skc Finset

variable {m n : ℕ}
variable {α : Type} [Field α] [LinearOrder α] [IsStrictOrderedRing α]

theorem concMask_iff (o : Obj) (x y : α) : concMask o x y = true ↔ atLeast o x y := by
  cases o <;> simp [concMask, atLeast, better]
theorem discMask_iff (o : Obj) (x y : α) : discMask o x y = true ↔ better o y x := by
  cases o <;> simp [discMask, better]

theorem maxFin_div [NeZero n] (f : Fin n → α) (r : α) (hr : 0 < r) : (maxFin fun j => f j / r) = maxFin f / r := by
  apply le_antisymm
  · rw [maxFin_le_iff]; intro j
    exact div_le_div_of_nonneg_right (le_maxFin f j) hr.le
  · obtain ⟨j, hj⟩ := exists_eq_maxFin f
    rw [← hj]; exact le_maxFin (fun j => f j / r) j

/-! ### ranker -/
theorem roundKernel_sub (S W : Graph) (rem : List Nat) : ∀ j ∈ roundKernel S W rem, j ∈ rem := by
  intro j hj; exact (List.mem_filter.mp hj).1

theorem shrink (S W : Graph) (rem : List Nat) (h : (roundKernel S W rem).isEmpty = false) :
    (rem.filter (! (roundKernel S W rem).contains ·)).length < rem.length := by
  obtain ⟨j, hj⟩ : ∃ j, j ∈ roundKernel S W rem := by
    cases hk : roundKernel S W rem with
    | nil => simp [hk] at h
    | cons a t => exact ⟨a, by simp⟩
  have hjr := roundKernel_sub S W rem j hj
  apply List.length_filter_lt_length_iff_exists.mpr
  exact ⟨j, hjr, by simp [hj]⟩

theorem kernel_filter_eq (S W : Graph) (rem : List Nat) :
    rem.filter (fun j => (roundKernel S W rem).contains j) = roundKernel S W rem := by
  conv => rhs; unfold roundKernel
  apply List.filter_congr
  intro x hx
  simp only [List.contains_eq_mem, roundKernel, List.mem_filter, hx, true_and]
  cases hb : ((!rem.any fun x_1 => S x_1 x) && rem.any fun x_1 => W x_1 x) <;> simp

/-- every remaining alternative receives exactly one rank, nothing else does -/
theorem loop_covers (S W : Graph) : ∀ fuel rem r, rem.length ≤ fuel → rem.Nodup →
    ((rankerLoop S W fuel rem r).map (·.1)).Perm rem := by
  intro fuel
  induction fuel with
  | zero => intro rem r h _; simp [rankerLoop, Function.comp_def]
  | succ f ih =>
    intro rem r h hnd
    unfold rankerLoop
    split
    · rename_i he; simp at he; simp [he]
    · simp only
      split
      · simp [Function.comp_def]
      · rename_i _ hk
        have hk' : (roundKernel S W rem).isEmpty = false := by simpa using hk
        have hlt := shrink S W rem hk'
        have ih' := ih (rem.filter (! (roundKernel S W rem).contains ·)) (r + 1) (by omega) (hnd.filter _)
        rw [List.map_append]
        have h1 : ((roundKernel S W rem).map (·, r)).map (·.1) = roundKernel S W rem := by
          simp [Function.comp_def]
        rw [h1]
        refine (List.Perm.append_left _ ih').trans ?_
        have hp := List.filter_append_perm (fun j => (roundKernel S W rem).contains j) rem
        rw [kernel_filter_eq] at hp
        simpa using hp

/-- ranks handed out from position `r` on are contiguous: whenever rank `x` is used, every rank
between `r` and `x` is used too, and none below `r` -/
theorem loop_contiguous (S W : Graph) : ∀ fuel rem r, rem ≠ [] →
    (∀ p ∈ rankerLoop S W fuel rem r, r ≤ p.2) ∧
    (∀ p ∈ rankerLoop S W fuel rem r, ∀ q, r ≤ q → q ≤ p.2 → ∃ p' ∈ rankerLoop S W fuel rem r, p'.2 = q) := by
  intro fuel
  induction fuel with
  | zero =>
    intro rem r _
    simp only [rankerLoop, List.mem_map]
    refine ⟨?_, ?_⟩
    · rintro p ⟨x, _, rfl⟩; exact le_refl _
    · rintro p ⟨x, hx, rfl⟩ q h1 h2
      exact ⟨(x, r), ⟨x, hx, rfl⟩, by simp only at h2 ⊢; omega⟩
  | succ f ih =>
    intro rem r hne
    unfold rankerLoop
    have hemp : rem.isEmpty = false := by cases rem <;> simp_all
    simp only [hemp, Bool.false_eq_true, if_false]
    by_cases hk : (roundKernel S W rem).isEmpty = true
    · simp only [hk, if_true, List.mem_map]
      refine ⟨?_, ?_⟩
      · rintro p ⟨x, _, rfl⟩; exact le_refl _
      · rintro p ⟨x, hx, rfl⟩ q h1 h2
        exact ⟨(x, r), ⟨x, hx, rfl⟩, by simp only at h2 ⊢; omega⟩
    · simp only [hk, Bool.false_eq_true, if_false, List.mem_append, List.mem_map]
      have hk' : (roundKernel S W rem).isEmpty = false := by simpa using hk
      obtain ⟨j0, hj0⟩ : ∃ j, j ∈ roundKernel S W rem := by
        cases hkk : roundKernel S W rem with
        | nil => simp [hkk] at hk'
        | cons a t => exact ⟨a, by simp⟩
      by_cases hrest : rem.filter (! (roundKernel S W rem).contains ·) = []
      · -- the recursive call runs on the empty list: nothing more is ranked
        have hnil : rankerLoop S W f [] (r + 1) = [] := by cases f <;> simp [rankerLoop]
        rw [hrest, hnil]
        simp only [List.not_mem_nil, or_false]
        refine ⟨?_, ?_⟩
        · rintro p ⟨x, _, rfl⟩; exact le_refl _
        · rintro p ⟨x, hx, rfl⟩ q h1 h2
          exact ⟨(x, r), ⟨x, hx, rfl⟩, by simp only at h2 ⊢; omega⟩
      · obtain ⟨ih1, ih2⟩ := ih (rem.filter (! (roundKernel S W rem).contains ·)) (r + 1) hrest
        refine ⟨?_, ?_⟩
        · rintro p (⟨x, _, rfl⟩ | hp)
          · exact le_refl _
          · have := ih1 p hp; omega
        · rintro p hp q h1 h2
          by_cases hq : q = r
          · exact ⟨(j0, r), Or.inl ⟨j0, hj0, rfl⟩, by simp [hq]⟩
          · rcases hp with ⟨x, _, rfl⟩ | hp
            · simp only at h2; omega
            · obtain ⟨p', hp', hq'⟩ := ih2 p hp q (by omega) h2
              exact ⟨p', Or.inr hp', hq'⟩

/-- dense rank is invariant under a strictly increasing relabelling of the scores -/
theorem rankOf_map_strictMono' {β γ : Type} [LinearOrder β] [LinearOrder γ] (f : β → γ) (hf : StrictMono f)
    (s : List β) (x : β) : rankOf (s.map f) (f x) = rankOf s x := by
  rw [rankOf_eq_card', rankOf_eq_card']
  congr 1
  have : (s.map f).toFinset.filter (· < f x) = (s.toFinset.filter (· < x)).image f := by
    ext y
    simp only [mem_filter, mem_image, List.mem_toFinset, List.mem_map]
    constructor
    · rintro ⟨⟨z, hz, rfl⟩, hlt⟩; exact ⟨z, ⟨hz, hf.lt_iff_lt.mp hlt⟩, rfl⟩
    · rintro ⟨z, ⟨hz, hlt⟩, rfl⟩; exact ⟨⟨z, hz, rfl⟩, hf.lt_iff_lt.mpr hlt⟩
  rw [this, card_image_of_injective _ hf.injective]

end Skc.Electre
