#!/venv/bin/python
"""./check <Cxx> quick|thorough   |   ./check <Cxx> --replay <file>

Exit 0: property held on everything explored (KNOWN-FINDING lines allowed).
Exit 1: `VIOLATION property=<id> replay=<path>[ no-failing-input-found]` on stdout.
Exit 2: infrastructure failure / timeout (never a VIOLATION line)."""
from __future__ import annotations

import importlib
import json
import multiprocessing as mp
import os
import signal
import sys
import time
import traceback

os.environ.setdefault("OMP_NUM_THREADS", "1")
os.environ.setdefault("OPENBLAS_NUM_THREADS", "1")
os.environ.setdefault("MKL_NUM_THREADS", "1")
os.environ.setdefault("PYTHONWARNINGS", "ignore")
os.environ["SKCRITERIA_VERIF"] = "1"

import warnings  # noqa: E402

warnings.simplefilter("ignore")
sys.path.insert(0, os.path.dirname(os.path.abspath(__file__)))
import common as C  # noqa: E402

sys.path.insert(0, str(C.REPO))  # the tree under test (SKC_REPO overrides /repo for self-tests on scratch worktrees)


def _worker_init():
    # CBC and friends write to fd 1; workers have nothing to say there
    dn = os.open(os.devnull, os.O_WRONLY)
    os.dup2(dn, 1)
    warnings.simplefilter("ignore")

BUDGET = {"quick": 900, "thorough": 3 * 3600}


def _observe(args):
    mod_name, case = args
    mod = importlib.import_module(mod_name)
    try:
        return mod.observe(case)
    except Exception as e:
        tb = traceback.extract_tb(e.__traceback__)
        in_repo = [f for f in tb if f.filename.startswith(str(C.REPO) + os.sep)]
        if in_repo:
            # raised inside the code under test on an input the module did not expect to be refused:
            # that is an observation about the implementation (a finding), not a harness failure
            last = in_repo[-1]
            return {"_impl_error": f"{type(e).__name__}: {str(e)[:200]}",
                    "_where": f"{os.path.relpath(last.filename, str(C.REPO))}:{last.name}", "_tb": traceback.format_exc()[-1200:]}
        if isinstance(e, C.NonFiniteOutput):
            # the implementation handed out NaN / inf where the module expects finite numbers (it runs silently on the unchanged tree)
            return {"_impl_error": f"the implementation reported a non-finite number where a finite one is due ({e})",
                    "_where": "observation", "_tb": traceback.format_exc()[-1200:]}
        return {"_harness_error": f"{type(e).__name__}: {e}", "_tb": traceback.format_exc()[-1500:]}


def evaluate(mod, ctx, cases, pool):
    """run implementation + model on the cases; returns (findings, stats)"""
    name = mod.__name__
    t0 = time.time()
    if pool is not None and len(cases) > 8 and getattr(mod, "PARALLEL", True):
        obs = pool.map(_observe, [(name, c) for c in cases], chunksize=max(1, len(cases) // 64))
    else:
        obs = [_observe((name, c)) for c in cases]
    t_impl = time.time() - t0
    reqs, spans = [], []
    for c, o in zip(cases, obs):
        if "_harness_error" in o or "_impl_error" in o:
            spans.append((len(reqs), len(reqs)))
            continue
        try:
            r = mod.requests(c, o)
        except C.NonFiniteOutput as e:  # an observed number that should be finite is NaN / inf
            o.clear()
            o.update({"_impl_error": f"the implementation reported a non-finite number where a finite one is due ({e})", "_where": "observation",
                      "_tb": traceback.format_exc()[-1200:]})
            r = []
        spans.append((len(reqs), len(reqs) + len(r)))
        reqs.extend(r)
    replies = ctx.driver.batch(reqs)
    findings, nontrivial, keys, hist = [], 0, set(), {}
    herr = []
    for c, o, (a, b) in zip(cases, obs, spans):
        if "_harness_error" in o:
            herr.append(o)
            continue
        if "_impl_error" in o:
            findings.append({"kind": "property", "case": c, "observed": o["_tb"],
                             "what": f"the implementation raised {o['_impl_error']} (in {o['_where']}) on an input of the property's "
                                     "domain that the unchanged code answers"})
            keys.add(C.case_key(c))
            continue
        rep = replies[a:b]
        bad = [r for r in rep if "driver_error" in r]
        if bad:
            findings.append({"kind": "correspondence", "what": f"model driver refused the request: {bad[0]['driver_error']}", "case": c})
            continue
        try:
            fs = list(mod.judge(c, o, rep))
        except C.NonFiniteOutput as e:
            fs = [{"kind": "property", "what": f"the implementation reported a non-finite number where a finite one is due ({e})",
                   "observed": traceback.format_exc()[-1200:]}]
        for f in fs:
            f.setdefault("case", c)
            findings.append(f)
        k = C.case_key(c)
        if mod.nontrivial(c, o) and k not in keys:
            nontrivial += 1
        keys.add(k)
        for tag in mod.tags(c, o) if hasattr(mod, "tags") else []:
            hist[tag] = hist.get(tag, 0) + 1
    stats = {
        "evaluations": len(cases),
        "distinct": len(keys),
        "distinct_nontrivial": nontrivial,
        "model_requests": len(reqs),
        "impl_s": round(t_impl, 2),
        "histogram": dict(sorted(hist.items())),
        "harness_errors": herr[:3],
        "n_harness_errors": len(herr),
    }
    return findings, stats


def decide(pid, tier, seed, lean, findings, search_fn):
    """the violation protocol of DESIGN.md section 5.  returns (lines, exit_code, n_violations)"""
    known = C.load_known()
    lines, reported, viol = [], set(), 0
    prop = [f for f in findings if f["kind"] == "property"]
    corr = [f for f in findings if f["kind"] == "correspondence"]
    unknown_prop = []
    for f in prop:
        k = C.known_match(pid, f, known)
        if k:
            key = ("K", k["id"])
            if key not in reported:
                reported.add(key)
                lines.append(f"KNOWN-FINDING: property={pid} {k['id']} {k['what']}")
        else:
            unknown_prop.append(f)
    unknown_corr = [f for f in corr if not C.known_match(pid, f, known)]
    for f in corr:
        k = C.known_match(pid, f, known)
        if k and ("K", k["id"]) not in reported:
            reported.add(("K", k["id"]))
            lines.append(f"KNOWN-FINDING: property={pid} {k['id']} {k['what']}")
    broken = list(lean["failed"]) if not lean["ok"] else []
    if unknown_corr:
        broken.append("correspondence model-vs-implementation: " + unknown_corr[0]["what"])
    if unknown_prop:
        f = unknown_prop[0]
        p = C.write_replay(pid, tier, seed, "failing-input", broken, f)
        C.log(f"property violated on the implementation: {f['what']}")
        lines.append(f"VIOLATION property={pid} replay={p}")
        return lines, 1, len(unknown_prop)
    if broken:
        C.log("proof obligation or correspondence broken:\n  " + "\n  ".join(str(b) for b in broken[:5]))
        found = []
        try:
            found = [f for f in search_fn() if f["kind"] == "property" and not C.known_match(pid, f, known)]
        except Exception:
            C.log("search failed:", traceback.format_exc())
        if found:
            p = C.write_replay(pid, tier, seed, "failing-input", broken, found[0])
            lines.append(f"VIOLATION property={pid} replay={p}")
            return lines, 1, len(found)
        witness = unknown_corr[0] if unknown_corr else {"what": broken[0], "case": None}
        p = C.write_replay(pid, tier, seed, "no-failing-input-found", broken, witness)
        lines.append(f"VIOLATION property={pid} replay={p} no-failing-input-found")
        return lines, 1, 1
    return lines, 0, viol


def main(argv):
    if len(argv) < 2:
        print(__doc__)
        return 2
    pid = argv[0].upper()
    C.guard_stdout()
    mod = importlib.import_module(f"props.{pid.lower()}")
    seed = int(os.environ.get("VERIF_SEED", "0"))
    if argv[1] == "--replay":
        return replay(pid, mod, argv[2], seed)
    tier = os.environ.get("VERIF_TIER") or argv[1]
    if tier not in ("quick", "thorough"):
        print(__doc__)
        return 2
    signal.signal(signal.SIGALRM, lambda *a: (_ for _ in ()).throw(TimeoutError("check budget exceeded")))
    signal.alarm(BUDGET[tier])
    t0 = time.time()
    ctx = C.Ctx(pid, tier, seed)
    pool = None
    try:
        if hasattr(mod, "extract"):
            mod.extract(ctx)
        lean = C.lean_check(pid, thorough=ctx.thorough, own_tables=hasattr(mod, "extract"))
        tie = C.tie_check(pid, thorough=ctx.thorough)
        lost = {k: v for k, v in tie.items() if v not in ("proved", "ok")}
        if lost:
            # the regenerated kernel is no longer identified with the model kernel: the correspondence check is then the
            # only tie for it; look harder (thorough-sized generation within this run's budget)
            C.log("translator tie lost (falling back to the correspondence tie, with a wider search): " + json.dumps(lost))
            ctx.escalate = True
        have_driver = bool(lean.get("driver_path"))
        if have_driver:
            ctx.driver.path = lean["driver_path"]
        else:
            C.log("skcdriver is not built:\n" + lean.get("driver_build_failed", lean["log"]))
            lean["ok"] = False  # model executable missing: the correspondence cannot run
        if lean.get("driver_build_failed") and have_driver:
            C.log("NOTE: the shared model driver does not build on this tree (another property's table/model); using the last driver that linked")
        pool = mp.get_context("fork").Pool(min(16, os.cpu_count() or 4), initializer=_worker_init) if getattr(mod, "PARALLEL", True) else None
        cases = [c for c in C.corpus_cases(pid)] + mod.gen(ctx)
        if have_driver:
            findings, stats = evaluate(mod, ctx, cases, pool)
        else:
            findings, stats = [], {"evaluations": 0, "distinct_nontrivial": 0}
        if stats.get("n_harness_errors"):
            C.log("harness errors:", json.dumps(stats["harness_errors"], indent=1))
            return 2

        def search():
            sctx = C.Ctx(pid, "thorough", seed + 7919)
            sctx.driver.path = ctx.driver.path
            fs, _ = evaluate(mod, sctx, (mod.search_gen(sctx) if hasattr(mod, "search_gen") else mod.gen(sctx)), pool)
            return fs

        lines, code, nviol = decide(pid, tier, seed, lean, findings, search)
        cov = {
            "obligations": lean["obligations"],
            "discharged": lean["discharged"],
            "checker_cmd": lean["checker_cmd"],
            "trusted_base": C.TRUSTED_BASE + getattr(mod, "TRUSTED", []),
            "theorems": C.property_theorems(pid) if lean["obligations"] else [],
            "axioms_used": lean.get("axioms", []),
            "lean_failed": lean["failed"],
            "evaluations": stats["evaluations"],
            "distinct_nontrivial": stats["distinct_nontrivial"],
            "traces_validated_against_impl": stats["evaluations"],
            "rule": mod.RULE,
            "samples": [C.jsonable(cases[i]) for i in sorted({0, len(cases) // 3, (2 * len(cases)) // 3, len(cases) - 1})] if cases else [],
            "exhaustive": bool(getattr(mod, "EXHAUSTIVE", False) and ctx.thorough),
            "input_distribution": stats.get("histogram", {}),
            "model_requests": stats.get("model_requests", 0),
            "known_findings_printed": [l for l in lines if l.startswith("KNOWN-FINDING")],
            "partial": getattr(mod, "PARTIAL", ""),
        }
        if tie:
            cov["translator_tie"] = tie
        if "leanchecker" in lean:
            cov["leanchecker"] = lean["leanchecker"]
        C.write_evidence(pid, tier, seed, cov, getattr(mod, "ASSUMPTIONS", []), time.time() - t0, nviol)
        for l in lines:
            C.emit(l)
        C.log(f"{pid} {tier} seed={seed}: {stats['evaluations']} cases, {stats['distinct_nontrivial']} distinct non-trivial, "
              f"{lean['discharged']}/{lean['obligations']} theorems, exit {code}, {time.time()-t0:.1f}s")
        return code
    except TimeoutError as e:
        C.log(f"timeout: {e}")
        return 2
    except Exception:
        C.log("infrastructure failure:\n" + traceback.format_exc())
        return 2
    finally:
        signal.alarm(0)
        if pool is not None:
            pool.terminate()
        try:
            os.unlink(C.LEAN / ".audit" / f"skcdriver.run{os.getpid()}")
        except OSError:
            pass


def replay(pid, mod, path, seed):
    body = json.loads(open(path).read())
    ctx = C.Ctx(pid, "quick", seed)
    good = C.LEAN / ".audit" / "skcdriver.good"
    if not C.DRIVER.exists() and good.exists():
        ctx.driver.path = str(good)
    if body.get("case") is None:
        lean = C.lean_check(pid)
        C.log("replay of a no-failing-input-found report; Lean status:", "ok" if lean["ok"] else lean["failed"])
        C.log(lean["log"][-3000:])
        if lean["ok"]:
            return 0
        C.emit(f"VIOLATION property={pid} replay={path} no-failing-input-found")
        return 1
    findings, _ = evaluate(mod, ctx, [body["case"]], None)
    known = C.load_known()
    bad = [f for f in findings if not C.known_match(pid, f, known)]
    for f in findings:
        C.log(json.dumps(C.jsonable({k: f.get(k) for k in ("kind", "what", "expected", "observed")}), indent=1))
    if any(f["kind"] == "property" for f in bad):
        C.emit(f"VIOLATION property={pid} replay={path}")
        return 1
    if bad:
        C.emit(f"VIOLATION property={pid} replay={path} no-failing-input-found")
        return 1
    C.log("replay: the recorded case no longer fails")
    return 0


if __name__ == "__main__":
    sys.exit(main(sys.argv[1:]))
