"""Decision-maker table shared by the checks: how to build each method from a JSON spec, the
extra that holds "the score the result itself reports" and its direction, and the domain."""
from __future__ import annotations

import contextlib
import os
import warnings

import numpy as np

import gen as G

# name -> (score key, higher_is_better, needs_positive, needs_all_max, allows_zero)
METHODS = {
    "WSM": dict(score="score", rev=True, positive=False, nonneg=True, allmax=True),
    "WPM": dict(score="score", rev=True, positive=True, nonneg=True, allmax=True),
    "TOPSIS": dict(score="similarity", rev=True, positive=False, nonneg=False, allmax=False),
    "RatioMOORA": dict(score="score", rev=True, positive=False, nonneg=False, allmax=False),
    "RefPointMOORA": dict(score="score", rev=False, positive=False, nonneg=False, allmax=False),
    "FMF": dict(score="score", rev=True, positive=True, nonneg=True, allmax=False),
    "MultiMOORA": dict(score="score", rev=True, positive=True, nonneg=True, allmax=False),
    "ELECTRE2": dict(score="score", rev=False, positive=False, nonneg=False, allmax=False),
    "SIMUS": dict(score=None, rev=True, positive=True, nonneg=True, allmax=False),
}
TOPSIS_METRICS = ["euclidean", "sqeuclidean", "cityblock", "chebyshev", "minkowski"]


def build(spec):
    import skcriteria.agg.electre as electre
    import skcriteria.agg.moora as moora
    import skcriteria.agg.similarity as similarity
    import skcriteria.agg.simple as simple
    import skcriteria.agg.simus as simus

    name = spec["name"]
    p = {k: v for k, v in spec.items() if k != "name"}
    with warnings.catch_warnings():
        warnings.simplefilter("ignore")
        if name == "WSM":
            return simple.WeightedSumModel()
        if name == "WPM":
            return simple.WeightedProductModel()
        if name == "TOPSIS":
            return similarity.TOPSIS(**p)
        if name == "RatioMOORA":
            return moora.RatioMOORA()
        if name == "RefPointMOORA":
            return moora.ReferencePointMOORA()
        if name == "FMF":
            return moora.FullMultiplicativeForm()
        if name == "MultiMOORA":
            return moora.MultiMOORA()
        if name == "ELECTRE1":
            return electre.ELECTRE1(**p)
        if name == "ELECTRE2":
            return electre.ELECTRE2(**p)
        if name == "SIMUS":
            return simus.SIMUS(**p)
    raise KeyError(name)


def score_key(spec):
    if spec["name"] == "SIMUS":
        return "method_%d_score" % spec.get("rank_by", 1)
    return METHODS[spec["name"]]["score"]


def random_spec(rng, names=None):
    name = rng.choice(names or ["WSM", "WPM", "TOPSIS", "TOPSIS", "RatioMOORA", "RefPointMOORA", "FMF", "MultiMOORA", "ELECTRE1", "ELECTRE2"])
    if name == "TOPSIS":
        return {"name": name, "metric": rng.choice(TOPSIS_METRICS)}
    if name == "ELECTRE1":
        return rng.choice([{"name": name}, {"name": name, "p": rng.randint(0, 8) / 8, "q": rng.randint(0, 8) / 8}])
    if name == "ELECTRE2":
        if rng.random() < 0.5:
            return {"name": name}
        ps = sorted([rng.randint(0, 8) / 8 for _ in range(3)], reverse=True)
        qs = sorted([rng.randint(0, 8) / 8 for _ in range(2)], reverse=True)
        return {"name": name, "p0": ps[0], "p1": ps[1], "p2": ps[2], "q0": qs[0], "q1": qs[1]}
    if name == "SIMUS":
        return {"name": name, "rank_by": rng.choice([1, 2])}
    return {"name": name}


def in_domain_dm(rng, spec, **kw):
    """a decision-matrix case inside the method's documented domain"""
    name = spec["name"]
    info = METHODS.get(name, dict(positive=False, nonneg=False, allmax=False))
    mix = "max" if info["allmax"] else kw.pop("mix", None)
    positive = info["positive"] or info["nonneg"] or kw.pop("positive", True)
    kw.setdefault("min_m", 2)
    if name == "SIMUS":
        kw.setdefault("min_n", 2)
    case = G.dm_case(rng, positive=positive, mix=mix, **kw)
    m = case["matrix"]
    if all(r == m[0] for r in m):  # TOPSIS / ELECTRE need non-constant data
        m[-1] = [v + 1 for v in m[-1]]
    if name == "SIMUS":
        o = case["objectives"]
        if sum(1 for x in o if x == 1) < 2:
            o[0] = o[1] = 1
    return case


@contextlib.contextmanager
def quiet():
    """CBC writes to fd 1; warnings are irrelevant here"""
    with warnings.catch_warnings():
        warnings.simplefilter("ignore")
        with np.errstate(all="ignore"):
            yield


def decoy_dm(dm):
    """the same matrix values under OTHER objectives and weights (a cache keyed on part of the input would go stale)"""
    d = dict(dm)
    o = list(dm["objectives"])
    n = len(o)
    flip = [j for j in range(n) if j % 2 == 0] if n > 1 else [0]
    d["objectives"] = [(-x if j in flip else x) for j, x in enumerate(o)]
    w = list(dm["weights"])
    d["weights"] = w[1:] + w[:1] if n > 1 else [w[0] * 2]
    return d


def warmup(dec, dm_obj, dm_case, spec):
    """before the evaluation that is judged: (a) the SAME decision-maker object evaluates a decoy problem with the same
    matrix values but other objectives / weights; (b) OTHER methods evaluate the same DecisionMatrix object.  Everything a
    correct library does here is side-effect free; results and refusals of the warm-up are ignored."""
    import skcriteria.agg.moora as moora
    import skcriteria.agg.similarity as similarity

    with quiet():
        if spec["name"] != "SIMUS":
            try:
                dec.evaluate(G.mkdm(decoy_dm(dm_case)))
            except Exception:
                pass
        # the same NUMBERS under other alternative / criterion labels, on the same decision-maker object (SIMUS included: a result
        # kept from an earlier call must not be handed out for a problem that only looks the same)
        try:
            relabelled = dict(dm_case, alternatives=[f"zz{i}" for i in range(len(dm_case["alternatives"]))][::-1],
                              criteria=[f"yy{j}" for j in range(len(dm_case["criteria"]))], via=False)
            dec.evaluate(G.mkdm(relabelled))
        except Exception:
            pass
        for other in (moora.FullMultiplicativeForm(), moora.RatioMOORA(), similarity.TOPSIS(metric="cityblock")):
            try:
                other.evaluate(dm_obj)
            except Exception:
                pass


def narrow_int_variant(rng, dm):
    """the same kind of problem stored in a NARROW integer dtype (int8 / int16 / int32 / uint8 / uint16: sensor counts, grades) with
    whole-number weights: every weighted sum / product overflows the storage dtype, so arithmetic carried out in it wraps"""
    dt, hi = rng.choice([("int8", 120), ("int16", 450), ("int32", 60000), ("uint8", 250), ("uint16", 60000)])
    lo = max(1, hi // 3)
    m, n = len(dm["matrix"]), len(dm["objectives"])
    rows = [[float(rng.randint(lo, hi)) for _ in range(n)] for _ in range(m)]
    for i in range(1, m):  # keep the duplicated / dominated structure of the original rows where there was one
        if dm["matrix"][i] == dm["matrix"][0]:
            rows[i] = list(rows[0])
    dm = dict(dm, matrix=rows, int_matrix=True, dtype=dt, family="dyadic")
    dm["weights"] = [float(rng.randint(2, 40 if hi < 1000 else 70000)) for _ in range(n)]
    return dm
