"""Shared generators (DESIGN.md section 4).  Every random choice comes from the `random.Random`
passed in, and every case is a plain JSON-able dict so that it replays from the file alone."""
from __future__ import annotations

import math
import warnings

import numpy as np

LABEL_POOL_ALT = ["A0", "A1", "A2", "A10", "A2b", "z", "alt", "PE", "JN", "AA", "MM", "FN", "foo", "foo_1", "Zeta",
                  "a", "B", "x10", "x2", "élan", "A 3", "A11", "A12", "A13", "A14", "A15", "A16", "A17", "A18", "A19",
                  "A20", "A21", "A22", "A23", "A24", "A25", "A26", "A27", "A28", "A29", "A30", "A31", "A32", "A33", "Q1", "Q2",
                  "Q3", "Q4", "Q5", "Q6", "Q7", "Q8"]
LABEL_POOL_CRIT = ["C0", "C1", "C2", "C10", "ROE", "CAP", "RI", "cost", "b", "a", "Z", "c_1", "c", "x", "Ω", "C3", "C4", "C5"]


def labels(rng, pool, n):
    return rng.sample(pool, n)


def dyadic(rng, lo=0, hi=40, den=8):
    return rng.randint(lo, hi) / den


def value(rng, family, positive=True):
    if family == "dyadic":
        return rng.randint(1 if positive else -16, 40) / 8
    # arbitrary doubles, moderate dynamic range
    v = math.ldexp(rng.uniform(0.5, 1.0), rng.randint(-6, 9))
    if not positive and rng.random() < 0.35:
        v = -v
    return v


def matrix(rng, m, n, family="dyadic", positive=True, ties=0.3, dups=0.2, dominated=0.0, objs=None):
    rows = [[value(rng, family, positive) for _ in range(n)] for _ in range(m)]
    # ties inside columns
    for j in range(n):
        for i in range(1, m):
            if rng.random() < ties:
                rows[i][j] = rows[rng.randrange(i)][j]
    # duplicated rows
    for i in range(1, m):
        if rng.random() < dups:
            rows[i] = list(rows[rng.randrange(i)])
    # forced dominating pairs: row i := row k made worse on a subset of criteria
    if dominated and objs is not None:
        for i in range(1, m):
            if rng.random() < dominated:
                k = rng.randrange(i)
                rows[i] = list(rows[k])
                for j in rng.sample(range(n), rng.randint(1, n)):
                    step = rng.randint(1, 8) / 8 if family == "dyadic" else abs(rows[i][j]) * rng.uniform(0.01, 0.5)
                    if objs[j] == 1:
                        nv = rows[i][j] - step
                        if positive and nv <= 0:
                            nv = rows[i][j] / 2
                    else:
                        nv = rows[i][j] + step
                    rows[i][j] = nv
    return rows


def objectives(rng, n, mix=None):
    mix = mix or rng.choice(["max", "min", "mixed", "mixed"])
    if mix == "max":
        return [1] * n
    if mix == "min":
        return [-1] * n
    o = [rng.choice([1, -1]) for _ in range(n)]
    return o


def int_labels(rng, k, base=None):
    """labels that are whole numbers (years, ids): legitimate and common.  Never a number that is also a POSITION (0..k-1):
    `dm.alternatives[k]` / `dm.criteria[k]` are documented to treat a key contained in the labels as a label, so such labels are
    ambiguous by design."""
    base = rng.choice([1000, 2000, 10 ** 6]) if base is None else base
    return [base + i for i in rng.sample(range(0, max(k, 1) * 3), k)]


def weights(rng, n, family="dyadic", distinct=True):
    if family == "dyadic":
        pool = rng.sample(range(1, 33), n) if distinct else [rng.randint(1, 32) for _ in range(n)]
        return [p / 16 for p in pool]
    return [math.ldexp(rng.uniform(0.5, 1.0), rng.randint(-4, 3)) for _ in range(n)]


def dm_case(rng, m=None, n=None, family=None, positive=True, mix=None, ties=0.3, dups=0.15, dominated=0.0,
            max_m=12, max_n=6, min_m=1, min_n=1, int_label_rate=0.0, zero_weight_rate=0.0):
    m = m or rng.randint(min_m, max_m)
    n = n or rng.randint(min_n, max_n)
    family = family or rng.choice(["dyadic", "dyadic", "float"])
    objs = objectives(rng, n, mix)
    mat = matrix(rng, m, n, family, positive, ties, dups, dominated, objs)
    int_matrix = False
    if family == "dyadic" and rng.random() < 0.25:
        # integer-typed decision matrix (unscaled raw data): every cell a whole number, dtype int64
        mat = [[float(int(x * 8)) for x in row] for row in mat]
        if positive:
            mat = [[max(x, 1.0) for x in row] for row in mat]
        int_matrix = True
    wts = weights(rng, n, family)
    if zero_weight_rate and rng.random() < zero_weight_rate:
        wts = [0.0 if rng.random() < 0.5 else w for w in wts]  # criteria switched off
    alts, crits = labels(rng, LABEL_POOL_ALT, m), labels(rng, LABEL_POOL_CRIT, n)
    if int_label_rate and rng.random() < int_label_rate:
        alts = int_labels(rng, m)
    if int_label_rate and rng.random() < int_label_rate:
        crits = int_labels(rng, n)
    return {
        "matrix": mat,
        "int_matrix": int_matrix,
        "objectives": objs,
        "weights": wts,
        "alternatives": alts,
        "criteria": crits,
        "family": family,
    }


def _whole(case):
    """integer dtype only when asked for AND every cell really is a whole number (a check may have edited the cells)"""
    return bool(case.get("int_matrix")) and all(float(x).is_integer() for row in case["matrix"] for x in row)


MAX_ALIASES = [1, "max", "maximize", "+", ">", "\u25b2", "MAX", "Maximize", max, np.max, np.nanmax, np.amax]
MIN_ALIASES = [-1, "min", "minimize", "-", "<", "\u25bc", "MIN", "Minimize", min, np.min, np.nanmin, np.amin]


def objective_aliases(case):
    """each objective written in one of its documented spellings (chosen deterministically from the case), so that every
    check that builds a matrix also exercises the alias table; objectives given as +1/-1 half of the time"""
    import hashlib

    objs = list(case["objectives"])
    h = int(hashlib.sha1(repr((case.get("criteria"), objs, case.get("alternatives"))).encode()).hexdigest(), 16)
    if h % 2 == 0:
        return objs
    out = []
    for j, o in enumerate(objs):
        pool = MAX_ALIASES if o == 1 else MIN_ALIASES
        out.append(pool[(h >> (3 * j + 1)) % len(pool)])
    return out


def _dtype(case):
    if case.get("dtype"):
        return np.dtype(case["dtype"])
    return int if _whole(case) else float


def lab(x):
    """canonical form of a label that keeps its type: a string is itself, a whole number is `int:<n>` (so that 2019 and "2019"
    differ), anything else `<type>:<repr>`"""
    import numbers

    if isinstance(x, str):
        return x
    if isinstance(x, numbers.Integral) and not isinstance(x, bool):
        return f"int:{int(x)}"
    return f"{type(x).__name__}:{x!r}"


def _perm(h, k):
    """a permutation of range(k) derived from the integer h (Lehmer code)"""
    items, out = list(range(k)), []
    for i in range(k, 0, -1):
        h, r = divmod(h, i)
        out.append(items.pop(r))
    return out


def mkdm(case):
    """the DecisionMatrix of a case.  A third of the cases (chosen deterministically from the case) do not build it directly:
    the problem is first written down with its criteria and alternatives in ANOTHER order and the intended listing is then
    selected out of that matrix through the public selection API (`dm[crits]`, `.loc`, `.iloc`, sometimes followed by
    `.copy()`).  The oracles always work on the case itself, so a selection that mixes up objectives, weights, columns or rows
    shows as a violation of whatever property is being checked on the derived problem."""
    import hashlib

    import skcriteria as skc

    A = case["matrix"]
    m, n = len(A), len(case["objectives"])
    al, cr = list(case["alternatives"]), list(case["criteria"])
    objs, wts = objective_aliases(case), list(case["weights"])
    h = int(hashlib.sha1(repr(("via", cr, al, case["objectives"], wts)).encode()).hexdigest(), 16)
    via = h % 9 if case.get("via", True) and len(set(map(repr, al))) == m and len(set(map(repr, cr))) == n else 0
    with warnings.catch_warnings():
        warnings.simplefilter("ignore")
        if via not in (1, 2, 3) or m * n == 0:
            return skc.mkdm(np.array(A, dtype=_dtype(case)), objs, weights=np.array(wts, dtype=float), alternatives=al, criteria=cr)
        sg, tau = _perm(h >> 8, m), _perm(h >> 40, n)
        dm0 = skc.mkdm(
            np.array([[A[i][j] for j in tau] for i in sg], dtype=_dtype(case)),
            [objs[j] for j in tau],
            weights=np.array([wts[j] for j in tau], dtype=float),
            alternatives=[al[i] for i in sg],
            criteria=[cr[j] for j in tau],
        )
        if via == 1:
            dm = dm0[cr].loc[al]
        elif via == 2:
            dm = dm0.loc[al, cr]
        else:
            dm = dm0.iloc[[sg.index(i) for i in range(m)], [tau.index(j) for j in range(n)]]
        return dm.copy() if (h >> 4) % 2 else dm


def err_name(e: BaseException) -> str:
    for t in (KeyError, IndexError, ValueError, TypeError, AttributeError, NotImplementedError, ZeroDivisionError):
        if isinstance(e, t):
            return t.__name__
    return type(e).__name__
