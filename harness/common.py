"""Shared machinery of the checks: exact number transfer, Lean driver, Lean build + axiom
audit, known findings, replays, evidence.  See DESIGN.md sections 2-5."""
from __future__ import annotations

import fcntl
import shutil
import hashlib
import json
import math
import os
import random
import re
import struct
import subprocess
import sys
import time
from fractions import Fraction
from pathlib import Path

VERIF = Path(__file__).resolve().parent.parent
LEAN = VERIF / "lean"
REPO = Path(os.environ.get("SKC_REPO", "/repo"))
DRIVER = LEAN / ".lake" / "build" / "bin" / "skcdriver"
LOCK = LEAN / ".verif.lock"
ALLOWED_AXIOMS = {"propext", "Classical.choice", "Quot.sound"}
FORBIDDEN = re.compile(
    r"\bsorry\b|\badmit\b|^\s*axiom\s|native_decide|bv_decide|implemented_by|\bunsafe\s|maxHeartbeats\s+0\b",
    re.M,
)

# --------------------------------------------------------------------------- numbers


class NonFiniteOutput(ValueError):
    """a number that was about to be sent to the model as an exact rational is NaN / inf.  Generated inputs are finite (modules with
    NaN cells encode them before this point), so during an observation this is a non-finite OUTPUT of the implementation."""


def rat(x) -> str:
    """exact rational string of a python number (every finite double is a rational)"""
    if isinstance(x, Fraction):
        return f"{x.numerator}/{x.denominator}"
    if isinstance(x, bool):
        raise TypeError("bool is not a number here")
    if isinstance(x, int):
        return f"{x}/1"
    x = float(x)
    if not math.isfinite(x):
        raise NonFiniteOutput(f"non-finite value {x!r} cannot be sent as a rational")
    n, d = x.as_integer_ratio()
    return f"{n}/{d}"


def frac(s) -> Fraction:
    if s is None:
        return None
    n, _, d = s.partition("/")
    return Fraction(int(n), int(d or 1))


def fbits(x: float) -> str:
    return "b:%d" % struct.unpack("<Q", struct.pack("<d", float(x)))[0]


def unfbits(s):
    if s is None:
        return float("nan")
    return struct.unpack("<d", struct.pack("<Q", int(s[2:])))[0]


def rats(xs):
    return [rat(x) for x in xs]


def ratmat(m):
    return [[rat(x) for x in row] for row in m]


def fracs(xs):
    return [frac(x) for x in xs]


def fracmat(m):
    return [[frac(x) for x in row] for row in m]


def F(x) -> Fraction:
    """exact Fraction of a float / int"""
    if isinstance(x, Fraction):
        return x
    if isinstance(x, int):
        return Fraction(x)
    return Fraction(*float(x).as_integer_ratio())


# --------------------------------------------------------------------------- stdout guard

_REAL_STDOUT = None


def guard_stdout():
    """Everything the real code (CBC!) or the harness prints goes to stderr; only `emit`
    writes to the check's stdout."""
    global _REAL_STDOUT
    if _REAL_STDOUT is None:
        sys.stdout.flush()
        _REAL_STDOUT = os.fdopen(os.dup(1), "w")
        os.dup2(2, 1)


def emit(line: str):
    out = _REAL_STDOUT or sys.stdout
    out.write(line + "\n")
    out.flush()


def log(*a):
    print(*a, file=sys.stderr, flush=True)


# --------------------------------------------------------------------------- Lean side


class LeanLock:
    def __enter__(self):
        LOCK.parent.mkdir(parents=True, exist_ok=True)
        self.f = open(LOCK, "w")
        fcntl.flock(self.f, fcntl.LOCK_EX)
        return self

    def __exit__(self, *a):
        fcntl.flock(self.f, fcntl.LOCK_UN)
        self.f.close()


def _run(cmd, cwd=LEAN, timeout=3000, input=None):
    p = subprocess.run(
        cmd, cwd=cwd, stdout=subprocess.PIPE, stderr=subprocess.STDOUT, text=True, timeout=timeout, input=input
    )
    return p.returncode, p.stdout


def strip_lean_comments(src: str) -> str:
    out, i, depth, n = [], 0, 0, len(src)
    while i < n:
        if src.startswith("/-", i):
            depth += 1
            i += 2
        elif depth and src.startswith("-/", i):
            depth -= 1
            i += 2
        elif depth:
            if src[i] == "\n":
                out.append("\n")
            i += 1
        elif src.startswith("--", i):
            while i < n and src[i] != "\n":
                i += 1
        else:
            out.append(src[i])
            i += 1
    return "".join(out)


def lean_sources():
    return sorted(p for p in LEAN.rglob("*.lean") if ".lake" not in p.parts and ".audit" not in p.parts)


def forbidden_tokens():
    hits = []
    for p in lean_sources():
        body = strip_lean_comments(p.read_text())
        for m in FORBIDDEN.finditer(body):
            line = body.count("\n", 0, m.start()) + 1
            hits.append(f"{p.relative_to(LEAN)}:{line}: {m.group(0).strip()}")
    return hits


def property_theorems(pid: str):
    """names of the property theorems = every `theorem` in Skc/Props/<pid>.lean"""
    p = LEAN / "Skc" / "Props" / f"{pid}.lean"
    body = strip_lean_comments(p.read_text())
    ns = re.search(r"^namespace\s+(\S+)", body, re.M)
    prefix = (ns.group(1) + ".") if ns else ""
    return [prefix + m.group(1) for m in re.finditer(r"^\s*(?:protected\s+)?theorem\s+(\S+)", body, re.M)]


def lean_check(pid: str, thorough: bool = False, own_tables: bool = False):
    """build Skc.Props.<pid> (+ driver), audit the axioms of every property theorem.
    returns dict(ok, obligations, discharged, failed, log, checker_cmd)"""
    res = {"ok": False, "obligations": 0, "discharged": 0, "failed": [], "log": "", "axioms": {}}
    target = f"Skc.Props.{pid}"
    res["checker_cmd"] = (
        f"cd lean && lake build {target} skcdriver && lake env lean .audit/{pid}.lean  # '#print axioms' of each theorem"
        + (f" && lake env leanchecker {target}" if thorough else "")
    )
    try:
        names = property_theorems(pid)
    except FileNotFoundError:
        res["log"] = f"missing Skc/Props/{pid}.lean"
        res["failed"] = [target]
        return res
    res["obligations"] = len(names)
    with LeanLock():
        t0 = time.time()
        rc, out = _run(["lake", "build", target])
        res["build_s"] = round(time.time() - t0, 1)
        if rc != 0:
            res["log"] = out[-6000:]
            bad = re.findall(r"error: (\S+\.lean):(\d+):\d+", out)
            res["failed"] = [f"{target} (build failed" + (f" at {bad[0][0]}:{bad[0][1]}" if bad else "") + ")"]
        # the model driver links every property's model; a breakage there that is not this property's
        # own (its Props target built) must not be blamed on it: fall back to the last driver that linked
        rcd, outd = _run(["lake", "build", "skcdriver"])
        aud = LEAN / ".audit"
        aud.mkdir(exist_ok=True)
        good = aud / "skcdriver.good"
        if rcd == 0 and DRIVER.exists():
            tmp = aud / f"skcdriver.tmp{os.getpid()}"
            shutil.copy2(DRIVER, tmp)
            os.replace(tmp, good)
        else:
            res["driver_build_failed"] = outd[-3000:]
            if own_tables or not good.exists():
                res["failed"].append("skcdriver (model driver does not build: " + (re.findall(r"error: (\S+\.lean:\d+)", outd) or ["?"])[0] + ")")
        # private copy for this run: another check may relink the shared binary meanwhile
        for stale in aud.glob("skcdriver.run*"):
            try:
                if time.time() - stale.stat().st_mtime > 4 * 3600:
                    stale.unlink()
            except OSError:
                pass
        if good.exists():
            mine = aud / f"skcdriver.run{os.getpid()}"
            shutil.copy2(good, mine)
            os.utime(mine)  # copy2 keeps the source's mtime: without this a concurrent run would take a fresh copy for a stale one
            res["driver_path"] = str(mine)
        if rc != 0:
            return res
        hits = forbidden_tokens()
        if hits:
            res["log"] = "forbidden tokens:\n" + "\n".join(hits)
            res["failed"] = [f"source audit: {h}" for h in hits[:5]]
            return res
        aud = LEAN / ".audit"
        aud.mkdir(exist_ok=True)
        f = aud / f"{pid}.lean"
        f.write_text(f"import {target}\n" + "".join(f"#print axioms {n}\n" for n in names))
        rc, out = _run(["lake", "env", "lean", str(f)])
        if thorough and rc == 0:
            rc2, out2 = _run(["lake", "env", "leanchecker", target], timeout=3000)
            res["leanchecker"] = "ok" if rc2 == 0 else out2[-2000:]
            if rc2 != 0:
                res["failed"].append(f"leanchecker {target}")
    res["log"] = out[-6000:]
    # parse "'name' depends on axioms: [a, b]" / "'name' does not depend on any axioms"
    found = {}
    for m in re.finditer(r"'([^']+)' depends on axioms: \[([^\]]*)\]", out):
        found[m.group(1)] = {a.strip() for a in m.group(2).replace("\n", " ").split(",") if a.strip()}
    for m in re.finditer(r"'([^']+)' does not depend on any axioms", out):
        found[m.group(1)] = set()
    for n in names:
        if n not in found:
            res["failed"].append(f"{n} (not found by #print axioms)")
        elif not found[n] <= ALLOWED_AXIOMS:
            res["failed"].append(f"{n} (axioms {sorted(found[n] - ALLOWED_AXIOMS)})")
        else:
            res["discharged"] += 1
    res["axioms"] = sorted(set().union(*found.values())) if found else []
    res["ok"] = rc == 0 and not res["failed"]
    return res


def tie_check(pid: str, thorough: bool = False):
    """translator tie (DESIGN 16.5): regenerate the kernels this property uses from REPO's source, build the theorems that
    identify each regenerated kernel with the hand-written model kernel, audit their axioms.
    -> {kernel: "proved" | "lost: <why>"}; never raises an alarm by itself."""
    import translate

    ks = translate.for_property(pid)
    if not ks:
        return {}
    status = translate.run(REPO, pid)
    out = {}
    with LeanLock():
        todo = []
        for k in ks:
            nm = k["name"]
            if status[nm] != "ok":
                out[nm] = "lost: not translated: " + status[nm]
            elif not (LEAN / "Skc" / "Tie" / f"{nm}.lean").exists():
                out[nm] = "lost: no tie theorem file"
            else:
                todo.append(nm)
        rc, _ = _run(["lake", "build"] + [f"Skc.Tie.{nm}" for nm in todo]) if todo else (0, "")
        built = []
        for nm in todo:
            if rc != 0:
                rc1, o1 = _run(["lake", "build", f"Skc.Tie.{nm}"])
                if rc1 != 0:
                    bad = re.findall(r"error: (\S+\.lean:\d+)", o1)
                    out[nm] = "lost: the regenerated kernel is no longer proved equal to the model kernel" + (f" ({bad[0]})" if bad else "")
                    continue
            built.append(nm)
        if built:
            names = {}
            for nm in built + ["Basic"]:
                src = strip_lean_comments((LEAN / "Skc" / "Tie" / f"{nm}.lean").read_text())
                names[nm] = ["Skc.Tie." + x for x in re.findall(r"^\s*(?:@\[[^\]]*\]\s*)?theorem\s+([A-Za-z_][A-Za-z0-9_.']*)", src, flags=re.M)]
                for tok in ("sorry", "admit", "native_decide", "axiom ", "implemented_by", "unsafe "):
                    if tok in src:
                        names[nm] = None
            aud = LEAN / ".audit"
            aud.mkdir(exist_ok=True)
            f = aud / f"tie-{pid}.lean"
            f.write_text("".join(f"import Skc.Tie.{nm}\n" for nm in built + ["Basic"])
                         + "".join(f"#print axioms {n}\n" for nm in built + ["Basic"] for n in (names[nm] or [])))
            rc, o = _run(["lake", "env", "lean", str(f)])
            found = {}
            for m in re.finditer(r"'([^']+)' depends on axioms: \[([^\]]*)\]", o):
                found[m.group(1)] = {a.strip() for a in m.group(2).replace("\n", " ").split(",") if a.strip()}
            for m in re.finditer(r"'([^']+)' does not depend on any axioms", o):
                found[m.group(1)] = set()
            for nm in built:
                ns = names[nm]
                if ns is None or not ns:
                    out[nm] = "lost: tie file fails the source audit"
                elif all(n in found and found[n] <= ALLOWED_AXIOMS for n in ns + (names["Basic"] or [])):
                    out[nm] = "proved"
                else:
                    out[nm] = "lost: axiom audit of the tie theorem failed"
        if thorough and pid in ("C03", "C04", "C05", "C06", "C07", "C08", "C11", "C12", "C13") and all(v == "proved" for v in out.values()):
            # the property theorems transported onto the regenerated kernels (Skc/Tie/Source.lean)
            src = strip_lean_comments((LEAN / "Skc" / "Tie" / "Source.lean").read_text())
            ns = ["Skc.Source." + x for x in re.findall(r"^\s*theorem\s+([A-Za-z_][A-Za-z0-9_.']*)", src, flags=re.M)]
            rc, _ = _run(["lake", "build", "Skc.Tie.Source"])
            if rc != 0:
                out["(source-level corollaries)"] = "lost: Skc/Tie/Source.lean does not build"
            else:
                f = LEAN / ".audit" / f"tie-source-{pid}.lean"
                f.write_text("import Skc.Tie.Source\n" + "".join(f"#print axioms {n}\n" for n in ns))
                rc, o = _run(["lake", "env", "lean", str(f)])
                okc = 0
                for m in re.finditer(r"'([^']+)' depends on axioms: \[([^\]]*)\]", o):
                    if {a.strip() for a in m.group(2).replace("\n", " ").split(",") if a.strip()} <= ALLOWED_AXIOMS:
                        okc += 1
                okc += len(re.findall(r"' does not depend on any axioms", o))
                out["(source-level corollaries)"] = "proved" if okc == len(ns) and rc == 0 else f"lost: {okc}/{len(ns)} corollaries pass the audit"
                if out["(source-level corollaries)"] == "proved":
                    rc2, _ = _run(["lake", "env", "leanchecker", "Skc.Tie.Source"], timeout=3000)
                    out["(source-level corollaries, leanchecker)"] = "ok" if rc2 == 0 else "lost: leanchecker rejects Skc.Tie.Source"
    return out


class Driver:
    """batch interface to the compiled Lean model"""

    def __init__(self, path=None):
        self.calls = 0
        self.wall = 0.0
        self.path = path or str(DRIVER)

    def batch(self, reqs, timeout=1800):
        if not reqs:
            return []
        t0 = time.time()
        data = "\n".join(json.dumps(r, separators=(",", ":")) for r in reqs) + "\n"
        p = subprocess.run([self.path], input=data, stdout=subprocess.PIPE, stderr=subprocess.PIPE, text=True, timeout=timeout)
        if p.returncode != 0:
            raise RuntimeError(f"skcdriver exited {p.returncode}: {p.stderr[-2000:]}")
        lines = p.stdout.splitlines()
        if len(lines) != len(reqs):
            raise RuntimeError(f"skcdriver answered {len(lines)} lines for {len(reqs)} requests")
        self.calls += len(reqs)
        self.wall += time.time() - t0
        return [json.loads(l) for l in lines]


# --------------------------------------------------------------------------- findings / evidence


def load_known():
    p = VERIF / "known_findings.json"
    if not p.exists():
        return []
    return json.loads(p.read_text())


def known_match(pid: str, finding: dict, known: list):
    """a finding is a known finding iff its identity dict equals the identity of an entry with
    status 'known' for the same property (fixed entries suppress nothing)"""
    ident = finding.get("identity")
    if not ident:
        return None
    for k in known:
        if k.get("property") == pid and k.get("status") == "known" and k.get("identity") == ident:
            return k
    return None


def jsonable(x):
    import numpy as np

    if isinstance(x, dict):
        return {str(k): jsonable(v) for k, v in x.items()}
    if isinstance(x, (list, tuple, set, frozenset)):
        return [jsonable(v) for v in x]
    if isinstance(x, Fraction):
        return f"{x.numerator}/{x.denominator}"
    if isinstance(x, np.ndarray):
        return jsonable(x.tolist())
    if isinstance(x, (np.integer,)):
        return int(x)
    if isinstance(x, (np.floating,)):
        return float(x)
    if isinstance(x, (np.bool_,)):
        return bool(x)
    if isinstance(x, float) and not math.isfinite(x):
        return repr(x)
    if isinstance(x, (str, int, float, bool)) or x is None:
        return x
    return repr(x)


def write_replay(pid, tier, seed, kind, broken, finding):
    d = VERIF / "replays"
    d.mkdir(exist_ok=True)
    body = {
        "property": pid,
        "seed": seed,
        "tier": tier,
        "kind": kind,
        "broken": broken,
        "what": finding.get("what") if finding else None,
        "case": jsonable(finding.get("case")) if finding else None,
        "expected": jsonable(finding.get("expected")) if finding else None,
        "observed": jsonable(finding.get("observed")) if finding else None,
        "how_to_replay": f"./check {pid} --replay <this file>",
    }
    h = hashlib.sha1(json.dumps(body, sort_keys=True).encode()).hexdigest()[:12]
    p = d / f"{pid}-{h}.json"
    p.write_text(json.dumps(body, indent=1, sort_keys=True))
    return p.relative_to(VERIF)


def write_evidence(pid, tier, seed, coverage, assumptions, wall, violations):
    # the committed evidence describes runs against /repo itself; self-tests on scratch trees (SKC_REPO) write elsewhere
    d = VERIF / "evidence" if REPO.resolve() == Path("/repo") else VERIF / "replays" / "evidence-scratch"
    d.mkdir(parents=True, exist_ok=True)
    ev = {
        "property_id": pid,
        "tier": tier,
        "seed": seed,
        "level": "proof",
        "coverage": jsonable(coverage),
        "assumptions": assumptions,
        "wall_s": round(wall, 2),
        "violations": violations,
    }
    (d / f"{pid}.json").write_text(json.dumps(ev, indent=1, sort_keys=True))


def case_key(case) -> str:
    return hashlib.sha1(json.dumps(jsonable(case), sort_keys=True).encode()).hexdigest()


def corpus_cases(pid):
    d = VERIF / "corpus" / pid
    if not d.is_dir():
        return []
    out = []
    for p in sorted(d.glob("*.json")):
        c = json.loads(p.read_text())
        c.setdefault("_corpus", p.name)
        out.append(c)
    return out


class Ctx:
    def __init__(self, pid, tier, seed):
        self.pid, self.tier, self.seed = pid, tier, seed
        self.rng = random.Random(f"{pid}-{seed}")
        self.driver = Driver()
        self.thorough = tier == "thorough"

    def n(self, quick, thorough):
        if self.thorough:
            return thorough
        return min(thorough, 4 * quick) if getattr(self, "escalate", False) else quick


TRUSTED_BASE = [
    "Lean 4.33.0 kernel; Mathlib v4.33.0 lemmas (proved, not trusted)",
    "axioms admitted in property theorems: propext, Classical.choice, Quot.sound (audited by #print axioms on every run)",
    "no sorry/admit/axiom/native_decide/bv_decide/implemented_by/unsafe in lean/ (grepped on every run)",
    "hand-written Lean model of the Python code, tied to /repo by this run's correspondence (differential) check; for the numeric kernels "
    "listed under coverage.translator_tie additionally by harness/translate.py (Python ast -> Lean over the NumPy vocabulary of "
    "lean/Skc/Model/Np.lean, which is the trusted reading of NumPy broadcasting / reductions) and the theorems of lean/Skc/Tie/",
    "harness/ (generators, canonicalisation, 1e-9*scale tolerance rule) and /venv (numpy, pandas, scipy, scikit-learn, PuLP/CBC)",
]
