"""C02 machinery shared by `extract.accessors_c02` (the generated accessor table) and
`props/c02.py` (histories over the real objects): the public accessors of DecisionMatrix /
dominance / stats / results, every mutation channel that exists for the type of a returned
object, the bit-for-bit snapshot, and the dynamic classification of an accessor's hand-out kind.

Nothing in here looks at the source of the repository: everything is decided on live objects."""
from __future__ import annotations

import enum
import hashlib
import json
import struct
import warnings
from collections.abc import Mapping

import numpy as np
import pandas as pd

MAX_ALTS = 8  # dominance chains are at most this long: dominators_of returns < 2**8 entries (DESIGN section 12)

# ----------------------------------------------------------------------------- canonical form


def _fbits(x):
    return struct.unpack("<Q", struct.pack("<d", float(x)))[0]


def canon(x, depth=0):
    """bit-exact, order-preserving, JSON-able description of anything the API reports"""
    if depth > 8:
        return ["deep", type(x).__name__]
    if x is None or isinstance(x, (bool, str)):
        return x
    if isinstance(x, enum.Enum):
        return ["enum", type(x).__name__, x.name]
    if isinstance(x, (int,)):
        return ["i", str(x)]
    if isinstance(x, float):
        return ["f", _fbits(x)]
    if isinstance(x, np.dtype):
        return ["dtype", x.str]
    if isinstance(x, np.generic):
        return ["np", x.dtype.str, x.tobytes().hex()] if x.dtype != object else ["npo", canon(x.item(), depth + 1)]
    if isinstance(x, np.ndarray):
        if x.dtype == object or x.dtype.kind in "US":
            return ["ndo", type(x).__name__, x.dtype.str, list(x.shape), [canon(v, depth + 1) for v in x.ravel().tolist()]]
        return ["nd", type(x).__name__, x.dtype.str, list(x.shape), np.ascontiguousarray(x).tobytes().hex()]
    # axis *names* (`index.name`, `columns.name`) are not part of what the matrix reports (labels and cells are)
    if isinstance(x, pd.MultiIndex):
        return ["MI", [canon(t, depth + 1) for t in x.tolist()]]
    if isinstance(x, pd.Index):
        return ["I", str(x.dtype), canon(np.asarray(x.to_numpy(), dtype=object) if x.dtype == object or str(x.dtype) in ("str", "string") else x.to_numpy(), depth + 1)]
    if isinstance(x, pd.Series):
        v = x.to_numpy()
        return ["S", str(x.dtype), canon(x.name, depth + 1), canon(x.index, depth + 1), canon(v, depth + 1)]
    if isinstance(x, pd.DataFrame):
        cols = [canon(x.iloc[:, j].to_numpy(), depth + 1) for j in range(x.shape[1])]
        return ["D", [str(d) for d in x.dtypes], canon(x.index, depth + 1), canon(x.columns, depth + 1), cols]
    if isinstance(x, Mapping):
        return ["map", type(x).__name__, [[canon(k, depth + 1), canon(x[k], depth + 1)] for k in x]]
    if isinstance(x, (list, tuple)):
        return [type(x).__name__, [canon(v, depth + 1) for v in x]]
    if isinstance(x, (set, frozenset)):
        return ["set", sorted(json.dumps(canon(v, depth + 1)) for v in x)]
    if callable(x):
        return ["callable", getattr(x, "__name__", type(x).__name__)]
    return ["repr", type(x).__name__, repr(x)[:200]]


def _axis_names(ix):
    return ["names", [canon(n) for n in ix.names]]


def canon_arg(x):
    """a CALLER'S OWN object (constructor argument) exactly as it is: `canon` (values bit for bit, dtypes, labels, order,
    container type) PLUS the axis names of a frame / Series / Index, which `canon` leaves out for what the MATRIX reports"""
    if isinstance(x, pd.DataFrame):
        return ["argD", canon(x), _axis_names(x.index), _axis_names(x.columns)]
    if isinstance(x, pd.Series):
        return ["argS", canon(x), _axis_names(x.index)]
    if isinstance(x, pd.Index):
        return ["argI", canon(x), _axis_names(x)]
    return ["arg", canon(x)]


def digest(c):
    return hashlib.sha1(json.dumps(c, separators=(",", ":"), sort_keys=False, default=str).encode()).hexdigest()[:16]


def immutable(x):
    if x is None or isinstance(x, (bool, int, float, complex, str, bytes, enum.Enum, np.generic, np.dtype, type)):
        return True
    if isinstance(x, (tuple, frozenset)):
        return all(immutable(v) for v in x)
    return False


# ----------------------------------------------------------------------------- accessors


class Acc:
    """one public accessor; `param` names the argument family it is instantiated over"""

    def __init__(self, name, owner, fn, param=None, only=None):
        self.name, self.owner, self.fn, self.param, self.only = name, owner, fn, param, only


_STATS = ["corr", "cov", "describe", "kurtosis", "max", "mean", "median", "min", "pct_change", "quantile", "sem", "skew", "std",
          "var", "mad"]


def _stat(name):
    return lambda s: getattr(s.dm.stats, name)()


def _td(key):
    return lambda s: s.dm.to_dict()[key]


def _describe(s):
    # deprecated method: its decorator forces the warning through any filter; record it instead of printing
    with warnings.catch_warnings(record=True):
        return s.dm.describe()


ACCESSORS = [
    Acc("dm.matrix", "dm", lambda s: s.dm.matrix),
    Acc("dm.weights", "dm", lambda s: s.dm.weights),
    Acc("dm.objectives", "dm", lambda s: s.dm.objectives),
    Acc("dm.iobjectives", "dm", lambda s: s.dm.iobjectives),
    Acc("dm.alternatives", "dm", lambda s: s.dm.alternatives),
    Acc("dm.criteria", "dm", lambda s: s.dm.criteria),
    Acc("dm.dtypes", "dm", lambda s: s.dm.dtypes),
    Acc("dm.minwhere", "dm", lambda s: s.dm.minwhere),
    Acc("dm.maxwhere", "dm", lambda s: s.dm.maxwhere),
    Acc("dm.shape", "dm", lambda s: s.dm.shape),
    Acc("dm.alternatives[a]", "dm", lambda s, a: s.dm.alternatives[s.alts[a]], param="alt"),
    Acc("dm.criteria[c]", "dm", lambda s, c: s.dm.criteria[s.crits[c]], param="crit"),
    Acc("dm.to_dict()[matrix]", "dm", _td("matrix")),
    Acc("dm.to_dict()[objectives]", "dm", _td("objectives")),
    Acc("dm.to_dict()[weights]", "dm", _td("weights")),
    Acc("dm.to_dict()[dtypes]", "dm", _td("dtypes")),
    Acc("dm.to_dict()[alternatives]", "dm", _td("alternatives")),
    Acc("dm.to_dict()[criteria]", "dm", _td("criteria")),
    Acc("dm.to_dataframe()", "dm", lambda s: s.dm.to_dataframe()),
    Acc("dm.describe()", "dm", _describe),
    Acc("dm.dominance()", "dm", lambda s: s.dm.dominance()),
    Acc("dm.dominance.bt()", "dm", lambda s: s.dm.dominance.bt()),
    Acc("dm.dominance.eq()", "dm", lambda s: s.dm.dominance.eq()),
    Acc("dm.dominance.dominance()", "dm", lambda s: s.dm.dominance.dominance()),
    Acc("dm.dominance.dominance(strict)", "dm", lambda s: s.dm.dominance.dominance(strict=True)),
    Acc("dm.dominance.compare(a,b)", "dm", lambda s, a, b: s.dm.dominance.compare(s.alts[a], s.alts[b]), param="altpair"),
    Acc("dm.dominance.dominated()", "dm", lambda s: s.dm.dominance.dominated()),
    Acc("dm.dominance.dominated(strict)", "dm", lambda s: s.dm.dominance.dominated(strict=True)),
    Acc("dm.dominance.dominators_of(a)", "dm", lambda s, a: s.dm.dominance.dominators_of(s.alts[a]), param="alt"),
    Acc("dm.dominance.dominators_of(a,strict)", "dm", lambda s, a: s.dm.dominance.dominators_of(s.alts[a], strict=True), param="alt"),
    Acc("dm.dominance.has_loops()", "dm", lambda s: s.dm.dominance.has_loops()),
    Acc("dm.dominance.has_loops(strict)", "dm", lambda s: s.dm.dominance.has_loops(strict=True)),
    Acc("dm.stats()", "dm", lambda s: s.dm.stats()),
] + [Acc(f"dm.stats.{n}()", "dm", _stat(n)) for n in _STATS] + [
    Acc("res.values", "res", lambda s: s.res.values),
    Acc("res.alternatives", "res", lambda s: s.res.alternatives),
    Acc("res.method", "res", lambda s: s.res.method),
    Acc("res.shape", "res", lambda s: s.res.shape),
    Acc("res.to_series()", "res", lambda s: s.res.to_series()),
    Acc("res.to_series(untied)", "res", lambda s: s.res.to_series(untied=True), only="rank"),
    Acc("res.rank_", "res", lambda s: s.res.rank_, only="rank"),
    Acc("res.untied_rank_", "res", lambda s: s.res.untied_rank_, only="rank"),
    Acc("res.ties_", "res", lambda s: s.res.ties_, only="rank"),
    Acc("res.kernel_", "res", lambda s: s.res.kernel_, only="kernel"),
    Acc("res.kernel_where_", "res", lambda s: s.res.kernel_where_, only="kernel"),
    Acc("res.kernel_alternatives_", "res", lambda s: s.res.kernel_alternatives_, only="kernel"),
]
ACC = {a.name: a for a in ACCESSORS}


class Subject:
    """a decision matrix (+ optionally a result obtained from it) and the caller's own arrays"""

    def __init__(self, dm, args, res=None):
        self.dm, self.args, self.res = dm, args, res
        # "inputs never mutated" (filled in by build_subject): the caller's own objects as they were right BEFORE the
        # constructor ran, and those the constructor / the evaluate() that produced the result left different
        self.arg_before, self.ctor_changed = None, []
        d = dm.to_dict()  # not list(dm.criteria): iterating an _ACArray goes through its label lookup
        self.alts = d["alternatives"].tolist()
        self.crits = d["criteria"].tolist()
        self.rkind = None
        if res is not None:
            self.rkind = "kernel" if type(res).__name__ == "KernelResult" else "rank"

    def instances(self, max_alt=None, max_pairs=None):
        """the accessor alphabet of this subject: list of (generic name, args tuple)"""
        out = []
        m = len(self.alts) if max_alt is None else min(max_alt, len(self.alts))
        for a in ACCESSORS:
            if a.owner == "res" and (self.res is None or (a.only and a.only != self.rkind)):
                continue
            if a.param is None:
                out.append((a.name, ()))
            elif a.param == "alt":
                out.extend((a.name, (i,)) for i in range(m))
            elif a.param == "crit":
                out.extend((a.name, (j,)) for j in range(len(self.crits)))
            elif a.param == "altpair":
                pairs = [(i, j) for i in range(m) for j in range(m) if i != j]
                out.extend((a.name, p) for p in (pairs if max_pairs is None else pairs[:max_pairs]))
        return out

    def arg_canon(self):
        return {k: canon_arg(v) for k, v in self.args.items()}

    def arg_snapshot(self):
        return {k: digest(canon_arg(v)) for k, v in self.args.items()}

    def read(self, inst):
        name, args = inst
        with warnings.catch_warnings():
            warnings.simplefilter("ignore")
            return ACC[name].fn(self, *tuple(args))

    def report(self, inst):
        """canonical form of what the accessor reports now (an exception is a report too)"""
        try:
            return canon(self.read(inst))
        except RecursionError:
            return ["raised", "RecursionError"]
        except Exception as e:
            return ["raised", type(e).__name__]

    def snapshot(self, insts):
        """digest of what every accessor instance reports now (`to_dict()` is called once for its six entries)"""
        out, td = [], None
        for i in insts:
            if i[0].startswith("dm.to_dict()["):
                if td is None:
                    try:
                        td = {k: canon(v) for k, v in self.dm.to_dict().items()}
                    except Exception as e:
                        td = {"_raised": type(e).__name__}
                out.append(digest(td.get(i[0][len("dm.to_dict()["):-1], ["raised", td.get("_raised")])))
            else:
                out.append(digest(self.report(i)))
        return out


class quiet:
    """the deprecation decorators of the library force their warnings through any filter: record them instead"""

    def __enter__(self):
        self._w = warnings.catch_warnings(record=True)
        self._w.__enter__()
        self._e = np.errstate(all="ignore")
        self._e.__enter__()

    def __exit__(self, *a):
        self._e.__exit__(*a)
        self._w.__exit__(*a)


def build_subject(case):
    """the subject of a case: the matrix (+ result) and the caller's own arrays, as live objects"""
    import pandas as pd

    import methods as M
    import skcriteria as skc

    d = case["dm"]
    Mx = np.array(d["matrix"], dtype=float)
    w = np.array(d["weights"], dtype=float)
    if d["objdtype"] == "object-fn":
        obj = np.array([max if o == 1 else min for o in d["objectives"]], dtype=object)
    elif d["objdtype"] == "int":
        obj = np.array(d["objectives"])
    else:
        obj = np.array(list(d["objectives"]), dtype=object)
    alts, crits = list(d["alternatives"]), list(d["criteria"])
    if d.get("argform") == "list":  # the documented "iterable" arguments as plain lists instead of arrays
        obj, w = obj.tolist(), w.tolist()
    with quiet():
        if d["ctor"] == "df":
            df, args = _caller_frame(d, Mx, alts, crits)
            args.update(objectives=obj, weights=w)
            before = _arg_canon(args)
            dm = skc.DecisionMatrix(df, obj, w)
        elif d["ctor"] == "ndarray":
            args = {"matrix": Mx, "objectives": obj, "weights": w}
            before = _arg_canon(args)
            dm = skc.DecisionMatrix(Mx, obj, w)
        else:
            if d.get("argform") == "list":
                a_arr, c_arr = list(alts), list(crits)
            else:
                a_arr = np.array(alts, dtype=object if isinstance(alts[0], str) else None)
                c_arr = np.array(crits, dtype=object if isinstance(crits[0], str) else None)
            args = {"matrix": Mx, "objectives": obj, "weights": w, "alternatives": a_arr, "criteria": c_arr}
            before = _arg_canon(args)
            dm = skc.mkdm(Mx, obj, weights=w, alternatives=a_arr, criteria=c_arr)
        after_ctor = _arg_canon(args)
        res = None
        if case.get("res"):
            try:
                res = M.build(case["res"]).evaluate(dm)
            except Exception:
                res = None
        after_eval = _arg_canon(args)
    s = Subject(dm, args, res)
    s.arg_before = before
    s.ctor_changed = _arg_diff(before, after_ctor, f"the constructor ({'mkdm' if d['ctor'] == 'mkdm' else 'DecisionMatrix'})") \
        + _arg_diff(after_ctor, after_eval, "evaluate() of the decision maker on the new matrix")
    return s


def _arg_canon(args):
    return {k: canon_arg(v) for k, v in args.items()}


def _arg_diff(a, b, by):
    return [{"arg": k, "by": by, "before": a[k], "after": b[k]} for k in sorted(a) if a[k] != b[k]]


AXIS_NAME_POOL = ["vehicle", "feature", "Alternatives", "Criteria", "id", "name", "alt", "crit", "index", 0, 7]
FRAME_MAKERS = ["index", "setattr", "rename_axis", "read_csv", "pivot"]


def _caller_frame(d, Mx, alts, crits):
    """the caller's own DataFrame (and the objects it was made of).  `d["axisnames"]` = {"index": name | None, "columns":
    name | None} and `d["frame"]` say how the frame came about: Index objects built with a name (`index`, the default), a
    name assigned afterwards (`df.index.name = ...`), `rename_axis`, a CSV file read back with `read_csv(index_col=0)`
    (the index is named after the header cell), or a long table turned into a wide one by `pivot` (both axes named)"""
    an = d.get("axisnames") or {}
    iname, cname = an.get("index"), an.get("columns")
    how = d.get("frame", "index")
    if how == "read_csv":
        import io

        text = pd.DataFrame(Mx, index=pd.Index(alts, name=iname if iname is not None else "alt"),
                            columns=pd.Index(crits)).to_csv()
        df = pd.read_csv(io.StringIO(text), index_col=0, float_precision="round_trip")
        if cname is not None:
            df.columns.name = cname
        if isinstance(df.index, pd.RangeIndex):  # evenly spaced integer labels: RangeIndex axes are outside the domain
            df.index = pd.Index(np.array(df.index), name=df.index.name)
        return df, {"df": df, "df_index": df.index, "df_columns": df.columns}
    if how == "pivot":
        i_, c_ = str(iname if iname is not None else "alt"), str(cname if cname is not None else "crit")
        if c_ == i_:
            c_ += "_c"
        long = pd.DataFrame({i_: np.repeat(np.array(alts, dtype=object), len(crits)),
                             c_: np.tile(np.array(crits, dtype=object), len(alts)), "_value": Mx.ravel()})
        df = long.pivot(index=i_, columns=c_, values="_value").loc[alts, crits]  # pivot sorts the labels: restore the order
        return df, {"df": df, "df_index": df.index, "df_columns": df.columns}
    if how == "index":
        idx, cols = pd.Index(alts, name=iname), pd.Index(crits, name=cname)
        df = pd.DataFrame(Mx, index=idx, columns=cols)
        return df, {"df": df, "df_base": Mx, "df_index": idx, "df_columns": cols}
    idx, cols = pd.Index(alts), pd.Index(crits)
    df = pd.DataFrame(Mx, index=idx, columns=cols)
    if how == "setattr":
        df.index.name, df.columns.name = iname, cname
    else:
        df = df.rename_axis(index=iname, columns=cname)
    return df, {"df": df, "df_base": Mx, "df_index": df.index, "df_columns": df.columns}


# ----------------------------------------------------------------------------- mutation channels


class Skip(Exception):
    """the channel does not exist for this object (not a refusal)"""


def _newval(old):
    """a value of the same kind as `old`, different from it"""
    if isinstance(old, (bool, np.bool_)):
        return not bool(old)
    if isinstance(old, (np.integer,)):
        info = np.iinfo(old.dtype)
        return old.dtype.type(int(old) + 1 if int(old) < info.max else int(old) - 1)
    if isinstance(old, int):
        return old + 1
    if isinstance(old, (float, np.floating)):
        return 99.5 if not np.isfinite(old) else float(old) + 1.0
    if isinstance(old, str):
        return "HACK" if old != "HACK" else "HACK2"
    return "HACK"


def _unlock(a):
    a.setflags(write=True)
    return a


def _idx(a, pos):
    if a.size == 0:
        raise Skip("empty")
    return np.unravel_index(pos % a.size, a.shape)


def _nd_root(a):
    b = a.base
    while b is not None and not isinstance(b, np.ndarray):
        b = getattr(b, "base", None)
    if b is None:
        raise Skip("no base")
    return b


def _nd_channels():
    def setitem(a, pos):
        i = _idx(a, pos)
        a[i] = _newval(np.ndarray.__getitem__(a, i))

    def flat(a, pos):
        i = _idx(a, pos)
        a.flat[pos % a.size] = _newval(np.ndarray.__getitem__(a, i))

    def nd_setitem(a, pos):
        i = _idx(a, pos)
        np.ndarray.__setitem__(a, i, _newval(np.ndarray.__getitem__(a, i)))

    def setflags_nd_setitem(a, pos):
        i = _idx(a, pos)
        _unlock(a)
        np.ndarray.__setitem__(a, i, _newval(np.ndarray.__getitem__(a, i)))

    def view(a, pos):
        i = _idx(a, pos)
        v = a.view(np.ndarray)
        v[i] = _newval(v[i])

    def base(a, pos):
        b = _nd_root(a)
        _unlock(b)
        i = _idx(b, pos)
        b[i] = _newval(b[i])

    def fill(a, pos):
        i = _idx(a, pos)
        a.fill(_newval(np.ndarray.__getitem__(a, i)))

    def put(a, pos):
        i = _idx(a, pos)
        np.put(a, [pos % a.size], [_newval(np.ndarray.__getitem__(a, i))])

    return dict(setitem=setitem, flat=flat, nd_setitem=nd_setitem, setflags_nd_setitem=setflags_nd_setitem, view=view,
                base=base, fill=fill, put=put)


ND = _nd_channels()


def _raw_write(arr, pos):
    """write into whatever array object pandas hands out (ndarray, possibly read-only, or an ExtensionArray)"""
    if isinstance(arr, np.ndarray):
        if arr.size == 0:
            raise Skip("empty")
        _unlock(arr)
        i = _idx(arr, pos)
        arr[i] = _newval(arr[i])
    else:
        if len(arr) == 0:
            raise Skip("empty")
        p = pos % len(arr)
        arr[p] = _newval(arr[p])


def _index_channels(get):
    """channels into a pandas Index reached through `get(obj)`"""

    def values(o, pos):
        _raw_write(get(o).values, pos)

    def array(o, pos):
        _raw_write(get(o).array, pos)

    def to_numpy(o, pos):
        _raw_write(get(o).to_numpy(), pos)

    def asarray(o, pos):
        _raw_write(np.asarray(get(o)), pos)

    return dict(values=values, array=array, to_numpy=to_numpy, asarray=asarray)


def _series_channels():
    def iloc(s, pos):
        if len(s) == 0:
            raise Skip("empty")
        p = pos % len(s)
        s.iloc[p] = _newval(s.iloc[p])

    def loc(s, pos):
        if len(s) == 0:
            raise Skip("empty")
        p = pos % len(s)
        s.loc[s.index[p]] = _newval(s.iloc[p])

    def values(s, pos):
        a = s.values
        if len(a) == 0:
            raise Skip("empty")
        p = pos % len(a)
        a[p] = _newval(a[p])

    def values_setflags(s, pos):
        _raw_write(s.values, pos)

    def to_numpy(s, pos):
        _raw_write(s.to_numpy(), pos)

    def array(s, pos):
        _raw_write(s.array, pos)

    def asarray(s, pos):
        _raw_write(np.asarray(s), pos)

    def iloc_all(s, pos):
        if len(s) == 0:
            raise Skip("empty")
        s.iloc[:] = _newval(s.iloc[pos % len(s)])

    def sort_inplace(s, pos):
        s.sort_values(ascending=bool(pos % 2), inplace=True)

    def setname(s, pos):
        s.name = "HACK"

    ch = dict(iloc=iloc, loc=loc, values=values, values_setflags=values_setflags, to_numpy=to_numpy, array=array,
              asarray=asarray, iloc_all=iloc_all, sort_inplace=sort_inplace, setname=setname)
    for k, f in _index_channels(lambda s: s.index).items():
        ch["index." + k] = f
    return ch


def _frame_channels():
    def rc(d, pos):
        if d.size == 0:
            raise Skip("empty")
        return divmod(pos % d.size, d.shape[1])

    def iloc(d, pos):
        r, c = rc(d, pos)
        d.iloc[r, c] = _newval(d.iloc[r, c])

    def iat(d, pos):
        r, c = rc(d, pos)
        d.iat[r, c] = _newval(d.iat[r, c])

    def loc(d, pos):
        r, c = rc(d, pos)
        d.loc[d.index[r], d.columns[c]] = _newval(d.iloc[r, c])

    def values(d, pos):
        r, c = rc(d, pos)
        a = d.values
        a[r, c] = _newval(a[r, c])

    def values_setflags(d, pos):
        _raw_write(d.values, pos)

    def to_numpy(d, pos):
        _raw_write(d.to_numpy(), pos)

    def asarray(d, pos):
        _raw_write(np.asarray(d), pos)

    def col_values(d, pos):
        r, c = rc(d, pos)
        _raw_write(d.iloc[:, c].values, r)

    def col_array(d, pos):
        r, c = rc(d, pos)
        _raw_write(d.iloc[:, c].array, r)

    def row_values(d, pos):
        r, c = rc(d, pos)
        _raw_write(d.iloc[r].values, c)

    def transpose_values(d, pos):
        _raw_write(d.T.values, pos)

    def iloc_col(d, pos):
        r, c = rc(d, pos)
        d.iloc[:, c] = _newval(d.iloc[r, c])

    def blocks(d, pos):
        # the arrays the frame is made of, through the public (if discouraged) `_mgr`-free route: `d.to_numpy(copy=False)`
        # is covered above; here: every column's backing array via `__array__`
        r, c = rc(d, pos)
        _raw_write(d[d.columns[c]].__array__(), r) if d.columns.is_unique else _raw_write(d.iloc[:, c].__array__(), r)

    def sort_inplace(d, pos):
        if d.shape[1] == 0:
            raise Skip("empty")
        d.sort_values(by=d.columns[pos % d.shape[1]], ascending=bool(pos % 2), inplace=True)

    ch = dict(iloc=iloc, iat=iat, loc=loc, values=values, values_setflags=values_setflags, to_numpy=to_numpy, asarray=asarray,
              col_values=col_values, col_array=col_array, row_values=row_values, transpose_values=transpose_values,
              iloc_col=iloc_col, blocks=blocks, sort_inplace=sort_inplace)
    for k, f in _index_channels(lambda d: d.index).items():
        ch["index." + k] = f
    for k, f in _index_channels(lambda d: d.columns).items():
        ch["columns." + k] = f
    return ch


SERIES = _series_channels()
FRAME = _frame_channels()
INDEX = _index_channels(lambda ix: ix)


def channels(x):
    """name -> function(obj, pos) for every mutation channel that exists for the type of `x`"""
    if isinstance(x, np.ndarray):
        return dict(ND)
    if isinstance(x, pd.Series):
        return dict(SERIES)
    if isinstance(x, pd.DataFrame):
        return dict(FRAME)
    if isinstance(x, pd.Index):
        return dict(INDEX)
    if isinstance(x, (dict, Mapping)) and not immutable(x):
        out = {}
        for k in x:
            for cn, f in channels(x[k]).items():
                out[f"[{k}].{cn}"] = (lambda f, k: (lambda o, pos: f(o[k], pos)))(f, k)
        return out
    if isinstance(x, (list, tuple)):
        out = {}
        for k, v in enumerate(x):
            for cn, f in channels(v).items():
                out[f"[{k}].{cn}"] = (lambda f, k: (lambda o, pos: f(o[k], pos)))(f, k)
        return out
    return {}


def attempt(x, channel, pos):
    """try one write; returns None if it was carried out, the exception name if the object refused,
    'skip' if the channel does not exist here"""
    f = channels(x).get(channel)
    if f is None:
        return "skip"
    try:
        with warnings.catch_warnings():
            warnings.simplefilter("ignore")
            f(x, pos)
        return None
    except Skip:
        return "skip"
    except RecursionError:
        raise
    except Exception as e:  # the object refused this write
        return type(e).__name__


# ----------------------------------------------------------------------------- classification


CORE = [("dm.to_dict()[matrix]", ()), ("dm.to_dict()[objectives]", ()), ("dm.to_dict()[weights]", ()),
        ("dm.to_dict()[dtypes]", ()), ("dm.to_dict()[alternatives]", ()), ("dm.to_dict()[criteria]", ()),
        ("res.values", ()), ("res.alternatives", ()), ("res.to_series()", ())]


def classify(make_subject, name, probes=2):
    """hand-out kind of one generic accessor, decided on live objects.

    memoShared  : two reads give the same (mutable) object, or a write into a returned object through some
                  channel shows up afterwards in what the matrix / result reports (the six parts of `to_dict()`,
                  the result's values / alternatives / series) or in a re-read of the same accessor
    memoThenCopy: the answer is cached by the class (the second read is served from a cache: detected by
                  the lru_cache hit counters of the object) but what is handed out is a fresh copy
    freshCopy   : otherwise
    `guarded`   : plain `obj[i] = v` on the returned object is refused"""
    s0 = make_subject()
    insts = [i for i in s0.instances() if i[0] == name]
    if not insts:
        return None
    leaks, guarded, shared_identity = [], False, False
    for inst in insts[:probes]:
        watch = [c for c in CORE if s0.res is not None or not c[0].startswith("res.")] + [inst]
        s = make_subject()
        try:
            a, b = s.read(inst), s.read(inst)
        except Exception:
            continue  # the accessor raises on this subject: nothing is handed out
        if a is b and not immutable(a):
            shared_identity = True
        if isinstance(a, np.ndarray):
            guarded = guarded or attempt(a, "setitem", 0) not in (None, "skip")
        t, before = None, None
        for ch in sorted(channels(a)):
            if t is None:  # a subject is reused until something leaked into it
                t = make_subject()
                before = t.snapshot(watch)
            o = t.read(inst)
            if attempt(o, ch, 0) is not None:
                continue
            after = t.snapshot(watch)
            if before != after:
                changed = [f"{n}{list(a_)}" if a_ else n for (n, a_), x, y in zip(watch, before, after) if x != y]
                leaks.append({"channel": ch, "inst": list(inst[1]), "changed": changed[:6]})
                t = None
    cached = _is_cached(make_subject(), insts[0])
    kind = "memoShared" if (shared_identity or leaks) else ("memoThenCopy" if cached else "freshCopy")
    return {"name": name, "kind": kind, "guarded": bool(guarded), "identity": shared_identity, "leaks": leaks, "cached": cached}


def _cache_sizes(s):
    """sizes of every methodtools.lru_cache hanging off the matrix and its accessors"""
    out = {}
    for owner_name, owner in (("dm", s.dm), ("dominance", s.dm.dominance), ("stats", s.dm.stats)):
        for k, v in list(vars(owner).items()):
            if hasattr(v, "cache_info"):
                try:
                    out[(owner_name, k)] = (v.cache_info().hits, v.cache_info().currsize)
                except Exception:
                    pass
    return out


def _is_cached(s, inst):
    """does a second read of the accessor get served by a cache of the class? (lru_cache hit counters)"""
    s.read(inst)
    c1 = _cache_sizes(s)
    s.read(inst)
    c2 = _cache_sizes(s)
    for k, (hits, size) in c2.items():
        if k[1] in ("__wire|DecisionMatrix|stats", "__wire|DecisionMatrix|dominance", "__wire|DecisionMatrix|plot"):
            continue
        h1 = c1.get(k, (0, 0))[0]
        if hits > h1:
            return True
    return False


def classify_ctor(variants):
    """constructor arguments that stay roots of the matrix: for every constructor variant (a case dict) and every
    array / frame / Index object the caller handed over, write into it through every channel of its type and
    see whether the matrix reports something else.  Returns [("<ctor>.<argument>", channel)]."""
    watch = [c for c in CORE if not c[0].startswith("res.")]
    kept = []
    for case in variants:
        names = sorted(build_subject(case).args)
        for arg in names:
            t, before = None, None
            probe = build_subject(case)
            for ch in sorted(channels(probe.args[arg])):
                if t is None:
                    t = build_subject(case)
                    before = t.snapshot(watch)
                if attempt(t.args[arg], ch, 0) is not None:
                    continue
                if t.snapshot(watch) != before:
                    kept.append((f"{case['dm']['ctor']}.{arg}", ch))
                    break
    return kept
