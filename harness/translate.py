"""Translator: the numeric kernels of /repo, read with `ast`, written statement by statement as Lean definitions
over the NumPy vocabulary of lean/Skc/Model/Np.lean (one file per kernel under lean/Skc/Generated/K/).
lean/Skc/Tie/<kernel>.lean proves that the regenerated kernel is the hand-written model kernel.

The translation is deliberately small: straight-line code (assignments to a name, one return), NumPy calls of the
vocabulary below, arithmetic, comparisons.  Anything else is reported as "untranslated" — the tie for that kernel is
then lost (the correspondence check remains the tie to the code; see DESIGN 16.5), never guessed."""
from __future__ import annotations

import ast
from pathlib import Path

import common as C

OUT = C.VERIF / "lean" / "Skc" / "Generated" / "K"

CTX = ("variable {α : Type} [Add α] [Sub α] [Mul α] [Div α] [Neg α] [OfNat α 0] [OfNat α 1] [NatCast α] [LT α] [LE α] [Max α] [Min α]\n"
       "  [DecidableEq α] [DecidableRel (α := α) (· < ·)] [DecidableRel (α := α) (· ≤ ·)] [MathFns α]\n"
       "variable {m n : Nat} [NeZero m] [NeZero n]\n")

M, V, S = "A2 m n α", "A1 n α", "A0 α"
# name -> source, Lean parameter types (in the order of the Python signature; a missing name is bound to a constant in `bind`),
# result type, which element of the returned tuple (None: the returned expression itself), properties that use the kernel,
# and the call sites whose constant arguments the binding relies on: (file, class, method, callee, {kw: const})
KERNELS = [
    dict(name="wsm", file="skcriteria/agg/simple.py", fn="wsm", params={"matrix": M, "weights": V}, ret="A1 m α", pick=1, pids=["C03", "C04", "C05", "C06"]),
    dict(name="wpm", file="skcriteria/agg/simple.py", fn="wpm", params={"matrix": M, "weights": V}, ret="A1 m α", pick=1, pids=["C03", "C04", "C05", "C06"]),
    dict(name="ratio", file="skcriteria/agg/moora.py", fn="ratio", params={"matrix": M, "objectives": V, "weights": V}, ret="A1 m α", pick=1,
         pids=["C03", "C04", "C05", "C06"]),
    dict(name="refpoint", file="skcriteria/agg/moora.py", fn="refpoint", params={"matrix": M, "objectives": V, "weights": V}, ret="A1 m α", pick=1,
         pids=["C03", "C04", "C05", "C06"]),
    dict(name="fmf", file="skcriteria/agg/moora.py", fn="fmf", params={"matrix": M, "objectives": V, "weights": V}, ret="A1 m α", pick=1,
         pids=["C03", "C04", "C05", "C06"]),
    dict(name="refpoint_reference", file="skcriteria/agg/moora.py", fn="refpoint", params={"matrix": M, "objectives": V, "weights": V}, ret="A1 n α",
         pick=2, pids=["C04"]),
    dict(name="topsis_ideal", file="skcriteria/agg/similarity.py", fn="topsis",
         params={"matrix": M, "objectives": V, "weights": V, "metric": "Vec n α → Vec n α → α"}, ret="A1 n α", pick=1, pids=["C04"]),
    dict(name="topsis_anti_ideal", file="skcriteria/agg/similarity.py", fn="topsis",
         params={"matrix": M, "objectives": V, "weights": V, "metric": "Vec n α → Vec n α → α"}, ret="A1 n α", pick=2, pids=["C04"]),
    dict(name="topsis_similarity", file="skcriteria/agg/similarity.py", fn="topsis",
         params={"matrix": M, "objectives": V, "weights": V, "metric": "Vec n α → Vec n α → α"}, ret="A1 m α", pick=3,
         pids=["C03", "C04", "C05", "C06"]),
    dict(name="rank_values", file="skcriteria/utils/rank.py", fn="rank_values", params={"arr": V, "reverse": "Bool"}, ret="A1 n Nat", pick=None,
         pids=["C03", "C04", "C05", "C06"]),
    dict(name="concordance", file="skcriteria/agg/electre.py", fn="concordance", params={"matrix": M, "objectives": V, "weights": V},
         ret="A2 m m (Option α)", pick=None, pids=["C08", "C03", "C05"]),
    dict(name="discordance", file="skcriteria/agg/electre.py", fn="discordance", params={"matrix": M, "objectives": V},
         ret="A2 m m (Option α)", pick=None, pids=["C08", "C03", "C05"]),
    dict(name="electre1_outrank", file="skcriteria/agg/electre.py", fn="electre1", params={"matrix": M, "objectives": V, "weights": V, "p": S, "q": S},
         ret="A2 m m Bool", pick=1, pids=["C08", "C03"]),
    dict(name="electre1_kernel", file="skcriteria/agg/electre.py", fn="electre1", params={"matrix": M, "objectives": V, "weights": V, "p": S, "q": S},
         ret="A1 m Bool", pick=0, pids=["C08", "C03"]),
    dict(name="weights_outrank", file="skcriteria/agg/electre.py", fn="weights_outrank", params={"matrix": M, "weights": V, "objectives": V},
         ret="A2 m m Bool", pick=None, pids=["C08"]),
    dict(name="electre2_wor", file="skcriteria/agg/electre.py", fn="electre2",
         params={"matrix": M, "objectives": V, "weights": V, "p0": S, "p1": S, "p2": S, "q0": S, "q1": S}, ret="A2 m m Bool", pick=5, pids=["C08"]),
    dict(name="electre2_strong", file="skcriteria/agg/electre.py", fn="electre2",
         params={"matrix": M, "objectives": V, "weights": V, "p0": S, "p1": S, "p2": S, "q0": S, "q1": S}, ret="A2 m m Bool", pick=6, pids=["C08"]),
    dict(name="electre2_weak", file="skcriteria/agg/electre.py", fn="electre2",
         params={"matrix": M, "objectives": V, "weights": V, "p0": S, "p1": S, "p2": S, "q0": S, "q1": S}, ret="A2 m m Bool", pick=7, pids=["C08"]),
    dict(name="wsm_refuses", kind="guards", file="skcriteria/agg/simple.py", cls="WeightedSumModel", fn="_evaluate_data",
         params={"matrix": M, "objectives": V}, unused=["weights"], call=("wsm", ["matrix", "weights"]), ret="Bool", pick=None, pids=["C04"]),
    dict(name="wpm_refuses", kind="guards", file="skcriteria/agg/simple.py", cls="WeightedProductModel", fn="_evaluate_data",
         params={"matrix": M, "objectives": V}, unused=["weights"], call=("wpm", ["matrix", "weights"]), ret="Bool", pick=None, pids=["C04"]),
    dict(name="fmf_refuses", kind="guards", file="skcriteria/agg/moora.py", cls="FullMultiplicativeForm", fn="_evaluate_data",
         params={"matrix": M}, unused=["objectives", "weights"], call=("fmf", ["matrix", "objectives", "weights"]), ret="Bool", pick=None, pids=["C04"]),
    dict(name="multimoora_refuses", kind="guards", file="skcriteria/agg/moora.py", cls="MultiMOORA", fn="_evaluate_data",
         params={"matrix": M}, unused=["objectives", "weights"], call=("multimoora", ["matrix", "objectives", "weights"]), ret="Bool", pick=None,
         pids=["C04"]),
    dict(name="dominance_eq_where", file="skcriteria/utils/rank.py", fn="dominance", params={"array_a": V, "array_b": V, "reverse": "A1 n Bool"},
         ret="A1 n Bool", pick="eq_where", pids=["C07"]),
    dict(name="dominance_aDb_where", file="skcriteria/utils/rank.py", fn="dominance", params={"array_a": V, "array_b": V, "reverse": "A1 n Bool"},
         ret="A1 n Bool", pick="aDb_where", pids=["C07"]),
    dict(name="dominance_bDa_where", file="skcriteria/utils/rank.py", fn="dominance", params={"array_a": V, "array_b": V, "reverse": "A1 n Bool"},
         ret="A1 n Bool", pick="bDa_where", pids=["C07"]),
    dict(name="dominance_eq", file="skcriteria/utils/rank.py", fn="dominance", params={"array_a": V, "array_b": V, "reverse": "A1 n Bool"},
         ret="A0 Nat", pick="eq", pids=["C07"]),
    dict(name="dominance_aDb", file="skcriteria/utils/rank.py", fn="dominance", params={"array_a": V, "array_b": V, "reverse": "A1 n Bool"},
         ret="A0 Nat", pick="aDb", pids=["C07"]),
    dict(name="dominance_bDa", file="skcriteria/utils/rank.py", fn="dominance", params={"array_a": V, "array_b": V, "reverse": "A1 n Bool"},
         ret="A0 Nat", pick="bDa", pids=["C07"]),
    dict(name="negate_minimize", file="skcriteria/preprocessing/invert_objectives.py", cls="NegateMinimize", fn="_invert",
         params={"matrix": M, "minimize_mask": "A1 n Bool"}, ret=M, pick=None, pids=["C12", "C10", "C05"]),
    dict(name="invert_minimize", file="skcriteria/preprocessing/invert_objectives.py", cls="InvertMinimize", fn="_invert",
         params={"matrix": M, "minimize_mask": "A1 n Bool"}, ret=M, pick=None, pids=["C12", "C10", "C05"]),
    dict(name="cenit", file="skcriteria/preprocessing/scalers.py", fn="matrix_scale_by_cenit_distance", params={"matrix": M, "objectives": V},
         ret=M, pick=None, pids=["C11", "C12"]),
    dict(name="scale_by_sum_M", file="skcriteria/preprocessing/scalers.py", fn="scale_by_sum", params={"arr": M}, bind={"axis": 0}, ret=M, pick=None,
         pids=["C11", "C12"], sites=[("skcriteria/preprocessing/scalers.py", "SumScaler", "_transform_matrix", "scale_by_sum", {"axis": 0})]),
    dict(name="scale_by_sum_V", file="skcriteria/preprocessing/scalers.py", fn="scale_by_sum", params={"arr": V}, bind={"axis": None}, ret=V, pick=None,
         pids=["C11"], sites=[("skcriteria/preprocessing/scalers.py", "SumScaler", "_transform_weights", "scale_by_sum", {"axis": None})]),
    dict(name="scale_by_vector_M", file="skcriteria/preprocessing/scalers.py", fn="scale_by_vector", params={"arr": M}, bind={"axis": 0}, ret=M, pick=None,
         pids=["C11", "C12"], sites=[("skcriteria/preprocessing/scalers.py", "VectorScaler", "_transform_matrix", "scale_by_vector", {"axis": 0})]),
    dict(name="scale_by_vector_V", file="skcriteria/preprocessing/scalers.py", fn="scale_by_vector", params={"arr": V}, bind={"axis": None}, ret=V,
         pick=None, pids=["C11"], sites=[("skcriteria/preprocessing/scalers.py", "VectorScaler", "_transform_weights", "scale_by_vector", {"axis": None})]),
    dict(name="push_negatives_M", file="skcriteria/preprocessing/push_negatives.py", fn="push_negatives", params={"arr": M}, bind={"axis": 0}, ret=M,
         pick=None, pids=["C11", "C12"], sites=[("skcriteria/preprocessing/push_negatives.py", "PushNegatives", "_transform_matrix", "push_negatives", {"axis": 0})]),
    dict(name="push_negatives_V", file="skcriteria/preprocessing/push_negatives.py", fn="push_negatives", params={"arr": V}, bind={"axis": None}, ret=V,
         pick=None, pids=["C11"], sites=[("skcriteria/preprocessing/push_negatives.py", "PushNegatives", "_transform_weights", "push_negatives", {"axis": None})]),
    dict(name="add_value_to_zero_M", file="skcriteria/preprocessing/increment.py", fn="add_value_to_zero", params={"arr": M, "value": S}, bind={"axis": 0},
         ret=M, pick=None, pids=["C11", "C12"],
         sites=[("skcriteria/preprocessing/increment.py", "AddValueToZero", "_transform_matrix", "add_value_to_zero", {"axis": 0})]),
    dict(name="add_value_to_zero_V", file="skcriteria/preprocessing/increment.py", fn="add_value_to_zero", params={"arr": V, "value": S}, bind={"axis": None},
         ret=V, pick=None, pids=["C11"],
         sites=[("skcriteria/preprocessing/increment.py", "AddValueToZero", "_transform_weights", "add_value_to_zero", {"axis": None})]),
    dict(name="equal_weights", file="skcriteria/preprocessing/weighters.py", fn="equal_weights", params={"matrix": M, "base_value": S}, ret=V, pick=None,
         pids=["C13"]),
    dict(name="entropy_weights", file="skcriteria/preprocessing/weighters.py", fn="entropy_weights", params={"matrix": M}, ret=V, pick=None, pids=["C13"]),
    dict(name="std_weights", file="skcriteria/preprocessing/weighters.py", fn="std_weights", params={"matrix": M}, ret=V, pick=None, pids=["C13"]),
]


class Untranslated(Exception):
    pass


def _q(name):
    return "«" + name + "»"


def _const(v):
    if v is True or v is False or v is None:
        raise Untranslated(f"constant {v!r} used as a number")
    if isinstance(v, (int, float)) and float(v) == int(v) and 0 <= int(v) <= 1:
        return f"(⟨{int(v)}⟩ : A0 α)"
    if isinstance(v, (int, float)) and float(v) == int(v) and int(v) >= 0:
        return f"(⟨(({int(v)} : Nat) : α)⟩ : A0 α)"
    raise Untranslated(f"constant {v!r}")


class Tr:
    def __init__(self, k, fn):
        self.k, self.fn = k, fn
        self.env = set(k["params"])
        self.bind = dict(k.get("bind") or {})
        self.notes = []
        self.helpers = {}
        self.depth = 0
        self.empty = set()
        self.colsel = set()
        self.combs = {}
        self.falsebuf = {}
        self.rebound = set()

    # ---- helpers
    def _dotted(self, node):
        parts = []
        while isinstance(node, ast.Attribute):
            parts.append(node.attr)
            node = node.value
        if isinstance(node, ast.Name):
            parts.append(node.id)
            return ".".join(reversed(parts))
        return None

    def _constval(self, node):
        """a compile-time constant: a literal or a bound parameter"""
        if isinstance(node, ast.Constant):
            return True, node.value
        if isinstance(node, ast.Name) and node.id in self.bind:
            return True, self.bind[node.id]
        return False, None

    def _axis(self, kws, allow_keepdims=True):
        ax = None
        for kw in kws:
            if kw.arg == "axis":
                ok, v = self._constval(kw.value)
                if not ok:
                    raise Untranslated("axis is not a constant")
                ax = v
            elif kw.arg == "keepdims":
                ok, v = self._constval(kw.value)
                if not ok:
                    raise Untranslated("keepdims is not a constant")
                kd = v
                if kd and not allow_keepdims:
                    raise Untranslated("keepdims")
                self._kd = bool(kd)
            elif kw.arg in ("dtype", "out", "ddof"):
                continue
            else:
                raise Untranslated(f"keyword {kw.arg}")
        if getattr(self, "_kd", False) and ax == 1:
            raise Untranslated("keepdims with axis=1")
        self._kd = False
        if ax is None:
            return ".all"
        if ax in (0, 1):
            return f".a{ax}"
        raise Untranslated(f"axis={ax!r}")

    # ---- expressions
    def e(self, node):
        if isinstance(node, ast.Name):
            if node.id in self.bind:
                return _const(self.bind[node.id])
            if node.id in self.env:
                return _q(node.id)
            raise Untranslated(f"free name {node.id}")
        if isinstance(node, ast.Constant):
            return _const(node.value)
        if isinstance(node, ast.Attribute):
            d = self._dotted(node)
            if d == "Objective.MAX.value":
                return "(⟨1⟩ : A0 α)"
            if d == "Objective.MIN.value":
                return "(⟨-1⟩ : A0 α)"
            raise Untranslated(f"attribute {d}")
        if isinstance(node, ast.BinOp):
            op = {ast.Mult: "multiply", ast.Add: "add", ast.Sub: "subtract", ast.Div: "divide", ast.MatMult: "inner",
                  ast.BitAnd: "logical_and", ast.BitOr: "logical_or"}.get(type(node.op))
            if not op:
                raise Untranslated(f"operator {type(node.op).__name__}")
            return f"(Np.{op} {self.e(node.left)} {self.e(node.right)})"
        if isinstance(node, ast.UnaryOp) and isinstance(node.op, ast.USub) and isinstance(node.operand, ast.Constant) and node.operand.value == 1:
            return "(⟨-1⟩ : A0 α)"
        if isinstance(node, ast.UnaryOp) and isinstance(node.op, ast.Invert):
            return f"(Np.logical_not {self.e(node.operand)})"
        if isinstance(node, ast.UnaryOp) and isinstance(node.op, ast.USub):
            return f"(Np.negative {self.e(node.operand)})"
        if isinstance(node, ast.Compare) and len(node.ops) == 1:
            a, b = self.e(node.left), self.e(node.comparators[0])
            t = type(node.ops[0])
            if t is ast.Lt:
                return f"(Np.less {a} {b})"
            if t is ast.Gt:
                return f"(Np.less {b} {a})"
            if t is ast.Eq:
                return f"(Np.equal {a} {b})"
            if t is ast.In:
                return f"(Np.contains {b} {a})"
            if t is ast.LtE:
                return f"(Np.less_equal {a} {b})"
            if t is ast.GtE:
                return f"(Np.less_equal {b} {a})"
            raise Untranslated(f"comparison {t.__name__}")
        if isinstance(node, ast.Subscript) and isinstance(node.slice, ast.Tuple) and len(node.slice.elts) == 2 \
                and isinstance(node.slice.elts[0], ast.Slice) and node.slice.elts[0].lower is None and node.slice.elts[0].upper is None \
                and node.slice.elts[0].step is None:
            return f"(Np.take_cols {self.e(node.value)} {self.e(node.slice.elts[1])})"
        if isinstance(node, ast.Subscript):
            # np.shape(x)[k]
            if isinstance(node.value, ast.Call) and self._dotted(node.value.func) in ("np.shape", "numpy.shape") and isinstance(node.slice, ast.Constant):
                if node.slice.value in (0, 1):
                    return f"(Np.shape{node.slice.value} {self.e(node.value.args[0])})"
            raise Untranslated("subscript")
        if isinstance(node, ast.Call):
            return self.call(node)
        raise Untranslated(type(node).__name__)

    def call(self, node):
        f = node.func
        d = self._dotted(f)
        args, kws = list(node.args), list(node.keywords)
        # x.flatten() around cdist
        if isinstance(f, ast.Attribute) and f.attr == "flatten" and not args and isinstance(f.value, ast.Call):
            inner = f.value
            if self._dotted(inner.func) in ("distance.cdist", "scipy.spatial.distance.cdist", "cdist"):
                return self.cdist(inner)
            raise Untranslated("flatten of something that is not cdist")
        if isinstance(f, ast.Name) and f.id in self.helpers and not kws:
            return self.inline(self.helpers[f.id], args)
        if isinstance(f, ast.Attribute) and f.attr == "astype" and len(args) == 1 and not kws and isinstance(args[0], ast.Name) and args[0].id == "int":
            return f"(Np.astype_int {self.e(f.value)})"
        if isinstance(f, ast.Attribute) and f.attr == "astype" and len(args) == 1 and not kws and self._dotted(args[0]) in ("np.int64", "numpy.int64", "int") \
                and isinstance(f.value, ast.Call) and self._dotted(f.value.func) in ("stats.rankdata", "scipy.stats.rankdata", "rankdata"):
            r = f.value
            meth = r.args[1] if len(r.args) == 2 and not r.keywords else (
                r.keywords[0].value if len(r.args) == 1 and len(r.keywords) == 1 and r.keywords[0].arg == "method" else None)
            if isinstance(meth, ast.Constant) and meth.value == "dense":
                return f"(Np.rankdata_dense {self.e(r.args[0])})"
            raise Untranslated("rankdata form")
        if d in ("np.tile", "numpy.tile") and len(args) == 2 and not kws and isinstance(args[1], ast.Tuple) and len(args[1].elts) == 2 \
                and isinstance(args[1].elts[1], ast.Constant) and args[1].elts[1].value == 1:
            return f"(Np.tile {self.e(args[0])} {self.e(args[1].elts[0])})"
        name = None
        if d and d.split(".")[0] in ("np", "numpy") and d.count(".") == 1:
            name = d.split(".")[1]
        elif d in ("linalg.norm", "np.linalg.norm", "scipy.linalg.norm"):
            name = "norm"
        elif d == "len":
            if len(args) == 1 and not kws:
                return f"(Np.shape0 {self.e(args[0])})"
        elif isinstance(f, ast.Attribute) and not (d and d.split(".")[0] in ("np", "numpy", "scipy", "linalg", "distance", "rank", "pd")):
            # method call on an array expression: x.sum(axis=…) is np.sum(x, axis=…)
            name = f.attr
            args = [f.value] + args
        if name is None and d not in ("scipy.stats.entropy", "stats.entropy"):
            raise Untranslated(f"call {d or ast.unparse(f)}")
        binary = {"multiply": "multiply", "add": "add", "subtract": "subtract", "divide": "divide", "true_divide": "divide", "equal": "equal",
                  "less": "less", "inner": "inner"}
        unary = {"abs": "abs", "absolute": "abs", "log": "log", "log10": "log10", "sqrt": "sqrt", "negative": "negative", "squeeze": "squeeze"}
        red = {"sum": "sum", "max": "max", "amax": "max", "min": "min", "amin": "min", "any": "any"}
        if name in binary and len(args) == 2 and all(kw.arg == "dtype" for kw in kws):
            if kws:
                self.notes.append(f"dtype of np.{name} ignored (the model's numbers have one type)")
            return f"(Np.{binary[name]} {self.e(args[0])} {self.e(args[1])})"
        if name == "greater" and len(args) == 2 and not kws:
            return f"(Np.less {self.e(args[1])} {self.e(args[0])})"
        if name in unary and len(args) == 1 and not kws:
            return f"(Np.{unary[name]} {self.e(args[0])})"
        if name in ("asarray", "array") and len(args) == 1 and all(kw.arg in ("dtype", "copy") for kw in kws):
            if kws:
                self.notes.append("dtype of np.asarray ignored (the model's numbers have one type)")
            return f"(Np.asarray {self.e(args[0])})"
        if name == "sum" and len(args) == 1 and isinstance(args[0], ast.Name) and args[0].id in self.colsel:
            if self._axis(kws, allow_keepdims=False) != ".a1":
                raise Untranslated("sum over a column selection along another axis")
            return f"(Np.sum_kept {self.e(args[0])})"
        if name == "sum" and len(args) == 1 and not kws and not (isinstance(args[0], ast.Name) and args[0].id in self.colsel):
            return f"(Np.sum_all {self.e(args[0])})"
        if name == "any" and len(args) == 1 and not kws:
            return f"(Np.any_all {self.e(args[0])})"
        if name in red and len(args) >= 1:
            if len(args) == 2:
                kws = kws + [ast.keyword(arg="axis", value=args[1])]
            elif len(args) > 2:
                raise Untranslated(f"{name} with {len(args)} positional arguments")
            return f"(Np.{red[name]} {self._axis(kws)} {self.e(args[0])})"
        if name == "std" and len(args) == 1:
            ddof = 0
            for kw in kws:
                if kw.arg == "ddof":
                    ok, ddof = self._constval(kw.value)
                    if not ok or not isinstance(ddof, int) or ddof < 0:
                        raise Untranslated("ddof is not a constant natural number")
            return f"(Np.std {self._axis(kws, allow_keepdims=False)} {ddof} {self.e(args[0])})"
        if name == "norm":
            # linalg.norm(arr, None, axis=axis): the default 2-norm
            if len(args) == 2:
                ok, v = self._constval(args[1])
                if not ok or v is not None:
                    raise Untranslated("norm order")
            elif len(args) != 1:
                raise Untranslated("norm arguments")
            for kw in kws:
                if kw.arg == "ord":
                    ok, v = self._constval(kw.value)
                    if not ok or v not in (None, 2):
                        raise Untranslated("norm order")
            kws = [kw for kw in kws if kw.arg != "ord"]
            return f"(Np.norm {self._axis(kws, allow_keepdims=False)} {self.e(args[0])})"
        if d in ("scipy.stats.entropy", "stats.entropy") and len(args) == 1:
            base = [kw for kw in kws if kw.arg == "base"]
            if len(base) != 1:
                raise Untranslated("entropy without base=")
            rest = [kw for kw in kws if kw.arg != "base"]
            return f"(Np.entropy {self._axis(rest, allow_keepdims=False)} {self.e(args[0])} {self.e(base[0].value)})"
        if name == "where" and len(args) == 3 and not kws:
            return f"(Np.where {self.e(args[0])} {self.e(args[1])} {self.e(args[2])})"
        if name == "full" and len(args) == 2 and all(kw.arg == "dtype" for kw in kws):
            return f"(Np.full {self.e(args[0])} {self.e(args[1])})"
        raise Untranslated(f"call {name} / {len(args)} arguments")

    def cdist(self, node):
        a = node.args
        if len(a) != 2 or not (isinstance(a[1], ast.Subscript) and isinstance(a[1].slice, ast.Constant) and a[1].slice.value is True):
            raise Untranslated("cdist arguments")
        metric = None
        for kw in node.keywords:
            if kw.arg == "metric":
                metric = self.e(kw.value)
            elif kw.arg == "out":
                ok, v = self._constval(kw.value)
                if not ok or v is not None:
                    raise Untranslated("cdist out=")
            elif kw.arg is None:
                self.notes.append("**kwargs of cdist are parameters of the metric (part of the abstract distance function)")
            else:
                raise Untranslated(f"cdist keyword {kw.arg}")
        if metric is None:
            raise Untranslated("cdist without metric=")
        return f"(Np.cdist1 {metric} {self.e(a[0])} {self.e(a[1].value)})"

    def inline(self, fn, args):
        """a call of a module-level helper, written out as nested `let`s (parameters bound to the arguments)"""
        if self.depth > 3:
            raise Untranslated("helper nesting")
        params = [a.arg for a in fn.args.args]
        if len(params) != len(args) or fn.args.vararg or fn.args.kwonlyargs or fn.args.defaults:
            raise Untranslated(f"helper {fn.name}: signature")
        bound = [self.e(a) for a in args]
        saved = (set(self.env), dict(self.bind), set(self.empty))
        self.depth += 1
        try:
            self.env = set(params)
            self.bind = {}
            lines, result = self.block(list(fn.body), pick=None)
        finally:
            self.depth -= 1
            self.env, self.bind, self.empty = saved
        # parameters are bound simultaneously (through temporaries): `f(matrix, objectives, weights)` may hand its arguments to
        # parameters of the same names in another order
        tmp = [f"«arg{self.depth}_{i}»" for i in range(len(params))]
        lets = "".join(f"let {t} := {b}; " for t, b in zip(tmp, bound)) + "".join(f"let {_q(p)} := {t}; " for p, t in zip(params, tmp))
        return "(" + lets + "".join(l.strip() + "; " for l in lines) + result + ")"

    def block(self, stmts, pick):
        """straight-line statements ending in a return -> (let-lines, result expression)"""
        lines, result = [], None
        if stmts and isinstance(stmts[0], ast.Expr) and isinstance(stmts[0].value, ast.Constant) and isinstance(stmts[0].value.value, str):
            stmts = stmts[1:]
        for s in stmts:
            if result is not None:
                raise Untranslated("statement after return")
            if isinstance(s, ast.Assign) and len(s.targets) == 1 and isinstance(s.targets[0], ast.Name):
                nm = s.targets[0].id
                v = s.value
                if isinstance(v, ast.Call) and self._dotted(v.func) in ("it.combinations", "itertools.combinations", "combinations") \
                        and len(v.args) == 2 and isinstance(v.args[1], ast.Constant) and v.args[1].value == 2 \
                        and isinstance(v.args[0], ast.Call) and isinstance(v.args[0].func, ast.Name) and v.args[0].func.id == "range" \
                        and len(v.args[0].args) == 1:
                    self.combs[nm] = self.e(v.args[0].args[0])  # all index pairs i < j below a length
                    self.env.discard(nm)
                    continue
                if isinstance(v, ast.Call) and self._dotted(v.func) in ("np.full", "numpy.full") and len(v.args) == 2 \
                        and isinstance(v.args[0], ast.Tuple) and len(v.args[0].elts) == 2 and isinstance(v.args[1], ast.Constant) \
                        and v.args[1].value is False:
                    self.falsebuf[nm] = [self.e(x) for x in v.args[0].elts]  # a square boolean buffer initialised to False
                    self.env.discard(nm)
                    continue
                if isinstance(v, ast.Call) and self._dotted(v.func) in ("np.empty", "numpy.empty"):
                    self.empty.add(nm)  # a buffer: it must be filled row by row before it is used
                    self.env.discard(nm)
                    continue
                try:
                    rhs = self.e(v)
                except Untranslated as ex:
                    self.env.discard(nm)
                    self.bind.pop(nm, None)
                    self.notes.append(f"local {nm} not translated ({ex}); any later use makes the kernel untranslated")
                    continue
                self.bind.pop(nm, None)
                self.env.add(nm)
                if not (isinstance(v, ast.Call) and self._dotted(v.func) in ("np.asarray", "numpy.asarray")):
                    self.rebound.add(nm)
                lines.append(f"  let {_q(nm)} := {rhs}")
            elif isinstance(s, ast.With) and len(s.items) == 1 and isinstance(s.items[0].context_expr, ast.Call) \
                    and self._dotted(s.items[0].context_expr.func) in ("np.errstate", "numpy.errstate") and s.items[0].optional_vars is None:
                # `with np.errstate(...)`: only silences floating-point warnings; the body runs as it stands
                for b in s.body:
                    if not (isinstance(b, ast.Assign) and len(b.targets) == 1 and isinstance(b.targets[0], ast.Name)):
                        raise Untranslated("statement inside np.errstate")
                    self.env.add(b.targets[0].id)
                    lines.append(f"  let {_q(b.targets[0].id)} := {self.e(b.value)}")
            elif isinstance(s, ast.Assign) and len(s.targets) == 1 and isinstance(s.targets[0], ast.Subscript) \
                    and isinstance(s.targets[0].value, ast.Name) and s.targets[0].value.id in self.env \
                    and isinstance(s.targets[0].slice, ast.Tuple) and len(s.targets[0].slice.elts) == 2 \
                    and isinstance(s.targets[0].slice.elts[0], ast.Slice) and s.targets[0].slice.elts[0].lower is None \
                    and s.targets[0].slice.elts[0].upper is None and s.targets[0].slice.elts[0].step is None:
                # x[:, mask] = values
                nm = s.targets[0].value.id
                lines.append(f"  let {_q(nm)} := (Np.set_cols {_q(nm)} {self.e(s.targets[0].slice.elts[1])} {self.e(s.value)})")
                self.rebound.add(nm)
            elif isinstance(s, ast.Assign) and len(s.targets) == 1 and isinstance(s.targets[0], ast.Tuple) and isinstance(s.value, ast.Tuple) \
                    and len(s.targets[0].elts) == len(s.value.elts) and all(isinstance(t, ast.Name) for t in s.targets[0].elts):
                rhs = [self.e(v) for v in s.value.elts]  # all right-hand sides first
                tmps = [f"«tup{len(lines)}_{i}»" for i in range(len(rhs))]
                for t, r in zip(tmps, rhs):
                    lines.append(f"  let {t} := {r}")
                for t, nm in zip(tmps, s.targets[0].elts):
                    self.env.add(nm.id)
                    lines.append(f"  let {_q(nm.id)} := {t}")
            elif isinstance(s, ast.For) and isinstance(s.iter, ast.Name) and s.iter.id in self.combs:
                lines.append(self.pairs_loop(s))
            elif isinstance(s, ast.For):
                lines.append(self.rows_loop(s))
            elif isinstance(s, ast.If) and self._static_false(s.test):
                # e.g. `if isinstance(reverse, bool): …` for a parameter typed as an array, `if np.shape(a) != np.shape(b): raise` for two
                # parameters of one declared shape: the branch cannot be taken under the declared types; the else part runs
                self.notes.append(f"`if {ast.unparse(s.test)}` is false under the declared parameter types")
                if s.orelse:
                    ls, _ = self.block(list(s.orelse) + [ast.Return(value=ast.Constant(value=0))], pick=None)
                    lines += ls
            elif isinstance(s, ast.If) and s.orelse and self._branch_target(s.body) and self._branch_target(s.body) == self._branch_target(s.orelse):
                # if c: …; x = e1  else: …; x = e2   (the branches' other locals stay local)
                nm = self._branch_target(s.body)
                test = self.e(s.test)
                b1, b2 = self.branch(s.body), self.branch(s.orelse)
                self.env.add(nm)
                lines.append(f"  let {_q(nm)} := (Np.ite {test} {b1} {b2})")
            elif isinstance(s, ast.If) and not s.orelse and isinstance(s.test, ast.Name) and self.k["params"].get(s.test.id) == "Bool" \
                    and all(isinstance(b, ast.Assign) and len(b.targets) == 1 and isinstance(b.targets[0], ast.Name) and b.targets[0].id in self.env
                            for b in s.body):
                # `if flag: x = f(x)` on a boolean parameter: x := if flag then f(x) else x
                for b in s.body:
                    nm = b.targets[0].id
                    lines.append(f"  let {_q(nm)} := if {_q(s.test.id)} then {self.e(b.value)} else {_q(nm)}")
            elif isinstance(s, ast.Expr) and isinstance(s.value, ast.Call) and self._dotted(s.value.func) in ("np.fill_diagonal", "numpy.fill_diagonal"):
                a = s.value.args
                if len(a) != 2 or not isinstance(a[0], ast.Name) or self._dotted(a[1]) not in ("np.nan", "numpy.nan") or a[0].id not in self.env:
                    raise Untranslated("fill_diagonal form")
                lines.append(f"  let {_q(a[0].id)} := (Np.fill_diagonal_nan {_q(a[0].id)})")
            elif isinstance(s, ast.Return):
                v = s.value
                if pick is None:
                    result = self.e(v)
                elif isinstance(pick, str):
                    kw = [k_ for k_ in (v.keywords if isinstance(v, ast.Call) else []) if k_.arg == pick]
                    if len(kw) != 1:
                        raise Untranslated(f"the returned record has no field {pick}")
                    result = self.e(kw[0].value)
                else:
                    if not isinstance(v, ast.Tuple) or pick >= len(v.elts):
                        raise Untranslated("return is not the expected tuple")
                    result = self.e(v.elts[pick])
                    r0 = v.elts[0]
                    if isinstance(r0, ast.Call) and self._dotted(r0.func) in ("rank.rank_values", "rank_values"):
                        rev = False
                        for kw in r0.keywords:
                            if kw.arg == "reverse":
                                ok, rev = self._constval(kw.value)
                                if not ok:
                                    raise Untranslated("reverse= is not a constant")
                        self.rank = (ast.unparse(r0.args[0]), bool(rev), ast.unparse(r0.args[0]) == ast.unparse(v.elts[pick]))
            elif isinstance(s, (ast.Import, ast.ImportFrom, ast.Pass)):
                continue
            else:
                raise Untranslated(f"statement {type(s).__name__}")
        if result is None:
            raise Untranslated("no return")
        return lines, result

    def _static_false(self, test):
        P = self.k["params"]
        if isinstance(test, ast.Call) and isinstance(test.func, ast.Name) and test.func.id == "isinstance" and len(test.args) == 2 \
                and isinstance(test.args[0], ast.Name) and isinstance(test.args[1], ast.Name) and test.args[1].id == "bool":
            t = P.get(test.args[0].id)
            return bool(t) and t.startswith(("A1", "A2")) and test.args[0].id in self.env and test.args[0].id not in self.rebound
        if isinstance(test, ast.Compare) and len(test.ops) == 1 and isinstance(test.ops[0], ast.NotEq):
            names = []
            for sd in (test.left, test.comparators[0]):
                if isinstance(sd, ast.Call) and self._dotted(sd.func) in ("np.shape", "numpy.shape") and len(sd.args) == 1 and isinstance(sd.args[0], ast.Name):
                    names.append(sd.args[0].id)
            if len(names) == 2 and all(nm in P and nm not in self.rebound for nm in names):
                shape = lambda t: t.split()[0:2] if t.startswith("A1") else t.split()[0:3]  # noqa: E731
                return shape(P[names[0]]) == shape(P[names[1]])
        return False

    @staticmethod
    def _branch_target(stmts):
        if stmts and all(isinstance(b, ast.Assign) and len(b.targets) == 1 and isinstance(b.targets[0], ast.Name) for b in stmts):
            return stmts[-1].targets[0].id
        return None

    def branch(self, stmts):
        saved = (set(self.env), set(self.colsel))
        parts = []
        try:
            for b in stmts[:-1]:
                nm = b.targets[0].id
                rhs = self.e(b.value)
                if isinstance(b.value, ast.Subscript) and rhs.startswith("(Np.take_cols"):
                    self.colsel.add(nm)
                self.env.add(nm)
                parts.append(f"let {_q(nm)} := {rhs}; ")
            return "(" + "".join(parts) + self.e(stmts[-1].value) + ")"
        finally:
            self.env, self.colsel = saved

    def pairs_loop(self, s):
        """`for i, j in combinations(range(len(X)), 2): a, b = X[[i, j]]; …; out[i, j] = e1; out[j, i] = e2` over a buffer
        `out = np.full((k, k), False)`"""
        if s.orelse or not (isinstance(s.target, ast.Tuple) and len(s.target.elts) == 2 and all(isinstance(t, ast.Name) for t in s.target.elts)):
            raise Untranslated("pair loop form")
        i, j = s.target.elts[0].id, s.target.elts[1].id
        length = self.combs[s.iter.id]
        body = list(s.body)
        b0 = body[0] if body else None
        if not (isinstance(b0, ast.Assign) and isinstance(b0.targets[0], ast.Tuple) and len(b0.targets[0].elts) == 2
                and isinstance(b0.value, ast.Subscript) and isinstance(b0.value.slice, ast.List) and len(b0.value.slice.elts) == 2
                and [getattr(x, "id", None) for x in b0.value.slice.elts] == [i, j]):
            raise Untranslated("pair loop: the two rows are not taken as X[[i, j]]")
        src = self.e(b0.value.value)
        ra, rb = b0.targets[0].elts[0].id, b0.targets[0].elts[1].id
        saved = set(self.env)
        self.env |= {ra, rb}
        sub = Tr(self.k, self.fn)
        sub.env, sub.bind, sub.helpers, sub.depth = self.env, self.bind, self.helpers, self.depth
        inner, stores = [], {}
        for b in body[1:]:
            if isinstance(b, ast.Assign) and len(b.targets) == 1 and isinstance(b.targets[0], ast.Subscript) \
                    and isinstance(b.targets[0].value, ast.Name) and isinstance(b.targets[0].slice, ast.Tuple):
                idx = [getattr(x, "id", None) for x in b.targets[0].slice.elts]
                out = b.targets[0].value.id
                if idx == [i, j]:
                    stores["ij"] = (out, self.e(b.value))
                elif idx == [j, i]:
                    stores["ji"] = (out, self.e(b.value))
                else:
                    raise Untranslated("pair loop: store index")
            else:
                if stores:
                    raise Untranslated("pair loop: statement after a store")
                ls, _ = sub.block([b, ast.Return(value=ast.Constant(value=0))], pick=None)
                inner += [l.strip() + "; " for l in ls]
        self.env = saved
        if set(stores) != {"ij", "ji"} or stores["ij"][0] != stores["ji"][0] or stores["ij"][0] not in self.falsebuf:
            raise Untranslated("pair loop: both orientations must be stored into one np.full(..., False) buffer")
        out = stores["ij"][0]
        dims = self.falsebuf.pop(out)
        self.env.add(out)
        pre = "".join(inner)
        return (f"  let {_q(out)} := (Np.pair_fill {src} {length} {dims[0]} {dims[1]} "
                f"(fun {_q(ra)} {_q(rb)} => ({pre}{stores['ij'][1]})) (fun {_q(ra)} {_q(rb)} => ({pre}{stores['ji'][1]})))")

    def rows_loop(self, s):
        """`for idx, row in enumerate(X): …; out[idx] = expr` with `out = np.empty(...)`: one output row per row of X"""
        if s.orelse or not (isinstance(s.target, ast.Tuple) and len(s.target.elts) == 2 and all(isinstance(t, ast.Name) for t in s.target.elts)):
            raise Untranslated("loop form")
        it = s.iter
        if not (isinstance(it, ast.Call) and isinstance(it.func, ast.Name) and it.func.id == "enumerate" and len(it.args) == 1 and not it.keywords):
            raise Untranslated("loop is not over enumerate(...)")
        idx, row = s.target.elts[0].id, s.target.elts[1].id
        src = self.e(it.args[0])
        saved_env = set(self.env)
        self.env.add(row)
        inner, out, expr = [], None, None
        for b in s.body:
            if expr is not None:
                raise Untranslated("statement after the row store")
            if isinstance(b, ast.Assign) and len(b.targets) == 1 and isinstance(b.targets[0], ast.Name):
                self.env.add(b.targets[0].id)
                inner.append(f"let {_q(b.targets[0].id)} := {self.e(b.value)}; ")
            elif isinstance(b, ast.Assign) and len(b.targets) == 1 and isinstance(b.targets[0], ast.Subscript) \
                    and isinstance(b.targets[0].value, ast.Name) and isinstance(b.targets[0].slice, ast.Name) and b.targets[0].slice.id == idx:
                out = b.targets[0].value.id
                expr = self.e(b.value)
            else:
                raise Untranslated("loop body form")
        self.env = saved_env
        if out is None or out not in self.empty:
            raise Untranslated("the loop does not fill a buffer made by np.empty")
        self.empty.discard(out)
        self.env.add(out)
        return f"  let {_q(out)} := (Np.map_rows {src} (fun {_q(row)} => ({''.join(inner)}{expr})))"

    # ---- statements
    def body(self):
        self.rank = None
        lines, result = self.block(list(self.fn.body), self.k["pick"])
        return lines, result, self.rank


def _find_fn(tree, name):
    for n in tree.body:
        if isinstance(n, ast.FunctionDef) and n.name == name:
            return n
    return None


def _site_ok(repo, site):
    file, cls, meth, callee, kw = site
    tree = ast.parse((repo / file).read_text())
    for c in tree.body:
        if isinstance(c, ast.ClassDef) and c.name == cls:
            for f in c.body:
                if isinstance(f, ast.FunctionDef) and f.name == meth:
                    calls = [n for n in ast.walk(f) if isinstance(n, ast.Call) and isinstance(n.func, ast.Name) and n.func.id == callee]
                    if len(calls) != 1:
                        return False
                    got = {k.arg: (k.value.value if isinstance(k.value, ast.Constant) else "<expr>") for k in calls[0].keywords}
                    return all(got.get(a, "<missing>") == v for a, v in kw.items())
    return False


def translate_one(repo: Path, k):
    """-> (lean source, status) where status is 'ok' or the reason the kernel is untranslated"""
    head = (f"import Skc.Model.Np\n/-! GENERATED by harness/translate.py from `{k['file']}`, function `{k['fn']}` — do not edit.\n"
            f"Parameter binding: {k.get('bind') or {}}; returned element: {k['pick']}. -/\n"
            "set_option linter.unusedVariables false\nnamespace Skc.Gen\nopen Skc Skc.Np\n")
    try:
        tree = ast.parse((repo / k["file"]).read_text())
        if k.get("kind") == "guards":
            return _translate_guards(k, tree, head)
        if k.get("cls"):
            cls = next((c for c in tree.body if isinstance(c, ast.ClassDef) and c.name == k["cls"]), None)
            fn = next((f for f in (cls.body if cls else []) if isinstance(f, ast.FunctionDef) and f.name == k["fn"]), None)
            if fn is not None:
                fn = ast.FunctionDef(name=fn.name, args=ast.arguments(posonlyargs=[], args=fn.args.args[1:], vararg=fn.args.vararg, kwonlyargs=fn.args.kwonlyargs,
                                     kw_defaults=fn.args.kw_defaults, kwarg=fn.args.kwarg, defaults=fn.args.defaults), body=fn.body, decorator_list=[])
        else:
            fn = _find_fn(tree, k["fn"])
        if fn is None:
            raise Untranslated(f"function {k.get('cls', '')}.{k['fn']} not found")
        if fn.args.vararg or fn.args.kwonlyargs:
            raise Untranslated("signature")
        names = [a.arg for a in fn.args.args]
        for nm in names:
            if nm not in k["params"] and nm not in (k.get("bind") or {}):
                raise Untranslated(f"parameter {nm} is neither typed nor bound")
        for site in k.get("sites", []):
            if not _site_ok(repo, site):
                raise Untranslated(f"call site {site[1]}.{site[2]} does not call {site[3]} with {site[4]}")
        tr = Tr(k, fn)
        tr.helpers = {n.name: n for n in tree.body if isinstance(n, ast.FunctionDef) and n.name != k["fn"]}
        lines, result, rank = tr.body()
        params = " ".join(f"({_q(p)} : {t})" for p, t in k["params"].items() if p in names)
        src = head + "section\n" + CTX + "\n"
        src += f"/-- `{k['fn']}` of `{k['file']}`" + ("".join(f"\n  note: {x}" for x in dict.fromkeys(tr.notes))) + " -/\n"
        src += f"def {k['name']} {params} : {k['ret']} :=\n" + "\n".join(lines) + ("\n" if lines else "") + f"  {result}\n"
        if rank is not None:
            src += f"\n/-- the ranking is `rank_values({rank[0]}, reverse={rank[1]})` -/\ndef {k['name']}_rank_reverse : Bool := {'true' if rank[1] else 'false'}\n"
            src += f"/-- is that the returned element this definition translates? -/\ndef {k['name']}_rank_of_result : Bool := {'true' if rank[2] else 'false'}\n"
        src += "end\nend Skc.Gen\n"
        return src, "ok"
    except (Untranslated, SyntaxError, OSError) as ex:
        why = f"{type(ex).__name__}: {ex}"
        return head + f"/-- not translated: {why} -/\ndef {k['name']}_untranslated : String := {C_lean_str(why)}\nend Skc.Gen\n", why


def _translate_guards(k, tree, head):
    """the refusals of a decision maker: the leading `if <test>: raise ValueError(...)` statements of `<cls>._evaluate_data`, as
    one boolean; the method must not raise anywhere else and must hand its arrays to the kernel in the recorded order"""
    cls = next((c for c in tree.body if isinstance(c, ast.ClassDef) and c.name == k["cls"]), None)
    fn = next((f for f in (cls.body if cls else []) if isinstance(f, ast.FunctionDef) and f.name == k["fn"]), None)
    if fn is None:
        raise Untranslated(f"{k['cls']}.{k['fn']} not found")
    names = [a.arg for a in fn.args.args][1:]
    for nm in names:
        if nm not in k["params"] and nm not in k.get("unused", []):
            raise Untranslated(f"parameter {nm} is neither typed nor declared unused")
    tr = Tr(dict(k, params={p: t for p, t in k["params"].items()}), fn)
    body = list(fn.body)
    if body and isinstance(body[0], ast.Expr) and isinstance(body[0].value, ast.Constant):
        body = body[1:]
    tests, i = [], 0
    while i < len(body) and isinstance(body[i], ast.If) and not body[i].orelse and len(body[i].body) == 1 and isinstance(body[i].body[0], ast.Raise):
        exc = body[i].body[0].exc
        if not (isinstance(exc, ast.Call) and isinstance(exc.func, ast.Name) and exc.func.id == "ValueError"):
            raise Untranslated("a guard raises something else than ValueError")
        tests.append(tr.e(body[i].test))
        i += 1
    rest = body[i:]
    if any(isinstance(n, ast.Raise) for st in rest for n in ast.walk(st)):
        raise Untranslated("the method raises after the leading guards")
    want_fn, want_args = k["call"]
    calls = [n for st in rest for n in ast.walk(st) if isinstance(n, ast.Call) and isinstance(n.func, ast.Name) and n.func.id == want_fn]
    if len(calls) != 1 or calls[0].keywords or [getattr(a, "id", None) for a in calls[0].args] != want_args:
        raise Untranslated(f"the kernel is not called as {want_fn}({', '.join(want_args)})")
    params = " ".join(f"({_q(p)} : {t})" for p, t in k["params"].items() if p in names)
    expr = " || ".join(tests) if tests else "false"
    src = head + "section\n" + CTX + "\n"
    src += f"/-- does `{k['cls']}.{k['fn']}` refuse (raise `ValueError`) before calling `{want_fn}`? -/\n"
    src += f"def {k['name']} {params} : Bool :=\n  {expr}\nend\nend Skc.Gen\n"
    return src, "ok"


def C_lean_str(s):
    return '"' + s.replace("\\", "\\\\").replace('"', '\\"').replace("\n", " ") + '"'


def for_property(pid):
    return [k for k in KERNELS if pid in k["pids"]]


def run(repo: Path, pid=None):
    """(re)write the generated kernels used by `pid` (all when None); -> {kernel: status}"""
    import extract

    OUT.mkdir(parents=True, exist_ok=True)
    out = {}
    for k in (KERNELS if pid is None else for_property(pid)):
        src, st = translate_one(repo, k)
        extract.write_if_changed(OUT / f"{k['name']}.lean", src)
        out[k["name"]] = st
    return out


if __name__ == "__main__":
    import sys

    for name, st in run(C.REPO, sys.argv[1] if len(sys.argv) > 1 else None).items():
        print(f"{name}: {st}")
