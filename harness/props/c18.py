"""C18 — untied ranks refine the ranking; comparators align by alternative name."""
from __future__ import annotations

import itertools
import math
import random
import warnings
from fractions import Fraction

import numpy as np

import common as C
import gen as G

PID = "C18"
RULE = (
    "cases: (a) a dense ranking (values 1..k without gaps) over named alternatives: every dense ranking up to length 5 "
    "(quick) / 7 (thorough, all 52 609) plus random ones up to length 12 (quick) / 40 (thorough) with heavy ties, plus LONG "
    "rankings of 101..~420 alternatives (quick: ~15, thorough: ~200): [2]*L+[1], constant blocks of 100+ in a random order of "
    "ranks, worst-first listings, random / periodic heavy ties, long permutations without or with a few ties; observed: "
    "untied_rank_, to_series(untied=True) values+index, has_ties_, ties_.  (b) a RanksComparator of 2-5 rankings over the "
    "SAME alternatives, each listed in its own random order, with and without ties, built by the constructor or mkrank_cmp; "
    "observed: to_dataframe(untied=False/True) by label, corr/cov/r2_score/distance (both untied settings); plus a few "
    "comparators the constructor must refuse; plus a few small comparators (2-3 rankings) over more than 100 alternatives; plus comparators in which one ranking is a RE-LISTED COPY of another (same "
    "rank for every alternative, another listing order, with and without ties).  Every cell (i, j) of corr/cov/r2_score/"
    "distance is compared (1e-9) with the statistic recomputed in the harness from columns i and j of the implementation's "
    "own to_dataframe(untied=...); two rankings that give every alternative the same rank must show the self-comparison "
    "value.  (c) distance() with a NON-default metric (correlation, cosine, seuclidean, cityblock, euclidean, sqeuclidean, "
    "chebyshev, canberra, braycurtis, minkowski p=3 / 1.5, jensenshannon, jaccard; mahalanobis on 4-6 rankings of 2-3 "
    "alternatives): 1-2 metrics on every comparator of (b), both untied settings, plus comparators in which one or more "
    "rankings are ALL TIED (always asked for correlation and cosine): the table must be square over the names, 0 (1e-9) for a "
    "ranking against itself and against a re-listed copy, and every other cell the metric of the two frame columns computed "
    "with scipy's two-vector function (cells whose recomputation is NaN are skipped).  (d) HISTORIES over one caller-owned "
    "numpy buffer (int64/int32/uint8/float64; optionally the labels in a second object array): ranking 1 is built from the "
    "buffer, the buffer is rewritten IN PLACE (reshuffled / partly rewritten / refilled), ranking 2 is built from the same "
    "buffer, ..., the comparator is built, the buffer is rewritten once more; every RankResult and every table (taken before "
    "and after the last rewrite) must show the values each ranking was built with; the same for a single ranking.  "
    "(e) a FIXED SHARE of every run (own loops, own counts): LONG TIED rankings handed over as numpy arrays of a NARROW integer "
    "dtype (int8 / uint8 / int16) with 128..255 and with 256..420 alternatives (every dtype x length class x 7 tie patterns, "
    "levels up to the dtype's largest value, plus a short control group), and comparators of 2-3 such rankings (same or mixed "
    "dtypes, each listed in its own order, some re-listed copies): untied_rank_ / to_series(untied=True) / "
    "to_dataframe(untied=True) must be the permutation of 1..n refining the ranking, all tables as in (b)/(c).  (f) a FIXED "
    "SHARE of HISTORIES on one comparator: ask for a table (to_dataframe - every edit x both untied settings - or corr / cov / "
    "r2_score / distance), edit the returned DataFrame IN PLACE (add / insert / drop / delete a column, drop rows, overwrite a "
    "column / rows / a cell / everything, in-place arithmetic, re-rank a column, rename or reorder rows and columns, write "
    "through to_numpy()), ask again with the same arguments (must equal the first answer), 1-4 such steps, then every table "
    "is taken once more and judged as in (b)/(c).  "
    "Non-trivial: a ranking of length >= 2; a comparator in which two rankings "
    "list the alternatives in different orders or one has ties, or built from a shared buffer.  Distinct by case hash."
)
ASSUMPTIONS = [
    "np.argsort(kind='stable') modelled as a stable insertion sort of positions (validated here on every case)",
    "pandas aligns Series by index label; row order of DataFrame.from_dict = pandas.core.indexes.api.union_indexes "
    "(same order everywhere -> kept, otherwise sorted union) — modelled, validated here",
    "the statistics in corr/cov/r2_score/distance are pandas/sklearn/scipy (Series.corr / Series.cov / "
    "sklearn.metrics.r2_score(earlier column, later column), filled symmetrically / scipy hamming): the harness recomputes "
    "every cell with the same library function from the implementation's own label-aligned frame",
    "distance(metric=...) is scipy.spatial.distance.pdist over the rankings: each cell is recomputed with scipy's two-vector "
    "function of the same name; seuclidean / mahalanobis with pdist's documented defaults (V = variance, VI = inverse "
    "covariance of every alternative's rank over the rankings of the comparator)",
]
PARTIAL = (
    "the values of the pairwise statistics are external (pandas/sklearn/scipy) and not modelled in Lean (recomputed in the "
    "harness from the aligned frame instead); cells that are NaN for a legitimate reason (constant ranking: zero variance; "
    "a single alternative) are skipped and counted"
)
EXHAUSTIVE = True

NAME_POOL = ["TOPSIS", "WSM", "wpm", "Electre2", "b", "a", "Z", "m10", "m2", "moora", "x", "y", "w", "rank 1", "Ω"]
TOL = 1e-9

# --------------------------------------------------------------------------- generators


def dense_rankings(L):
    """all dense rankings of length L: value set = {1..k}"""
    out = []
    for v in itertools.product(range(1, L + 1), repeat=L):
        if len(set(v)) == max(v):
            out.append(list(v))
    return out


def random_dense(rng, n, ties):
    """ties: 'none' | 'some' | 'heavy'"""
    if ties == "none":
        v = list(range(1, n + 1))
        rng.shuffle(v)
        return v
    k = rng.randint(1, max(1, n // 3)) if ties == "heavy" else rng.randint(1, n)
    raw = [rng.randint(1, k) for _ in range(n)]
    order = {x: i + 1 for i, x in enumerate(sorted(set(raw)))}
    return [order[x] for x in raw]


def _rank_case(rng, values, pool=True):
    n = len(values)
    if pool and n <= len(G.LABEL_POOL_ALT):
        alts = G.labels(rng, G.LABEL_POOL_ALT, n)
    else:
        alts = [f"A{i}" for i in range(n)]
    return {"kind": "rank", "alts": alts, "values": list(values)}


def _dense(raw):
    order = {x: i + 1 for i, x in enumerate(sorted(set(raw)))}
    return [order[x] for x in raw]


def long_ranking(rng, how=None):
    """a dense ranking of MORE THAN 100 (up to ~400) alternatives, mostly with heavy ties; the block patterns list a better
    alternative late, at least 100 places after a worse one (e.g. [2]*100 + [1], [3]*150 + [1]*20 + [2]*200)"""
    how = how or rng.choice(["tail", "blocks", "blocks", "worst-first", "random", "periodic", "no-ties", "few-ties"])
    if how == "tail":  # a long tie, then something strictly better (and sometimes something in between)
        L = rng.choice([100, 101, 128, 199, 250, rng.randint(100, 399)])
        v = [2] * L + [1] * rng.choice([1, 1, 2, 30])
        if rng.random() < 0.3:
            v = [3] * rng.randint(1, 60) + v
    elif how == "blocks":  # constant blocks in a random order of ranks, at least one block of 100 or more
        b = rng.randint(2, 6)
        lens = [rng.choice([1, 3, 20, 60, 100, 150, 200]) for _ in range(b)]
        lens[rng.randrange(b)] = rng.choice([100, 120, 150, 200])
        while sum(lens) > 420:
            lens[lens.index(max(lens))] //= 2
        if sum(lens) <= 100:
            lens[0] += 101
        ranks = [rng.randint(1, b) for _ in range(b)]
        v = [r for r, n in zip(ranks, lens) for _ in range(n)]
        if len(set(v)) == 1:
            v[-1] = v[0] - 1
    elif how == "worst-first":  # listed from the worst rank to the best
        k = rng.randint(2, 8)
        n = rng.randint(101, 400)
        v = sorted((rng.randint(1, k) for _ in range(n)), reverse=True)
    elif how == "random":
        n = rng.randint(101, 400)
        k = rng.choice([2, 3, 5, 10, n // 3])
        v = [rng.randint(1, k) for _ in range(n)]
    elif how == "periodic":
        k = rng.randint(2, 7)
        n = rng.randint(101, 400)
        v = [(i * rng.choice([1, k - 1])) % k for i in range(n)]
    elif how == "no-ties":
        n = rng.randint(101, 300)
        v = list(range(n, 0, -1)) if rng.random() < 0.5 else rng.sample(range(1, n + 1), n)
    else:  # few ties: a permutation with a handful of repeated ranks
        n = rng.randint(101, 300)
        v = rng.sample(range(1, n + 1), n)
        for _ in range(rng.randint(1, 5)):
            v[rng.randrange(n)] = v[rng.randrange(n)]
    return _dense(v)


def _long_cmp_case(rng):
    """a small comparator (2-3 rankings) over MORE THAN 100 alternatives, each ranking listed in its own order"""
    m = rng.randint(2, 3)
    first = long_ranking(rng, rng.choice(["tail", "blocks", "worst-first", "random"]))
    n = len(first)
    base = [f"A{i}" for i in range(n)]
    via = rng.choice(["ctor", "mkrank_cmp"])
    names = rng.sample(NAME_POOL, m)
    ranks = []
    for j in range(m):
        alts = list(base)
        if j and rng.random() < 0.7:
            rng.shuffle(alts)
        if j == 0:
            vals = first
        else:
            k = rng.choice([2, 3, 10, n])
            vals = _dense([rng.randint(1, k) for _ in range(n)]) if k < n else rng.sample(range(1, n + 1), n)
        ranks.append({"name": names[j], "alts": alts, "values": vals})
    return {"kind": "cmp", "via": via, "ranks": ranks, "long": True}


def _cmp_case(rng, max_alts=9):
    n = rng.choice([1, 2, 2, 3, 3, 4, 5, 6, 7, max_alts, rng.randint(2, max_alts)])
    base = G.labels(rng, G.LABEL_POOL_ALT, n)
    m = rng.randint(2, 5)
    tie_mode = rng.choice(["none", "some", "heavy", "mixed", "mixed"])
    same_order = rng.random() < 0.12
    via = rng.choice(["ctor", "ctor", "mkrank_cmp"])
    if via == "ctor":
        names = rng.sample(NAME_POOL, m)
    else:
        names = [rng.choice(NAME_POOL[:6]) for _ in range(m)]  # method names, may repeat
    ranks = []
    first = list(base)
    rng.shuffle(first)
    for j in range(m):
        alts = list(first)
        if not same_order:
            rng.shuffle(alts)
        t = tie_mode if tie_mode != "mixed" else rng.choice(["none", "some", "heavy"])
        ranks.append({"name": names[j], "alts": alts, "values": random_dense(rng, n, t)})
    return {"kind": "cmp", "via": via, "ranks": ranks}


def _relisted_cmp_case(rng, max_alts=9):
    """a comparator in which at least one ranking is a re-listed copy of another one: every alternative keeps
    its rank, only the order in which the alternatives are listed changes"""
    c = _cmp_case(rng, max_alts)
    while len(c["ranks"][0]["alts"]) < 2:
        c = _cmp_case(rng, max_alts)
    rs = c["ranks"]
    k = rng.randint(1, max(1, len(rs) - 1))  # how many copies
    for _ in range(k):
        src, dst = rng.sample(range(len(rs)), 2)
        by_alt = dict(zip(rs[src]["alts"], rs[src]["values"]))
        alts = list(rs[src]["alts"])
        for _try in range(8):
            rng.shuffle(alts)
            if alts != rs[src]["alts"]:
                break
        rs[dst]["alts"] = alts
        rs[dst]["values"] = [by_alt[a] for a in alts]
    if rng.random() < 0.3:  # exactly two rankings: a ranking and its re-listed copy
        src = rng.randrange(len(rs))
        dst = rng.choice([j for j in range(len(rs)) if j != src])
        by_alt = dict(zip(rs[src]["alts"], rs[src]["values"]))
        rs[dst]["values"] = [by_alt[a] for a in rs[dst]["alts"]]
        c["ranks"] = [rs[min(src, dst)], rs[max(src, dst)]]
        if c["via"] == "ctor" and c["ranks"][0]["name"] == c["ranks"][1]["name"]:
            c["ranks"][1]["name"] += "'"
    c["relisted"] = True
    return c


def _bad_cmp_case(rng):
    c = _cmp_case(rng, 6)
    c["via"] = "ctor"
    how = rng.choice(["one", "dupname", "altset"])
    if how == "one":
        c["ranks"] = c["ranks"][:1]
    elif how == "dupname":
        c["ranks"][-1]["name"] = c["ranks"][0]["name"]
    else:
        r = c["ranks"][-1]
        r["alts"] = list(r["alts"])
        r["alts"][rng.randrange(len(r["alts"]))] = "not-there"
        names = [x["name"] for x in c["ranks"]]
        if len(set(names)) != len(names):
            for i, x in enumerate(c["ranks"]):
                x["name"] = f"n{i}"
    c["bad"] = how
    return c


# ---- distance() with a metric other than the default, and rankings built from one caller-owned buffer

# (metric, kwargs, weight): the metrics scipy.spatial.distance.pdist offers that are meaningful on vectors of ranks
METRICS = [
    ("correlation", {}, 4), ("cosine", {}, 4), ("seuclidean", {}, 4), ("cityblock", {}, 2), ("euclidean", {}, 2),
    ("sqeuclidean", {}, 1), ("chebyshev", {}, 1), ("canberra", {}, 1), ("braycurtis", {}, 1), ("minkowski", {"p": 3}, 1),
    ("minkowski", {"p": 1.5}, 1), ("jensenshannon", {}, 1), ("jaccard", {}, 1),
]
BUFFER_DTYPES = ["int64", "int64", "int64", "int32", "float64", "uint8"]


def pick_metrics(rng, k):
    pool = [(m, kw) for m, kw, w in METRICS for _ in range(w)]
    out = []
    while len(out) < k:
        m, kw = rng.choice(pool)
        if all((m, kw) != (x["metric"], x["kwargs"]) for x in out):
            out.append({"metric": m, "kwargs": dict(kw)})
    return out


def _alltied_cmp_case(rng, max_alts=9):
    """a comparator in which at least one ranking is ALL TIED ([1, 1, ..., 1]); distance() is asked for 'correlation' and
    'cosine' (and one more metric), with untied=False and untied=True"""
    c = _cmp_case(rng, max_alts)
    while len(c["ranks"][0]["alts"]) < 2:
        c = _cmp_case(rng, max_alts)
    rs = c["ranks"]
    for j in rng.sample(range(len(rs)), rng.choice([1, 1, 2, len(rs)])):
        rs[j]["values"] = [1] * len(rs[j]["values"])
    c["metrics"] = [{"metric": "correlation", "kwargs": {}}, {"metric": "cosine", "kwargs": {}}]
    extra = pick_metrics(rng, 1)[0]
    if extra not in c["metrics"]:
        c["metrics"].append(extra)
    return c


def _maha_cmp_case(rng):
    """more rankings than alternatives (4-6 rankings of 2-3 alternatives, with ties): the only shape on which the
    'mahalanobis' distance (covariance of the alternatives over the rankings) exists"""
    n = rng.choice([2, 2, 3])
    m = rng.randint(n + 2, 6)
    base = G.labels(rng, G.LABEL_POOL_ALT, n)
    names = rng.sample(NAME_POOL, m)
    ranks = []
    for j in range(m):
        alts = list(base)
        rng.shuffle(alts)
        ranks.append({"name": names[j], "alts": alts, "values": random_dense(rng, n, rng.choice(["none", "some", "some"]))})
    return {"kind": "cmp", "via": rng.choice(["ctor", "mkrank_cmp"]), "ranks": ranks,
            "metrics": [{"metric": "mahalanobis", "kwargs": {}}, {"metric": "seuclidean", "kwargs": {}}]}


def _reshuffled(rng, values):
    v = list(values)
    for _try in range(6):
        rng.shuffle(v)
        if v != list(values):
            break
    return v


def _buffer_final(rng, last):
    """what the caller leaves in the buffer after the last construction"""
    how = rng.choice(["shuffle", "shuffle", "zeros", "reverse", "plus-one", "ones"])
    n = len(last)
    if how == "shuffle":
        return _reshuffled(rng, last)
    if how == "zeros":
        return [0] * n
    if how == "reverse":
        return list(reversed(last))
    if how == "plus-one":
        return [x + 1 for x in last]
    return [1] * n


def _buffer_cmp_case(rng, max_alts=9):
    """a multi-step history: ONE caller-owned numpy buffer holds the rank values; a RankResult is built from it, the
    buffer is modified IN PLACE (reshuffled / partly rewritten / refilled), the next RankResult is built from the same
    buffer, ...; then the comparator is built and the buffer is modified once more.  `values` of ranking j is what the
    buffer held when ranking j was built."""
    n = rng.choice([2, 3, 3, 4, 5, 6, 7, max_alts, rng.randint(2, max_alts)])
    base = G.labels(rng, G.LABEL_POOL_ALT, n)
    m = rng.randint(2, 5)
    via = rng.choice(["ctor", "ctor", "mkrank_cmp"])
    names = rng.sample(NAME_POOL, m) if via == "ctor" else [rng.choice(NAME_POOL[:6]) for _ in range(m)]
    step = rng.choice(["shuffle", "shuffle", "shuffle", "fresh", "partial", "mixed"])
    same_order = rng.random() < 0.3
    vals = random_dense(rng, n, rng.choice(["none", "some", "some", "heavy"]))
    first = list(base)
    rng.shuffle(first)
    ranks = []
    for j in range(m):
        if j:
            how = step if step != "mixed" else rng.choice(["shuffle", "fresh", "partial"])
            if how == "shuffle":
                vals = _reshuffled(rng, vals)
            elif how == "fresh":
                vals = random_dense(rng, n, rng.choice(["none", "some", "heavy"]))
            else:
                raw = list(vals)
                for _ in range(rng.randint(1, max(1, n // 2))):
                    raw[rng.randrange(n)] = rng.randint(1, n)
                vals = _dense(raw)
        alts = list(first)
        if not same_order:
            rng.shuffle(alts)
        ranks.append({"name": names[j], "alts": alts, "values": list(vals)})
    return {"kind": "cmp", "via": via, "ranks": ranks, "metrics": pick_metrics(rng, 1),
            "buffer": {"dtype": rng.choice(BUFFER_DTYPES), "alts_buffer": rng.random() < 0.4,
                       "final": _buffer_final(rng, vals)}}


def _buffer_rank_case(rng):
    """a single ranking built from a caller-owned numpy array that is modified in place afterwards"""
    n = rng.choice([2, 3, 4, 5, 8, 12, rng.randint(2, 30)])
    c = _rank_case(rng, random_dense(rng, n, rng.choice(["heavy", "some", "none"])))
    c["buffer"] = {"dtype": rng.choice(BUFFER_DTYPES), "alts_buffer": rng.random() < 0.4,
                   "final": _buffer_final(rng, c["values"])}
    return c


# ---- long rankings held in NARROW integer arrays, and histories in which the caller edits a table it was handed

NARROW_MAX = {"int8": 127, "uint8": 255, "int16": 32767}
NARROW_HOWS = ["tail", "random-few", "random-many", "blocks", "worst-first", "few-ties", "periodic"]


def _narrow_n(rng, n_class):
    """'128+': more than 127 alternatives (int8 cannot count them); '256+': more than 255 (uint8 cannot either)"""
    if n_class == "128+":
        return rng.choice([128, 129, 130, 200, 255, rng.randint(128, 255), rng.randint(128, 255)])
    if n_class == "256+":
        return rng.choice([256, 257, 258, 300, rng.randint(256, 420), rng.randint(256, 420)])
    return rng.randint(2, 127)  # 'short': a control group that fits every dtype


def narrow_ranking(rng, dtype, n, how):
    """a dense ranking of n alternatives WITH ties whose levels fit the narrow dtype (all levels <= its largest value)"""
    top = NARROW_MAX[dtype]
    if how == "tail":  # one long tie, the better alternative(s) listed last
        b = rng.choice([1, 1, 2, n // 3])
        v = [2] * (n - b) + [1] * b
        if n > 3 and rng.random() < 0.3:
            v[0] = 3
    elif how == "random-few":
        k = rng.choice([2, 3, 5, 10])
        v = [rng.randint(1, k) for _ in range(n)]
    elif how == "random-many":  # as many levels as the dtype (or the length) allows
        k = max(2, min(top, n - rng.randint(1, max(1, n // 4))))
        v = [rng.randint(1, k) for _ in range(n)]
    elif how == "blocks":
        b = rng.randint(2, 6)
        cuts = sorted(rng.sample(range(1, n), min(b - 1, n - 1)))
        lens = [y - x for x, y in zip([0] + cuts, cuts + [n])]
        v = [r for r, k in zip([rng.randint(1, b) for _ in lens], lens) for _ in range(k)]
    elif how == "worst-first":
        k = rng.randint(2, min(top, 40))
        v = sorted((rng.randint(1, k) for _ in range(n)), reverse=True)
    elif how == "periodic":
        k = rng.randint(2, min(top, 100))
        step = rng.choice([1, k - 1])
        v = [(i * step) % k for i in range(n)]
    else:  # few ties: a permutation with a handful of repeated ranks (as many levels as fit)
        v = rng.sample(range(1, n + 1), n)
        for _ in range(rng.randint(1, 5)):
            v[rng.randrange(n)] = v[rng.randrange(n)]
    v = _dense(v)
    if max(v) > top:  # merge the worst levels until the dtype can hold them (still dense)
        v = [min(x, top) for x in v]
    if len(set(v)) == n and n > 1:  # no tie came out: make one
        v = _dense(v[:-1] + [v[0]])
    return v


def _narrow_rank_case(rng, dtype, n_class, how):
    """one ranking with ties, more than 127 / more than 255 alternatives, handed over as a numpy array of a narrow dtype"""
    n = _narrow_n(rng, n_class)
    c = _rank_case(rng, narrow_ranking(rng, dtype, n, how), pool=(n_class == "short" and rng.random() < 0.5))
    c["storage"] = dtype
    return c


def _narrow_cmp_case(rng, dtypes, n_class):
    """2-3 rankings over more than 127 / 255 alternatives, each handed over as an array of its own (narrow) dtype and listed in
    its own order; sometimes one is a re-listed copy of another (possibly in another dtype)"""
    n = _narrow_n(rng, n_class)
    m = len(dtypes)
    base = [f"A{i}" for i in range(n)]
    via = rng.choice(["ctor", "mkrank_cmp"])
    names = rng.sample(NAME_POOL, m)
    ranks = []
    for j, dt in enumerate(dtypes):
        alts = list(base)
        if j == 0 or rng.random() < 0.8:
            rng.shuffle(alts)
        if dt in NARROW_MAX:
            vals = narrow_ranking(rng, dt, n, rng.choice(NARROW_HOWS))
        else:
            vals = _dense([rng.randint(1, rng.choice([3, 10, n])) for _ in range(n)])
        ranks.append({"name": names[j], "alts": alts, "values": vals, "storage": dt})
    if m > 1 and rng.random() < 0.3:  # a re-listed copy (same rank for every alternative), kept in the copy's own dtype
        src, dst = rng.sample(range(m), 2)
        by_alt = dict(zip(ranks[src]["alts"], ranks[src]["values"]))
        if max(by_alt.values()) <= NARROW_MAX.get(ranks[dst]["storage"], 1 << 62):
            ranks[dst]["values"] = [by_alt[a] for a in ranks[dst]["alts"]]
    return {"kind": "cmp", "via": via, "ranks": ranks, "long": True, "narrow": True}


# what a caller does, IN PLACE, to a table it received from the comparator
FRAME_EDITS = ["add-column", "insert-column", "drop-row", "drop-column", "del-column", "overwrite-column", "overwrite-rows",
               "overwrite-all", "overwrite-cell", "scale", "rerank-column", "rename-columns", "rename-rows", "rename-inplace",
               "sort-rows", "numpy-write", "drop-row+add-column"]
HISTORY_CALLS = ["to_dataframe", "to_dataframe", "to_dataframe", "corr", "cov", "r2_score", "distance"]


def _history_step(rng, call, untied, edit):
    st = {"call": call, "untied": untied, "edit": edit, "k": rng.randrange(1 << 16)}
    if call == "distance" and rng.random() < 0.4:
        st["metric"] = rng.choice(["cityblock", "euclidean", "chebyshev"])
    return st


STAT_CALLS = ["corr", "cov", "r2_score", "distance"]


def _first_step(i):
    """the schedule of first steps: even cases edit a to_dataframe (every edit x both untied settings in 34 cases), odd cases
    edit a corr / cov / r2_score / distance table (call fastest, then untied, the edit rotating)"""
    t = i // 2
    if i % 2 == 0:
        return "to_dataframe", bool(t % 2), FRAME_EDITS[(t // 2) % len(FRAME_EDITS)]
    return STAT_CALLS[t % 4], bool((t // 4) % 2), FRAME_EDITS[(t // 8 + t) % len(FRAME_EDITS)]


def _history_cmp_case(rng, i, max_alts=9):
    """a multi-step history on ONE comparator: ask for a table (to_dataframe / corr / cov / r2_score / distance, untied or
    not), edit the returned frame IN PLACE, ask again with the same arguments; 1-4 such steps; then every table is taken
    once more.  The first step comes from a fixed schedule (`_first_step`), the later ones are random."""
    c = _relisted_cmp_case(rng, max_alts) if rng.random() < 0.25 else _cmp_case(rng, max_alts)
    while len(c["ranks"][0]["alts"]) < 2 or not cmp_wellformed(c):
        c = _cmp_case(rng, max_alts)
    steps = [_history_step(rng, *_first_step(i))]
    for _ in range(rng.choice([0, 1, 1, 2, 3])):
        steps.append(_history_step(rng, rng.choice(HISTORY_CALLS), rng.random() < 0.5, rng.choice(FRAME_EDITS)))
    c["history"] = steps
    return c


def _with_metrics(rng, c, k):
    """the same comparator, also asked for k distance tables with a non-default metric"""
    if "metrics" not in c:
        c["metrics"] = pick_metrics(rng, k)
    return c



def gen(ctx):
    rng = ctx.rng
    cases = []
    maxlen = ctx.n(5, 7)
    for L in range(1, maxlen + 1):
        for v in dense_rankings(L):
            cases.append(_rank_case(rng, v, pool=(L <= 5)))
    for i in range(ctx.n(260, 4000)):
        n = rng.randint(1, 12) if not ctx.thorough or i % 2 == 0 else rng.randint(8, 40)
        cases.append(_rank_case(rng, random_dense(rng, n, rng.choice(["heavy", "heavy", "some", "none"]))))
    # long rankings (more than 100 alternatives), heavy ties, a better alternative listed 100+ places after a worse one
    cases.append(_rank_case(rng, [2] * 100 + [1]))
    cases.append(_rank_case(rng, [3] * 150 + [1] * 20 + [2] * 200))
    for how in ("tail", "blocks", "worst-first", "random", "periodic", "no-ties", "few-ties"):
        for i in range(ctx.n(1, 20)):
            cases.append(_rank_case(rng, long_ranking(rng, how)))
    for i in range(ctx.n(3, 40)):
        cases.append(_rank_case(rng, long_ranking(rng)))
    for i in range(ctx.n(3, 24)):
        cases.append(_long_cmp_case(rng))
    for i in range(ctx.n(160, 3000)):
        cases.append(_cmp_case(rng, ctx.n(9, 15)))
    for i in range(ctx.n(60, 800)):
        cases.append(_relisted_cmp_case(rng, ctx.n(9, 15)))
    for i in range(ctx.n(12, 120)):
        cases.append(_bad_cmp_case(rng))
    # distance() with non-default metrics: on every comparator above (a separate random stream: the comparators themselves
    # are the ones generated before), plus comparators with an all-tied ranking, plus more rankings than alternatives
    mrng = random.Random(rng.getrandbits(64))
    for c in cases:
        if c["kind"] == "cmp" and "bad" not in c:
            _with_metrics(mrng, c, 1 if c.get("long") else 2)
    for i in range(ctx.n(40, 500)):
        cases.append(_alltied_cmp_case(rng, ctx.n(9, 15)))
    for i in range(ctx.n(16, 200)):
        cases.append(_maha_cmp_case(rng))
    # histories over one caller-owned buffer that is modified in place between (and after) the constructions
    for i in range(ctx.n(90, 1200)):
        cases.append(_buffer_cmp_case(rng, ctx.n(9, 15)))
    for i in range(ctx.n(60, 600)):
        cases.append(_buffer_rank_case(rng))
    cases.extend(_narrow_and_history_cases(rng, ctx.n(1, 10), ctx.n(72, 700), ctx.n(12, 90), ctx.n(9, 15)))
    return cases


def _narrow_and_history_cases(rng, reps, n_hist, n_ncmp, max_alts):
    """the fixed share of every run: (1) long tied rankings in narrow integer arrays - every dtype x length class x pattern;
    (2) histories in which the caller edits a returned table in place - every edit on to_dataframe with both untied
    settings, and on corr / cov / r2_score / distance; (3) comparators over long rankings in narrow arrays"""
    out = []
    for rep in range(reps):
        for dtype in ("int8", "uint8", "int16"):
            for n_class in ("128+", "256+"):
                for how in NARROW_HOWS:
                    out.append(_narrow_rank_case(rng, dtype, n_class, how))
            for how in rng.sample(NARROW_HOWS, 2):  # control group: the same storage, a length every dtype can count
                out.append(_narrow_rank_case(rng, dtype, "short", how))
    for i in range(n_hist):
        out.append(_with_metrics(rng, _history_cmp_case(rng, i, max_alts), 1))
    sched = [(("int8", "int8"), "128+"), (("uint8", "uint8"), "256+"), (("int16", "int16"), "256+"), (("int8", "int64"), "128+"),
             (("uint8", "int8"), "256+"), (("int16", "uint8"), "128+"), (("int8", "uint8", "int16"), "256+"),
             (("int64", "int8", "int8"), "128+"), (("int8", "int8"), "256+"), (("uint8", "uint8"), "128+"),
             (("int8", "int8"), "short"), (("uint8", "int16"), "short")]
    for i in range(n_ncmp):
        dts, n_class = sched[i % len(sched)]
        out.append(_with_metrics(rng, _narrow_cmp_case(rng, dts, n_class), 1))
    return out


def search_gen(ctx):
    rng = ctx.rng
    cases = [_rank_case(rng, v, pool=False) for L in range(1, 6) for v in dense_rankings(L)]
    for i in range(1500):
        cases.append(_rank_case(rng, random_dense(rng, rng.randint(1, 14), rng.choice(["heavy", "some", "none"]))))
    for i in range(60):
        cases.append(_rank_case(rng, long_ranking(rng)))
    for i in range(600):
        cases.append(_cmp_case(rng, 9))
    for i in range(200):
        cases.append(_relisted_cmp_case(rng, 9))
    for c in cases:
        if c["kind"] == "cmp":
            _with_metrics(rng, c, 2)
    for i in range(200):
        cases.append(_alltied_cmp_case(rng, 9))
    for i in range(60):
        cases.append(_maha_cmp_case(rng))
    for i in range(400):
        cases.append(_buffer_cmp_case(rng, 9))
    for i in range(200):
        cases.append(_buffer_rank_case(rng))
    cases.extend(_narrow_and_history_cases(rng, 3, 300, 40, 9))
    return cases


# --------------------------------------------------------------------------- implementation side


def _num(x):
    x = float(x)
    return None if math.isnan(x) else x


def _table(df):
    return {
        "index": [str(a) for a in df.index],
        "columns": [str(a) for a in df.columns],
        "values": [[_num(x) for x in row] for row in df.to_numpy(dtype=float).tolist()],
    }


def _frame(df):
    cells = []
    for row in df.to_numpy().tolist():
        out = []
        for x in row:
            if isinstance(x, float):
                out.append(None if math.isnan(x) else (int(x) if x == int(x) else x))
            else:
                out.append(int(x))
        cells.append(out)
    return {"rows": [str(a) for a in df.index], "cols": [str(a) for a in df.columns], "cells": cells}


def _rank_obs(res):
    s = res.to_series(untied=True)
    return {
        "rank": [int(x) for x in res.rank_],
        "untied": [int(x) for x in res.untied_rank_],
        "series_values": [int(x) for x in s.to_numpy()],
        "series_index": [str(a) for a in s.index],
        "has_ties": bool(res.has_ties_),
        "ties": {str(int(k)): int(v) for k, v in res.ties_.items()},
    }


class _Buffer:
    """the caller's side of a history: ONE numpy array for the rank values (and optionally one for the labels), always
    rewritten in place - the RankResults are all built from these same two objects"""

    def __init__(self, spec, n):
        self.values = np.zeros(n, dtype=spec["dtype"])
        self.alts = np.empty(n, dtype=object) if spec.get("alts_buffer") else None

    def load(self, alts, values):
        self.values[:] = values  # in place
        if self.alts is None:
            return alts, self.values
        self.alts[:] = alts  # in place
        return self.alts, self.values

    def scribble(self, values):
        self.values[:] = values
        if self.alts is not None:
            self.alts[:] = self.alts[::-1].copy()


def _stored(values, dtype):
    """the rank values as the caller holds them: a numpy array of the given (narrow) integer dtype"""
    if dtype is None:
        return values
    arr = np.array(values, dtype=dtype)
    if arr.tolist() != list(values):
        raise AssertionError(f"generator: the ranking does not fit {dtype}")
    return arr


def _apply_edit(df, step):
    """what the caller does IN PLACE to a DataFrame it was handed; returns False when pandas refuses the edit"""
    how, k = step["edit"], step["k"]
    nr, nc = df.shape
    try:
        if how == "add-column":
            df["consensus"] = df.mean(axis=1)
        elif how == "insert-column":
            df.insert(0, "best", df.min(axis=1))
        elif how == "drop-row":
            df.drop(index=df.index[k % nr], inplace=True)
        elif how == "drop-column":
            df.drop(columns=df.columns[k % nc], inplace=True)
        elif how == "del-column":
            del df[df.columns[k % nc]]
        elif how == "overwrite-column":
            df[df.columns[k % nc]] = 0
        elif how == "overwrite-rows":
            df.iloc[:, k % nc] = df.iloc[::-1, k % nc].to_numpy()
            df.iloc[k % nr, :] = 1
        elif how == "overwrite-all":
            df.loc[:, :] = 0
        elif how == "overwrite-cell":
            df.iat[k % nr, (k // 7) % nc] = 99
        elif how == "scale":
            df *= 2
            df += 1
        elif how == "rerank-column":
            c = df.columns[k % nc]
            df[c] = df[c].rank(ascending=False, method="first").fillna(0).astype(int)
        elif how == "rename-columns":
            df.columns = [f"x{j}" for j in range(nc)]
        elif how == "rename-rows":
            df.index = list(df.index[::-1]) if nr > 1 else ["zz"]
        elif how == "rename-inplace":
            df.rename(columns={df.columns[k % nc]: "renamed"}, index={df.index[k % nr]: "other"}, inplace=True)
        elif how == "sort-rows":
            df.sort_values(by=df.columns[k % nc], ascending=bool(k % 2), kind="stable", inplace=True)
            df.sort_index(axis=1, ascending=False, inplace=True)
        elif how == "numpy-write":
            df.to_numpy()[...] = 0  # a view of the frame's storage, if pandas hands one out
            df.values[k % nr, :] = 7
        elif how == "drop-row+add-column":
            df["consensus"] = df.mean(axis=1)
            df.drop(index=df.index[k % nr], inplace=True)
            df[df.columns[0]] = df[df.columns[0]].rank(ascending=False).fillna(0).astype(int)
        else:
            raise KeyError(how)
    except (ValueError, TypeError) as e:  # e.g. a read-only view: the caller's attempt simply failed
        if how != "numpy-write":
            raise
        return False
    return True


def _history_call(cmp, step):
    if step["call"] == "to_dataframe":
        return cmp.to_dataframe(untied=step["untied"])
    if step["call"] == "distance" and "metric" in step:
        return cmp.distance(untied=step["untied"], metric=step["metric"])
    return getattr(cmp, step["call"])(untied=step["untied"])


def _run_history(cmp, steps):
    """ask - edit the answer in place - ask again with the same arguments"""
    out = []
    for step in steps:
        read = _frame if step["call"] == "to_dataframe" else _table
        rec = {}
        try:
            t = _history_call(cmp, step)
            rec["first"] = read(t)
        except Exception as e:
            rec["first"] = {"err": f"{G.err_name(e)}: {str(e)[:120]}"}
            out.append(rec)
            continue
        rec["edited"] = _apply_edit(t, step)
        try:
            rec["again"] = read(_history_call(cmp, step))
        except Exception as e:
            rec["again"] = {"err": f"{G.err_name(e)}: {str(e)[:120]}"}
        out.append(rec)
    return out


def _observe_tables(cmp, case, o):
    narrow = any("storage" in r for r in case["ranks"])
    # the flag is also handed over as a truthy / falsy value that is not the literal bool (np.True_, 1, np.False_, 0), as a caller
    # writing `untied=np.any(...)` does; which form is used is fixed by the case
    form = sum(len(r.get("alts", [])) for r in case["ranks"]) % 3
    for u0 in (False, True):
        key = "untied" if u0 else "plain"
        u = [u0, np.bool_(u0), int(u0)][form]
        df = cmp.to_dataframe(untied=u)
        o[key] = {
            "frame": _frame(df),
            "corr": _table(cmp.corr(untied=u)),
            "cov": _table(cmp.cov(untied=u)),
            "r2": _table(cmp.r2_score(untied=u)),
            "dist": _table(cmp.distance(untied=u)),
        }
        for meth in ("spearman", "kendall"):  # the other documented correlation methods, same frame
            try:
                o[key]["corr_" + meth] = _table(cmp.corr(untied=u, method=meth))
            except Exception as e:
                o[key]["corr_" + meth] = {"err": G.err_name(e)}
        if narrow:
            o[key]["frame_dtypes"] = [str(d) for d in df.dtypes]
        extra = []
        for mt in case.get("metrics", []):
            try:
                extra.append({"table": _table(cmp.distance(untied=u, metric=mt["metric"], **mt["kwargs"]))})
            except Exception as e:
                extra.append({"err": G.err_name(e)})
        if extra:
            o[key]["dist_metric"] = extra


def observe(case):
    from skcriteria.agg import RankResult
    from skcriteria.cmp import RanksComparator, mkrank_cmp

    buf = _Buffer(case["buffer"], len(case["values"] if case["kind"] == "rank" else case["ranks"][0]["values"])) \
        if "buffer" in case else None
    with warnings.catch_warnings(), np.errstate(all="ignore"):
        warnings.simplefilter("ignore")
        if case["kind"] == "rank":
            try:
                if buf is None:
                    res = RankResult("method", case["alts"], _stored(case["values"], case.get("storage")), {})
                else:
                    res = RankResult("method", *buf.load(case["alts"], case["values"]), {})
            except Exception as e:
                return {"err": G.err_name(e)}
            if buf is None:
                return _rank_obs(res)
            before = _rank_obs(res)
            buf.scribble(case["buffer"]["final"])  # the caller reuses the array
            o = _rank_obs(res)
            o["before"] = before
            return o
        if case["kind"] == "cmp":
            if buf is None:
                results = [RankResult(r["name"], r["alts"], _stored(r["values"], r.get("storage")), {}) for r in case["ranks"]]
            else:  # every ranking from the same buffer, rewritten in place between the constructions
                results = [RankResult(r["name"], *buf.load(r["alts"], r["values"]), {}) for r in case["ranks"]]
            try:
                if case["via"] == "mkrank_cmp":
                    cmp = mkrank_cmp(*results)
                else:
                    cmp = RanksComparator([(r["name"], res) for r, res in zip(case["ranks"], results)])
            except Exception as e:
                return {"err": G.err_name(e)}
            o = {"names": [str(n) for n, _ in cmp.ranks], "len": len(cmp)}
            if buf is not None:
                o["mid"] = {"plain": _frame(cmp.to_dataframe(untied=False)), "untied": _frame(cmp.to_dataframe(untied=True)),
                            "dist": _table(cmp.distance())}
                buf.scribble(case["buffer"]["final"])  # ... and once more after the comparator exists
                o["results_after"] = [{"rank": [int(x) for x in res.rank_], "untied": [int(x) for x in res.untied_rank_],
                                       "index": [str(a) for a in res.alternatives]} for res in results]
            if "history" in case:  # the caller edits tables it is handed, then everything is asked once more
                o["history"] = _run_history(cmp, case["history"])
                try:
                    _observe_tables(cmp, case, o)
                except Exception as e:
                    o["later_err"] = f"{G.err_name(e)}: {str(e)[:160]}"
                return o
            _observe_tables(cmp, case, o)
            return o
    raise KeyError(case["kind"])


# --------------------------------------------------------------------------- property oracle (from the text)


def oracle_untied(values):
    """the only ranking that is a permutation of 1..n, keeps strict preferences and breaks ties by order
    of appearance: position in the order (rank, place in the listing)"""
    order = sorted(range(len(values)), key=lambda i: (values[i], i))
    out = [0] * len(values)
    for pos, i in enumerate(order):
        out[i] = pos + 1
    return out


def check_untied(values, u):
    """list of (what, expected, observed) — straight from the statement, pair by pair"""
    n = len(values)
    bad = []
    if len(u) != n or sorted(u) != list(range(1, n + 1)):
        bad.append(("untied ranking is not a permutation of 1..n", list(range(1, n + 1)), u))
        return bad
    for i in range(n):
        for k in range(n):
            if values[i] < values[k] and not u[i] < u[k]:
                bad.append((f"strict preference lost: alternative #{i} (rank {values[i]}) is ranked ahead of #{k} (rank {values[k]}) "
                            f"but its untied rank {u[i]} is not below {u[k]}", oracle_untied(values), u))
                return bad
            if values[i] == values[k] and i < k and not u[i] < u[k]:
                bad.append((f"tie not broken by order of appearance: #{i} and #{k} share rank {values[i]}, #{i} is listed first "
                            f"but gets untied rank {u[i]} vs {u[k]}", oracle_untied(values), u))
                return bad
    if len(set(values)) == n and u != values:
        bad.append(("no ties, yet the untied ranking differs from the original", values, u))
    return bad


def expected_names(case):
    names = [r["name"] for r in case["ranks"]]
    if case["via"] != "mkrank_cmp":
        return names
    total = {}
    for nme in names:
        total[nme] = total.get(nme, 0) + 1
    seen, out = {}, []
    for nme in names:
        if total[nme] > 1:
            seen[nme] = seen.get(nme, 0) + 1
            out.append(f"{nme}_{seen[nme]}")
        else:
            out.append(nme)
    return out


def cmp_wellformed(case):
    rs = case["ranks"]
    names = expected_names(case)
    return len(rs) > 1 and len(set(names)) == len(names) and all(set(r["alts"]) == set(rs[0]["alts"]) for r in rs)


def expected_columns(case, untied):
    """per ranking: {alternative: rank} from the ranking's own listing"""
    cols = []
    for r in case["ranks"]:
        vals = oracle_untied(r["values"]) if untied else r["values"]
        cols.append(dict(zip(r["alts"], vals)))
    return cols


def _variance(xs):
    n = len(xs)
    if n < 2:
        return None
    mean = Fraction(sum(xs), n)
    return sum((Fraction(x) - mean) ** 2 for x in xs) / (n - 1)


def diag_expectations(case, untied):
    """per statistic: list over rankings of (expected diagonal value | None when NaN is legitimate)"""
    cols = expected_columns(case, untied)
    out = {"corr": [], "cov": [], "r2": [], "dist": [], "corr_spearman": [], "corr_kendall": []}
    for col in cols:
        var = _variance(list(col.values()))
        out["corr"].append(1.0 if (var is not None and var > 0) else None)
        out["corr_spearman"].append(1.0 if (var is not None and var > 0) else None)
        out["corr_kendall"].append(1.0 if (var is not None and var > 0) else None)
        out["cov"].append(float(var) if var is not None else None)
        out["r2"].append(1.0)
        out["dist"].append(0.0)
    return out


def _close(a, b):
    return abs(a - b) <= TOL * max(1.0, abs(b))


STAT_LABEL = {"corr": "corr", "cov": "cov", "r2": "r2_score", "dist": "distance", "corr_spearman": "corr(method='spearman')",
              "corr_kendall": "corr(method='kendall')"}


def recompute_tables(frame):
    """every pairwise statistic recomputed from the columns of a label-aligned frame (the implementation's own
    to_dataframe): {stat: [[value | None (NaN)]]}; None when the frame has holes"""
    import pandas as pd
    from scipy.spatial import distance as sp_distance
    from sklearn import metrics as skl_metrics

    cells = frame["cells"]
    if any(x is None for row in cells for x in row):
        return None
    m = len(frame["cols"])
    cols = [[row[j] for row in cells] for j in range(m)]
    series = [pd.Series(c, index=frame["rows"], dtype=float) for c in cols]
    out = {k: [[None] * m for _ in range(m)] for k in STAT_LABEL}
    with warnings.catch_warnings(), np.errstate(all="ignore"):
        warnings.simplefilter("ignore")
        for i in range(m):
            for j in range(m):
                lo, hi = min(i, j), max(i, j)  # r2_score(y_true=earlier ranking, y_pred=later one), filled both ways
                out["corr"][i][j] = _num(series[i].corr(series[j]))
                out["corr_spearman"][i][j] = _num(series[i].corr(series[j], method="spearman"))
                out["corr_kendall"][i][j] = _num(series[i].corr(series[j], method="kendall"))
                out["cov"][i][j] = _num(series[i].cov(series[j]))
                out["r2"][i][j] = _num(skl_metrics.r2_score(cols[lo], cols[hi]))
                out["dist"][i][j] = _num(sp_distance.hamming(cols[i], cols[j]))
    return out


def recompute_distance(frame, metric, kwargs):
    """distance(metric=...) recomputed cell by cell from the columns of a label-aligned frame with scipy's own two-vector
    function of that metric: [[value | None (NaN / undefined)]]; None when the frame has holes or the metric has no
    value on this collection (seuclidean: an alternative with the same rank everywhere - zero variance; mahalanobis:
    singular or badly conditioned covariance)"""
    from scipy.spatial import distance as sp_distance

    cells = frame["cells"]
    if any(x is None for row in cells for x in row):
        return None
    m = len(frame["cols"])
    X = np.array([[row[j] for row in cells] for j in range(m)], dtype=float)  # one row per ranking
    fn = getattr(sp_distance, metric)
    args = ()
    if metric == "seuclidean":
        if m < 2:
            return None
        V = np.var(X, axis=0, ddof=1)  # variance of every alternative's rank over the rankings (scipy's default V)
        if not np.all(V > 0):
            return None
        args = (V,)
    elif metric == "mahalanobis":
        if m <= X.shape[1]:
            return None
        CV = np.atleast_2d(np.cov(X.T))  # scipy's default VI: inverse covariance of the alternatives over the rankings
        if not np.all(np.isfinite(CV)) or np.linalg.matrix_rank(CV) < CV.shape[0] or np.linalg.cond(CV) > 1e4:
            return None
        args = (np.linalg.inv(CV).T.copy(),)
    out = [[None] * m for _ in range(m)]
    with warnings.catch_warnings(), np.errstate(all="ignore"):
        warnings.simplefilter("ignore")
        for i in range(m):
            for j in range(m):
                out[i][j] = _num(fn(X[i], X[j], *args, **kwargs))
    return out


def same_table(a, b):
    """two observations of the same table (frames: exactly; statistics: labels exactly, numbers within TOL, NaN = NaN)"""
    if "err" in a or "err" in b:
        return False
    if "cells" in a:
        return a == b
    if "values" not in b or a["index"] != b["index"] or a["columns"] != b["columns"]:
        return False
    if [len(r) for r in a["values"]] != [len(r) for r in b["values"]]:
        return False
    for ra, rb in zip(a["values"], b["values"]):
        for x, y in zip(ra, rb):
            if (x is None) != (y is None) or (x is not None and not _close(x, y)):
                return False
    return True


NARROW_R2_IDENTITY = {
    "site": "skcriteria/cmp/ranks_cmp.py r2_score (sklearn.metrics.r2_score on the int8/uint8/int16 columns of to_dataframe)",
    "input": "two rankings stored in a narrow integer dtype whose ranks differ on some alternative by more than the square root "
             "of the dtype's largest value: (y_true - y_pred) ** 2 wraps around in that dtype",
}


def narrow_r2_identity(stat, frame, dtypes, i, j, got):
    """the identity of the narrow-storage R2 finding - only when the reported cell is EXACTLY what sklearn's r2_score gives
    on the two frame columns held in the narrow dtype the implementation's frame has (so the wrap-around explains it)"""
    if stat != "r2" or not dtypes or got is None or not {dtypes[i], dtypes[j]} <= set(NARROW_MAX):
        return None
    from sklearn import metrics as skl_metrics

    lo, hi = min(i, j), max(i, j)
    with warnings.catch_warnings(), np.errstate(all="ignore"):
        warnings.simplefilter("ignore")
        wrapped = skl_metrics.r2_score(np.array([row[lo] for row in frame["cells"]], dtype=dtypes[lo]),
                                       np.array([row[hi] for row in frame["cells"]], dtype=dtypes[hi]))
    return dict(NARROW_R2_IDENTITY) if _close(got, float(wrapped)) else None


def frame_findings(fr, cols, names, alts, label, untied):
    """to_dataframe against 'each alternative's rank under its own name': [(what, expected, observed)]"""
    if fr["cols"] != names:
        return [(f"{label}: columns are not the ranking names in order", names, fr["cols"])]
    if sorted(fr["rows"]) != sorted(alts):
        return [(f"{label}: rows are not the alternatives, each once", sorted(alts), fr["rows"])]
    for i, a in enumerate(fr["rows"]):
        for j, nme in enumerate(names):
            if fr["cells"][i][j] != cols[j][a]:
                return [(f"{label}[{nme!r}][{a!r}] is not the {'untied ' if untied else ''}rank that ranking {nme!r} gives to {a!r}"
                         + (" (untied in that ranking's own listing order)" if untied else ""), cols[j][a], fr["cells"][i][j])]
    return []


def metric_label(mt):
    return mt["metric"] + "".join(f", {k}={v}" for k, v in sorted(mt["kwargs"].items()))


# --------------------------------------------------------------------------- model side


def requests(case, obs):
    if case["kind"] == "rank":
        if "err" in obs:
            return []
        return [{"op": "untied", "ranks": case["values"], "version": "fixed"}]
    if case["kind"] == "cmp":
        names = expected_names(case)
        ranks = [{"name": n, "alts": r["alts"], "values": r["values"]} for n, r in zip(names, case["ranks"])]
        return [{"op": "frame", "ranks": ranks, "untied": False}, {"op": "frame", "ranks": ranks, "untied": True}]
    return []


def judge(case, obs, replies):
    out = []

    def prop(what, expected=None, observed=None, identity=None):
        out.append({"kind": "property", "what": what, "expected": expected, "observed": observed})
        if identity:
            out[-1]["identity"] = identity

    def corr(what, expected=None, observed=None):
        out.append({"kind": "correspondence", "what": what, "expected": expected, "observed": observed})

    if case["kind"] == "rank":
        values, alts = case["values"], case["alts"]
        if "err" in obs:
            prop(f"RankResult refused a dense ranking with {obs['err']}", values, obs["err"])
            return out
        u = obs["untied"]
        if "before" in obs:  # built from a caller-owned array that was modified in place afterwards
            after = {k: v for k, v in obs.items() if k != "before"}
            if after != obs["before"]:
                k = next(k for k in after if after[k] != obs["before"][k])
                prop(f"the RankResult changed when the array it was built from was modified in place afterwards ({k})",
                     obs["before"][k], after[k])
        for what, e, o in check_untied(values, u):
            prop("untied_rank_: " + what, e, o)
        if obs["series_values"] != u or obs["series_index"] != alts:
            prop("to_series(untied=True) does not pair the untied ranks with the alternatives in listing order",
                 [alts, u], [obs["series_index"], obs["series_values"]])
        for what, e, o in check_untied(values, obs["series_values"]):
            if obs["series_values"] != u:
                prop("to_series(untied=True): " + what, e, o)
        ties = len(set(values)) != len(values)
        if obs["has_ties"] != ties:
            prop("has_ties_ is not 'two alternatives share a rank'", ties, obs["has_ties"])
        cnt = {}
        for v in values:
            cnt[str(v)] = cnt.get(str(v), 0) + 1
        if obs["ties"] != cnt:
            prop("ties_ does not count how often each rank occurs", cnt, obs["ties"])
        if obs["rank"] != values:
            prop("rank_ differs from the values given", values, obs["rank"])
        r = replies[0]
        if r.get("untied") != u:
            corr("untied: model vs implementation", r.get("untied"), u)
        if r.get("has_ties") != obs["has_ties"]:
            corr("has_ties: model vs implementation", r.get("has_ties"), obs["has_ties"])
        if r.get("closed") != r.get("untied"):
            corr("model: double argsort differs from the closed form", r.get("closed"), r.get("untied"))
        return out

    # ---- comparators
    ok = cmp_wellformed(case)
    if "err" in obs:
        if ok:
            prop(f"RanksComparator refused rankings over the same alternatives with {obs['err']}", None, obs["err"])
        for r in replies:
            if r.get("err") != obs["err"]:
                corr("comparator refusal: model vs implementation", r.get("err"), obs["err"])
        return out
    if not ok:
        # the statement says nothing about malformed collections: model-vs-implementation only
        for r in replies:
            if "err" in r:
                corr("comparator accepted a collection the model refuses", r.get("err"), "accepted")
        return out
    names = expected_names(case)
    alts = case["ranks"][0]["alts"]
    if obs["names"] != names or obs["len"] != len(names):
        prop("comparator does not name its rankings as given", names, obs["names"])
        return out
    if "results_after" in obs:  # every ranking was built from ONE buffer that the caller kept modifying in place
        for r, nme, ra in zip(case["ranks"], names, obs["results_after"]):
            if ra["rank"] != r["values"] or ra["index"] != r["alts"]:
                prop(f"ranking {nme!r} no longer shows the ranks it was built with after the caller's buffer was modified in place",
                     [r["alts"], r["values"]], [ra["index"], ra["rank"]])
                break
            if ra["untied"] != oracle_untied(r["values"]):
                prop(f"ranking {nme!r}: untied ranks changed after the caller's buffer was modified in place",
                     oracle_untied(r["values"]), ra["untied"])
                break
        if obs["mid"]["dist"] != obs["plain"]["dist"]:
            prop("distance() changed when the caller's buffer was modified in place after the comparator was built",
                 obs["mid"]["dist"], obs["plain"]["dist"])
    if "history" in obs:  # the caller edited, in place, tables it had been handed: later tables must not show it
        for k, (step, rec) in enumerate(zip(case["history"], obs["history"])):
            sl = f"{step['call']}(untied={step['untied']}" + (f", metric={step['metric']}" if "metric" in step else "") + ")"
            where = f"history step {k + 1}: "
            if "err" in rec["first"]:
                prop(where + f"{sl} raised {rec['first']['err']}" + (" after the caller edited an earlier table" if k else ""),
                     "a table", rec["first"]["err"])
                break
            if step["call"] == "to_dataframe":
                ff = frame_findings(rec["first"], expected_columns(case, step["untied"]), names, alts, where + sl, step["untied"])
                for what, e, g in ff:
                    prop(what + (" (after the caller edited an earlier table in place)" if k else ""), e, g)
                if ff:
                    break
            if not same_table(rec["first"], rec["again"]):
                prop(where + f"{sl} asked again with the same arguments differs after the caller edited ({step['edit']}, in place) "
                     "the frame returned by the first call", rec["first"], rec["again"])
                break
        if "later_err" in obs:
            prop("a table of the comparator could not be computed after the caller edited an earlier returned table in place: "
                 + obs["later_err"], "a table", obs["later_err"])
            return out
    for u, key, reply in ((False, "plain", replies[0]), (True, "untied", replies[1])):
        o = obs[key]
        fr = o["frame"]
        cols = expected_columns(case, u)
        label = f"to_dataframe(untied={u})"
        ff = frame_findings(fr, cols, names, alts, label, u)
        for what, e, g in ff:
            prop(what, e, g)
        if ff and ff[0][0].startswith(f"{label}: "):
            continue
        if "mid" in obs:  # the same frame, taken before the caller's last in-place modification of the buffer
            for what, e, g in frame_findings(obs["mid"][key], cols, names, alts, label + " before the buffer was reused", u):
                prop(what, e, g)
        # pairwise statistics: square over the names, self-comparison on the diagonal
        diag = diag_expectations(case, u)
        recomputed = recompute_tables(fr)
        for stat in ("corr", "cov", "r2", "dist", "corr_spearman", "corr_kendall"):
            t = o.get(stat)
            if t is None:
                continue
            sl = f"{STAT_LABEL[stat]}(untied={u})"
            if "err" in t:
                prop(f"{sl} refused with {t['err']}", "a table", t["err"])
                continue
            if t["index"] != names or t["columns"] != names or len(t["values"]) != len(names) or \
                    any(len(row) != len(names) for row in t["values"]):
                prop(f"{sl} is not square over the ranking names", names, [t["index"], t["columns"]])
                continue
            for j, nme in enumerate(names):
                exp, got = diag[stat][j], t["values"][j][j]
                if exp is None:
                    continue  # NaN is legitimate here (constant ranking / single alternative): skipped, counted in tags
                if got is None or not _close(got, exp):
                    prop(f"{sl}[{nme!r}][{nme!r}] is not the self-comparison value", exp, got)
                    break
            # two rankings that give every alternative the same rank (a ranking and a re-listed copy of it)
            # compare like a ranking with itself
            bad = False
            for i in range(len(names)):
                for j in range(len(names)):
                    if i == j or cols[i] != cols[j] or diag[stat][i] is None:
                        continue
                    got = t["values"][i][j]
                    if got is None or not _close(got, diag[stat][i]):
                        prop(f"{sl}[{names[i]!r}][{names[j]!r}]: the two rankings give every alternative the same rank "
                             f"(listed in another order) but the cell is not the self-comparison value", diag[stat][i], got)
                        bad = True
                        break
                if bad:
                    break
            # every cell = the statistic of the two columns of the implementation's own label-aligned frame
            if recomputed is None or bad:
                continue
            for i, j in itertools.product(range(len(names)), repeat=2):
                exp, got = recomputed[stat][i][j], t["values"][i][j]
                if exp is None:
                    continue  # NaN statistic (zero variance / one alternative): skipped
                if got is None or not _close(got, exp):
                    if narrow_r2_identity(stat, fr, o.get("frame_dtypes"), i, j, got) is not None:
                        # the cell IS the external statistic (sklearn.metrics.r2_score) of the two label-aligned columns as they are
                        # stored (int8 / uint8 / int16: its squared differences wrap around in that dtype).  The property is about
                        # the alignment by alternative name, which holds; the arithmetic of the external function on narrow integers
                        # is outside its statement (DESIGN 16.3)
                        continue
                    prop(f"{sl}[{names[i]!r}][{names[j]!r}] is not the statistic of columns {names[i]!r} and {names[j]!r} "
                         f"of to_dataframe(untied={u}) (rankings aligned by alternative name)", exp, got)
                    break
        # distance() with another metric: square over the names, 0 for a ranking against itself (and against a re-listed
        # copy of itself), every other cell = that metric of the two columns of the implementation's own frame
        for mt, t in zip(case.get("metrics", []), o.get("dist_metric", [])):
            sl = f"distance(untied={u}, metric={metric_label(mt)})"
            expd = recompute_distance(fr, mt["metric"], mt["kwargs"])
            if "err" in t:
                if expd is not None:
                    prop(f"{sl} refused with {t['err']}", "a table", t["err"])
                continue
            t = t["table"]
            if t["index"] != names or t["columns"] != names or len(t["values"]) != len(names) or \
                    any(len(row) != len(names) for row in t["values"]):
                prop(f"{sl} is not square over the ranking names", names, [t["index"], t["columns"]])
                continue
            bad = False
            for j, nme in enumerate(names):
                got = t["values"][j][j]
                if got is None or not _close(got, 0.0):
                    prop(f"{sl}[{nme!r}][{nme!r}] is not the self-comparison value", 0.0, got)
                    bad = True
                    break
            if expd is None or bad:
                continue
            for i, j in itertools.product(range(len(names)), repeat=2):
                if i == j or expd[i][j] is None:
                    continue  # NaN for a legitimate reason (e.g. correlation distance to a constant ranking): skipped
                got = t["values"][i][j]
                if cols[i] == cols[j] and (got is None or not _close(got, 0.0)):
                    prop(f"{sl}[{names[i]!r}][{names[j]!r}]: the two rankings give every alternative the same rank "
                         f"(listed in another order) but the cell is not the self-comparison value", 0.0, got)
                    break
                if got is None or not _close(got, expd[i][j]):
                    prop(f"{sl}[{names[i]!r}][{names[j]!r}] is not the {mt['metric']} distance of columns {names[i]!r} and "
                         f"{names[j]!r} of to_dataframe(untied={u}) (rankings aligned by alternative name)", expd[i][j], got)
                    break
        # correspondence: the Lean frame
        if "err" in reply or "driver_error" in reply:
            corr(f"{label}: model refuses", reply, "accepted")
        elif [reply["rows"], reply["cols"], reply["cells"]] != [fr["rows"], fr["cols"], fr["cells"]]:
            corr(f"{label}: model vs implementation (rows, columns, cells)",
                 [reply["rows"], reply["cols"], reply["cells"]], [fr["rows"], fr["cols"], fr["cells"]])
    return out


def _different_orders(case):
    rs = case["ranks"]
    return any(r["alts"] != rs[0]["alts"] for r in rs)


def nontrivial(case, obs):
    if case["kind"] == "rank":
        return len(case["values"]) >= 2
    if "err" in obs:
        return True
    return "buffer" in case or "history" in case or _different_orders(case) or any(len(set(r["values"])) != len(r["values"]) for r in case["ranks"])


def tags(case, obs):
    if case["kind"] == "rank":
        n = len(case["values"])
        t = ["rank", "rank:" + ("ties" if len(set(case["values"])) != n else "no-ties"),
             "rank:n=%s" % (n if n <= 7 else "8-12" if n <= 12 else "13-100" if n <= 100 else "101+")]
        if n > 100 and any(case["values"][i] > case["values"][j] for i in range(n - 100) for j in (i + 100, n - 1)):
            t.append("rank:better-listed-100+-later")
        if "buffer" in case:
            t.append("rank:built-from-buffer-modified-afterwards")
        if "storage" in case:
            t.append("rank:stored-as=%s:n=%s" % (case["storage"], "2-127" if n <= 127 else "128-255" if n <= 255 else "256+"))
        return t
    t = ["cmp", "cmp:via=" + case["via"]]
    if "err" in obs:
        return t + ["cmp:refused" + (":" + case["bad"] if "bad" in case else "")]
    if not cmp_wellformed(case):
        return t + ["cmp:malformed-accepted"]
    t.append("cmp:rankings=%d" % len(case["ranks"]))
    if len(case["ranks"][0]["alts"]) > 100:
        t.append("cmp:alternatives=101+")
    t.append("cmp:different-orders" if _different_orders(case) else "cmp:same-order")
    if any(a["alts"] != b["alts"] and dict(zip(a["alts"], a["values"])) == dict(zip(b["alts"], b["values"]))
           for a, b in itertools.combinations(case["ranks"], 2)):
        t.append("cmp:relisted-copy")
    if any(len(set(r["values"])) != len(r["values"]) for r in case["ranks"]):
        t.append("cmp:has-ties")
    alltied = any(len(r["values"]) > 1 and len(set(r["values"])) == 1 for r in case["ranks"])
    if alltied:
        t.append("cmp:all-tied-ranking")
    if case.get("narrow"):
        n = len(case["ranks"][0]["alts"])
        t.append("cmp:stored-as=%s:n=%s" % ("+".join(r["storage"] for r in case["ranks"]),
                                            "2-127" if n <= 127 else "128-255" if n <= 255 else "256+"))
    for step, rec in zip(case.get("history", []), obs.get("history", [])):
        t.append(f"cmp:caller-edits-returned-table:{step['call']}(untied={step['untied']})")
        t.append(f"cmp:caller-edit:{step['edit']}" + ("" if rec.get("edited", True) else ":refused-by-pandas"))
    if "later_err" in obs:
        return t
    if "buffer" in case:
        t.append("cmp:one-buffer-history:" + case["buffer"]["dtype"] + ("+labels" if case["buffer"]["alts_buffer"] else ""))
    for mt in case.get("metrics", []):
        t.append("cmp:distance-metric=" + mt["metric"] + ("+all-tied" if alltied else ""))
        for key, u in (("plain", False), ("untied", True)):
            if "err" not in obs and recompute_distance(obs[key]["frame"], mt["metric"], mt["kwargs"]) is None:
                t.append("skipped-undefined-metric:" + mt["metric"])
    for u in (False, True):
        d = diag_expectations(case, u)
        for stat in ("corr", "cov"):
            k = sum(1 for x in d[stat] if x is None)
            if k:
                t.extend([f"skipped-nan-diagonal:{stat}"] * k)
    return t
