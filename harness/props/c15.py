"""C15 — imputation fills the gaps and touches nothing else."""
from __future__ import annotations

import itertools
import math
import struct
from collections import Counter
from fractions import Fraction

import numpy as np

import common as C
import gen as G

PID = "C15"
RULE = (
    "cases: (decision matrix 3-12 alternatives x 1-6 criteria, dyadic values k/8 with ties inside columns and duplicated "
    "rows so that modes and medians are non-trivial, a share of arbitrary doubles; a missing pattern that leaves >= 1 "
    "observed value per criterion: random density 0.1-0.6, whole missing alternatives, all-observed, heavily missing = "
    "exactly one observed value per criterion; missing cells written as NaN or as a sentinel `missing_values`; alternative "
    "and/or criterion labels that are whole numbers >= 1000 (years, ids - never a position) instead of strings on about a "
    "third of the matrices plus a forced stream alternatives / criteria / both x every imputer, labels compared with their "
    "types: 2019 is not '2019') x "
    "(SimpleImputer: strategy mean/median/most_frequent/constant, fill_value None/int/float, keep_empty_criteria; "
    "KNNImputer: n_neighbors 1-5, weights uniform/distance/callable, metric nan_euclidean/callable, keep_empty_criteria; "
    "IterativeImputer: estimator None/BayesianRidge/LinearRegression/KNeighborsRegressor/DecisionTreeRegressor, "
    "sample_posterior, max_iter 0-10, tol, n_nearest_criteria, initial_strategy, imputation_order, skip_complete, "
    "min_value/max_value scalar or per criterion, verbose, random_state, keep_empty_criteria, fill_value). "
    "Behavioural forwarding cases: a crafted 2-criteria matrix whose k nearest donors are unambiguous, KNNImputer with "
    "n_neighbors 1-5 and weights uniform/distance against the documented rule (mean / inverse-distance mean of the k nearest); "
    "IterativeImputer(max_iter=0) against the initial strategy's statistic; sample_posterior runs repeated with the same "
    "random_state. Re-used instances: about 40% of the imputer cases (and of the crafted k-nearest cases) are two-step: the SAME "
    "imputer object is first applied to a warm-up matrix (same number of criteria and fresh values / a twin with the same "
    "shape, labels, objectives and weights but re-drawn values and gaps / a different number of criteria and alternatives), "
    "then to the case's matrix; every clause is evaluated on both outputs, each against the matrix transformed at that step. "
    "Very long matrices, a fixed share of every run (3 per imputer in the quick tier): 2049-5000 alternatives (2049 itself on a "
    "quarter) x 2-4 criteria, each criterion one of: ordinary reals, amounts with cents, odd whole numbers between 2**24 and "
    "2**52, doubles over 60 binades - values that single precision cannot hold - with ties, gaps at density 0.01-0.3 / whole "
    "missing alternatives / none, string or whole-number labels, through SimpleImputer, KNNImputer (no callable metric) and "
    "IterativeImputer(max_iter 0-2), a third on a re-used object (warm-up short or very long); every clause as for the short "
    "matrices, observed cells compared bit for bit. "
    "Out-of-domain stream (SimpleImputer only, model correspondence only): a wholly missing criterion. "
    "Thorough tier adds the exhaustive enumeration for SimpleImputer: every 4x1 matrix over {missing,0,1,2} and every 3x2 "
    "matrix over {missing,1,2} with an observed value per criterion x 4 strategies; and every ordered pair (warm-up, matrix) "
    "of 3x1 matrices over {missing,1,2} x 4 strategies on one re-used SimpleImputer. "
    "Non-trivial: at least one missing cell; distinct by case hash."
)
ASSUMPTIONS = [
    "observed values are finite doubles; no -0.0 (scipy's mode and np.unique identify -0.0 and 0.0)",
    "the sentinel `missing_values`, when used, is far outside the data range, so no statistic equals it",
    "KNNImputer / IterativeImputer fill values are scikit-learn's: only the contract Keeps is demanded of them "
    "(plus the documented k-nearest rule on the crafted matrices and the initial imputation for max_iter=0)",
    "mean: |implementation - exact rational mean| <= 1e-9 * max(1, max|observed|) (summation order not modelled)",
]
PARTIAL = ("KNN / iterative fill values are not modelled (external estimator with contract Keeps); the tie to Python is "
           "differential; `dtypes` recomputation and scikit-learn's column dropping are modelled only as the refusal they cause")
EXHAUSTIVE = True

SENTINEL = -999.5
STRATEGIES = ["mean", "median", "most_frequent", "constant"]
TOL = 1e-9


# --------------------------------------------------------------------------- generators


def _pattern(rng, m, n, style):
    """mask[i][j] = True when the cell is missing; every column keeps >= 1 observed cell"""
    if style == "none":
        return [[False] * n for _ in range(m)]
    if style == "heavy":
        mask = [[True] * n for _ in range(m)]
        for j in range(n):
            for i in rng.sample(range(m), rng.choice([1, 1, 2])):
                mask[i][j] = False
        return mask
    p = rng.choice([0.1, 0.2, 0.35, 0.5, 0.6])
    mask = [[rng.random() < p for _ in range(n)] for _ in range(m)]
    if style == "rows":
        for i in rng.sample(range(m), rng.randint(1, max(1, m // 3))):
            mask[i] = [True] * n
    for j in range(n):
        if all(mask[i][j] for i in range(m)):
            mask[rng.randrange(m)][j] = False
    return mask


INT_LABEL_RATE = 0.2  # per axis: about a third of the matrices carry whole-number labels on some axis


def _dm(rng, style=None, family=None, m=None, n=None, int_labels=None):
    """`int_labels`: None = each axis labelled with whole numbers (years / ids, never a position) at INT_LABEL_RATE;
    "alts" / "crits" / "both" = forced on that axis"""
    m, n = m or rng.randint(3, 12), n or rng.randint(1, 6)
    family = family or rng.choice(["dyadic", "dyadic", "dyadic", "float"])
    dm = G.dm_case(rng, m=m, n=n, family=family, positive=rng.random() < 0.6, ties=rng.choice([0.3, 0.6, 0.8]), dups=0.15,
                   int_label_rate=INT_LABEL_RATE if int_labels is None else 0.0)
    if int_labels in ("alts", "both"):
        dm["alternatives"] = G.int_labels(rng, m)
    if int_labels in ("crits", "both"):
        dm["criteria"] = G.int_labels(rng, n)
    style = style or rng.choice(["random", "random", "random", "rows", "heavy", "none"])
    mask = _pattern(rng, m, n, style)
    dm["matrix"] = [[None if mask[i][j] else dm["matrix"][i][j] for j in range(n)] for i in range(m)]
    dm["style"] = style
    return dm


def _fill_value(rng):
    return rng.choice([None, None, 0, 3, -2, 2.5, 0.125, -7.75, 40.0])


def _common_kw(rng):
    kw = {}
    if rng.random() < 0.25:
        kw["keep_empty_criteria"] = True
    elif rng.random() < 0.2:
        kw["keep_empty_criteria"] = False
    return kw


def _simple_kw(rng):
    kw = _common_kw(rng)
    kw["strategy"] = rng.choice(STRATEGIES)
    if kw["strategy"] == "constant" or rng.random() < 0.3:
        kw["fill_value"] = _fill_value(rng)
    if kw["strategy"] == "mean" and rng.random() < 0.3:
        del kw["strategy"]  # the default
    return kw


def _knn_kw(rng):
    kw = _common_kw(rng)
    if rng.random() < 0.85:
        kw["n_neighbors"] = rng.randint(1, 5)
    if rng.random() < 0.7:
        kw["weights"] = rng.choice(["uniform", "distance", "distance", "callable:inv1p"])
    if rng.random() < 0.3:
        kw["metric"] = rng.choice(["nan_euclidean", "callable:nan_cityblock"])
    return kw


def _iter_kw(rng, n):
    kw = _common_kw(rng)
    est = rng.choice([None, None, None, "BayesianRidge", "LinearRegression", "KNeighborsRegressor", "DecisionTreeRegressor"])
    if est is not None:
        kw["estimator"] = est
    if est in (None, "BayesianRidge") and rng.random() < 0.3:
        kw["sample_posterior"] = True
    if rng.random() < 0.8:
        kw["max_iter"] = rng.choice([0, 0, 1, 1, 2, 3, 5, 10])
    if rng.random() < 0.4:
        kw["tol"] = rng.choice([1e-3, 1e-1, 1e-6, 0.5])
    if rng.random() < 0.3:
        kw["n_nearest_criteria"] = rng.choice([None] + list(range(1, n + 1)))
    if rng.random() < 0.7:
        kw["initial_strategy"] = rng.choice(STRATEGIES)
    if kw.get("initial_strategy") == "constant" or rng.random() < 0.2:
        kw["fill_value"] = _fill_value(rng)
    if rng.random() < 0.5:
        kw["imputation_order"] = rng.choice(["ascending", "descending", "roman", "arabic", "random"])
    if rng.random() < 0.2:
        kw["skip_complete"] = rng.random() < 0.5
    if rng.random() < 0.3:
        lo = rng.choice([-3.0, 0.5, -100.0])
        kw["min_value"] = lo if rng.random() < 0.6 else [lo - j / 4 for j in range(n)]
    if rng.random() < 0.3:
        hi = rng.choice([4.0, 50.0, 1000.0])
        kw["max_value"] = hi if rng.random() < 0.6 else [hi + j / 2 for j in range(n)]
    if rng.random() < 0.08:
        kw["verbose"] = rng.choice([0, 1])
    if rng.random() < 0.7 or kw.get("sample_posterior") or kw.get("imputation_order") == "random":
        kw["random_state"] = rng.randint(0, 10 ** 6)
    return kw


WARM_MODES = ["same-n", "same-n", "twin", "twin", "other-shape"]


def _warm(rng, dm, kw, mode=None):
    """the matrix the same imputer object sees BEFORE the case's matrix (in the property's domain: >= 1 observed value per
    criterion); `same-n`: same number of criteria, everything else fresh; `twin`: same shape, labels, objectives, weights,
    values and gaps re-drawn; `other-shape`: another number of criteria (and of alternatives)"""
    m, n = len(dm["matrix"]), len(dm["criteria"])
    mode = mode or rng.choice(WARM_MODES)
    if mode == "other-shape" and any(isinstance(kw.get(k), list) for k in ("min_value", "max_value")):
        mode = "same-n"  # per-criterion bounds fix the number of criteria
    style = rng.choice(["random", "random", "random", "rows", "heavy", "none"])
    if mode == "other-shape":
        n2 = rng.choice([k for k in range(1, 7) if k != n])
        m2 = rng.choice([k for k in range(3, 13) if k != m])
        w = _dm(rng, style, m=m2, n=n2)
    elif mode == "twin":
        w = _dm(rng, style, family=dm["family"], m=m, n=n)
        for key in ("alternatives", "criteria", "objectives", "weights"):
            w[key] = list(dm[key])
    else:
        w = _dm(rng, style, m=rng.choice([m, rng.randint(3, 12)]), n=n)
    return {"mode": mode, "dm": w}


def _impute_case(rng, cls=None, style=None, warm=None, int_labels=None):
    cls = cls or rng.choice(["Simple", "Simple", "Simple", "KNN", "KNN", "Iterative", "Iterative"])
    dm = _dm(rng, style, int_labels=int_labels)
    n = len(dm["criteria"])
    kw = {"Simple": _simple_kw, "KNN": _knn_kw}[cls](rng) if cls != "Iterative" else _iter_kw(rng, n)
    case = {"kind": "impute", "cls": cls, "kw": kw, "dm": dm, "sentinel": None}
    if rng.random() < 0.2:
        case["sentinel"] = SENTINEL
    if warm or (warm is None and rng.random() < 0.4):
        case["warm"] = _warm(rng, dm, kw, warm if isinstance(warm, str) else None)
    return case


LONG_M = (2049, 5000)  # "very long": more alternatives than any block / chunk size a numeric back end is likely to use


def _long_column(rng, m):
    """one criterion of a very long matrix; the values are NOT representable in single precision (nor as small dyadics):
    ordinary reals, amounts with cents, whole numbers above 2**24 (odd ones), a wide dynamic range; some ties"""
    kind = rng.choice(["real", "real", "cents", "bigint", "bigint", "wide"])
    if kind == "real":
        lo, hi = rng.choice([(0.5, 250.0), (-40.0, 40.0), (1e3, 1e4), (1e-3, 1.0)])
        col = [rng.uniform(lo, hi) for _ in range(m)]
    elif kind == "cents":
        col = [rng.randint(1, 10 ** 9) / 100 for _ in range(m)]
    elif kind == "bigint":
        top = rng.choice([2 ** 26, 2 ** 33, 2 ** 45, 2 ** 52])
        col = [float(rng.randint(2 ** 24, top) | 1) for _ in range(m)]
    else:
        col = [math.ldexp(rng.uniform(0.5, 1.0), rng.randint(-20, 40)) for _ in range(m)]
    p = rng.choice([0.0, 0.05, 0.3])
    for i in range(1, m):
        if rng.random() < p:
            col[i] = col[rng.randrange(i)]
    return kind, [x if x != 0 else 1.0 for x in col]


def _long_dm(rng, m=None, n=None):
    m = m or rng.choice([LONG_M[0], rng.randint(*LONG_M), rng.randint(*LONG_M), rng.randint(*LONG_M)])
    n = n or rng.randint(2, 4)
    kinds, cols = zip(*[_long_column(rng, m) for _ in range(n)])
    style = rng.choice(["random", "random", "random", "rows", "none"])
    if style == "none":
        mask = [[False] * n for _ in range(m)]
    else:
        p = rng.choice([0.01, 0.04, 0.1, 0.3])
        mask = [[rng.random() < p for _ in range(n)] for _ in range(m)]
        if style == "rows":
            for i in rng.sample(range(m), rng.randint(1, 20)):
                mask[i] = [True] * n
        for j in range(n):
            if all(mask[i][j] for i in range(m)):
                mask[rng.randrange(m)][j] = False
    lab_kind = rng.choice(["str", "str", "int"])
    # (whole-number labels start above the number of alternatives: a label that is also a position is ambiguous by design)
    alts = G.int_labels(rng, m, base=rng.choice([10 ** 4, 10 ** 6, 2 * 10 ** 9])) if lab_kind == "int" else [f"A{i:05d}" for i in rng.sample(range(3 * m), m)]
    crits = G.int_labels(rng, n) if rng.random() < INT_LABEL_RATE else G.labels(rng, G.LABEL_POOL_CRIT, n)
    return {"matrix": [[None if mask[i][j] else cols[j][i] for j in range(n)] for i in range(m)], "int_matrix": False,
            "objectives": G.objectives(rng, n), "weights": G.weights(rng, n, "float"), "alternatives": alts, "criteria": crits,
            "family": "float", "style": "long-" + style, "long": list(kinds)}


def _long_case(rng, cls):
    """a VERY LONG matrix (2049..5000 alternatives x 2-4 criteria) of values that single precision cannot hold, through one
    imputer; a third of them on a re-used object (warm-up: a short matrix or another very long one, same number of criteria)"""
    dm = _long_dm(rng)
    n = len(dm["criteria"])
    if cls == "Simple":
        kw = _simple_kw(rng)
    elif cls == "KNN":
        kw = _knn_kw(rng)
        kw.pop("metric", None)  # (a python callable metric is called once per pair of alternatives: minutes on this size)
    else:
        kw = _iter_kw(rng, n)
        kw["max_iter"] = rng.choice([0, 1, 1, 2])
        if kw.get("estimator") == "KNeighborsRegressor" and kw["max_iter"] > 1:
            kw["max_iter"] = 1
    case = {"kind": "impute", "cls": cls, "kw": kw, "dm": dm, "sentinel": SENTINEL if rng.random() < 0.2 else None}
    if rng.random() < 0.34:
        if rng.random() < 0.5:
            case["warm"] = {"mode": "same-n", "dm": _dm(rng, m=rng.randint(3, 12), n=n)}
        else:
            case["warm"] = {"mode": "same-n", "dm": _long_dm(rng, n=n)}
    return case


def _empty_column_case(rng):
    """out of the property's domain: a criterion without any observed value (SimpleImputer, model correspondence)"""
    case = _impute_case(rng, cls="Simple", style=rng.choice(["random", "heavy", "none"]), warm=False)
    m = len(case["dm"]["matrix"])
    for j in rng.sample(range(len(case["dm"]["criteria"])), rng.choice([1, 1, 2]) if len(case["dm"]["criteria"]) > 1 else 1):
        for i in range(m):
            case["dm"]["matrix"][i][j] = None
    case["dm"]["style"] = "empty-column"
    return case


def _knn_rows(rng):
    """2 criteria: x fully observed, y missing for the receivers; distances |dx| from every receiver to the donors all distinct"""
    while True:
        nd, nr = rng.randint(2, 8), rng.randint(1, 3)
        xs = rng.sample(range(-40, 81), nd + nr)
        donors, recv = xs[:nd], xs[nd:]
        if all(len({abs(r - d) for d in donors}) == nd for r in recv):
            break
    ys = [rng.randint(-16, 40) / 8 for _ in range(nd)]
    for i in range(1, nd):
        if rng.random() < 0.3:
            ys[i] = ys[rng.randrange(i)]
    rows = [[d / 8, y] for d, y in zip(donors, ys)] + [[r / 8, None] for r in recv]
    order = list(range(len(rows)))
    rng.shuffle(order)
    return [rows[i] for i in order]


def _knn_k_case(rng, warm=None):
    case = {"kind": "knn_k", "rows": _knn_rows(rng), "k": rng.randint(1, 5),
            "weights": rng.choice(["uniform", "distance"]), "swap": rng.random() < 0.5}
    if warm or (warm is None and rng.random() < 0.4):
        case["warm_rows"] = _knn_rows(rng)  # the same KNNImputer object sees these donors first
    return case


def _exhaustive():
    cases = []

    def mk(rows):
        m, n = len(rows), len(rows[0])
        return {"matrix": [[None if x is None else float(x) for x in r] for r in rows], "objectives": [1, -1][:n],
                "weights": [0.25, 0.75][:n], "alternatives": ["a", "b", "c", "d"][:m], "criteria": ["C0", "C1"][:n],
                "family": "dyadic", "style": "exhaustive"}

    def add(rows, strategy, warm_rows=None):
        kw = {"strategy": strategy}
        if strategy == "constant":
            kw["fill_value"] = 5
        case = {"kind": "impute", "cls": "Simple", "kw": kw, "dm": mk(rows), "sentinel": None}
        if warm_rows is not None:
            case["warm"] = {"mode": "twin", "dm": mk(warm_rows)}
        cases.append(case)

    for flat in itertools.product((None, 0, 1, 2), repeat=4):
        if all(x is None for x in flat):
            continue
        for s in STRATEGIES:
            add([[x] for x in flat], s)
    for flat in itertools.product((None, 1, 2), repeat=6):
        rows = [list(flat[i * 2:(i + 1) * 2]) for i in range(3)]
        if any(all(r[j] is None for r in rows) for j in range(2)):
            continue
        for s in STRATEGIES:
            add(rows, s)
    cols = [c for c in itertools.product((None, 1, 2), repeat=3) if any(x is not None for x in c)]
    for warm in cols:
        for main in cols:
            for s in STRATEGIES:
                add([[x] for x in main], s, [[x] for x in warm])
    return cases


def gen(ctx):
    rng = ctx.rng
    cases = []
    for _ in range(ctx.n(700, 30000)):
        cases.append(_impute_case(rng))
    for style in ("none", "heavy"):
        for cls in ("Simple", "KNN", "Iterative"):
            for _ in range(ctx.n(6, 200)):
                cases.append(_impute_case(rng, cls=cls, style=style))
    for mode in ("same-n", "twin", "other-shape"):
        for cls in ("Simple", "Simple", "KNN", "Iterative"):
            for _ in range(ctx.n(8, 250)):
                cases.append(_impute_case(rng, cls=cls, warm=mode))
    for which in ("alts", "crits", "both"):  # whole-number labels through every imputer, one-step and on a re-used object
        for cls in ("Simple", "KNN", "Iterative"):
            for _ in range(ctx.n(6, 200)):
                cases.append(_impute_case(rng, cls=cls, int_labels=which))
    for cls in ("KNN", "Simple", "Iterative"):  # a fixed share: very long matrices, values single precision cannot hold
        for _ in range(ctx.n(3, 8)):
            cases.append(_long_case(rng, cls))
    for _ in range(ctx.n(80, 2500)):
        cases.append(_knn_k_case(rng))
    for _ in range(ctx.n(30, 800)):
        cases.append(_empty_column_case(rng))
    if ctx.thorough:
        cases.extend(_exhaustive())
    return cases


def search_gen(ctx):
    rng = ctx.rng
    return ([_impute_case(rng) for _ in range(2500)] + [_knn_k_case(rng) for _ in range(300)]
            + [_long_case(rng, cls) for cls in ("KNN", "Simple", "Iterative") for _ in range(4)])


# --------------------------------------------------------------------------- implementation side


def _nan_cityblock(x, y, missing_values=np.nan, **kw):
    mx = np.isnan(x) if (isinstance(missing_values, float) and math.isnan(missing_values)) else (x == missing_values)
    my = np.isnan(y) if (isinstance(missing_values, float) and math.isnan(missing_values)) else (y == missing_values)
    ok = ~(mx | my)
    if not ok.any():
        return np.nan
    return len(x) / ok.sum() * float(np.abs(x[ok] - y[ok]).sum())


def _inv1p(d):
    return 1.0 / (1.0 + d)


def _estimator(name):
    if name is None:
        return None
    if name == "BayesianRidge":
        from sklearn.linear_model import BayesianRidge

        return BayesianRidge()
    if name == "LinearRegression":
        from sklearn.linear_model import LinearRegression

        return LinearRegression()
    if name == "KNeighborsRegressor":
        from sklearn.neighbors import KNeighborsRegressor

        return KNeighborsRegressor(n_neighbors=1)
    if name == "DecisionTreeRegressor":
        from sklearn.tree import DecisionTreeRegressor

        return DecisionTreeRegressor(random_state=0, max_depth=3)
    raise KeyError(name)


def _build(cls, kw, sentinel):
    from sklearn.experimental import enable_iterative_imputer  # noqa: F401

    from skcriteria.preprocessing import impute as I

    k = dict(kw)
    if sentinel is not None:
        k["missing_values"] = sentinel
    if k.get("weights") == "callable:inv1p":
        k["weights"] = _inv1p
    if k.get("metric") == "callable:nan_cityblock":
        k["metric"] = _nan_cityblock
    if "estimator" in k:
        k["estimator"] = _estimator(k["estimator"])
    klass = {"Simple": I.SimpleImputer, "KNN": I.KNNImputer, "Iterative": I.IterativeImputer}[cls]
    return klass(**k)


def _np_matrix(cells, sentinel):
    hole = np.nan if sentinel is None else sentinel
    return np.array([[hole if x is None else x for x in row] for row in cells], dtype=float)


def _mkdm(dm, sentinel):
    d = dict(dm)
    d["matrix"] = _np_matrix(dm["matrix"], sentinel).tolist()
    return G.mkdm(d)


def _dm_obs(res, inp, mask):
    out = np.asarray(res.matrix.to_numpy(), dtype=float)
    o = {
        "shape": list(out.shape),
        "matrix": [[None if math.isnan(x) else float(x) for x in row] for row in out.tolist()],
        "alts": [G.lab(a) for a in res.alternatives],  # labels keep their type: 2019 is not "2019"
        "criteria": [G.lab(c) for c in res.criteria],
        "objectives": [int(x) for x in res.iobjectives],
        "weights": [float(w) for w in res.weights],
    }
    o["observed_bits_equal"] = bool(out.shape == inp.shape and inp[mask].tobytes() == out[mask].tobytes())
    o["nan_left"] = int(np.isnan(out).sum())
    return o


def observe(case):
    import warnings

    with warnings.catch_warnings():
        warnings.simplefilter("ignore")
        if case["kind"] == "knn_k":
            from skcriteria.preprocessing import impute as I

            imp = I.KNNImputer(n_neighbors=case["k"], weights=case["weights"])

            def run(rows):
                rows = [list(r) for r in rows]
                if case["swap"]:
                    rows = [[r[1], r[0]] for r in rows]
                dm = G.mkdm({"matrix": _np_matrix(rows, None).tolist(), "objectives": [1, -1], "weights": [0.5, 0.5],
                             "alternatives": [f"A{i}" for i in range(len(rows))], "criteria": ["x", "y"]})
                try:
                    res = imp.transform(dm)
                except Exception as e:
                    return {"err": G.err_name(e), "msg": str(e)[:200]}
                out = np.asarray(res.matrix.to_numpy(), dtype=float)
                if case["swap"]:
                    out = out[:, ::-1]
                return {"matrix": [[None if math.isnan(x) else float(x) for x in r] for r in out.tolist()]}

            first = run(case["warm_rows"]) if case.get("warm_rows") else None  # the same object, applied before
            o = run(case["rows"])
            if first is not None:
                o["warm"] = first
            return o
        sentinel = case.get("sentinel")
        try:
            imp = _build(case["cls"], case["kw"], sentinel)
        except Exception as e:
            o = {"err": G.err_name(e), "msg": f"{type(e).__name__}: {e}"[:200]}
            return dict(o, warm=dict(o)) if case.get("warm") else o

        def run(d):
            cells = d["matrix"]
            inp = _np_matrix(cells, sentinel)
            mask = np.array([[x is not None for x in row] for row in cells], dtype=bool)
            try:
                r = imp.transform(_mkdm(d, sentinel))
            except Exception as e:
                return None, {"err": G.err_name(e), "msg": f"{type(e).__name__}: {e}"[:200]}
            return r, _dm_obs(r, inp, mask)

        first = run(case["warm"]["dm"])[1] if case.get("warm") else None  # the same object, applied to the warm-up matrix
        res, o = run(case["dm"])
        if first is not None:
            o["warm"] = first
        if res is None:
            return o
        kw = case["kw"]
        if case["cls"] == "Iterative" and kw.get("sample_posterior") and isinstance(kw.get("random_state"), int):
            again = _build(case["cls"], kw, sentinel).transform(_mkdm(case["dm"], sentinel))
            a = np.asarray(again.matrix.to_numpy(), dtype=float)
            o["repeat_equal"] = bool(a.tobytes() == np.asarray(res.matrix.to_numpy(), dtype=float).tobytes())
        return o


# --------------------------------------------------------------------------- model side


def _cells_rat(cells):
    return [[None if x is None else C.rat(x) for x in row] for row in cells]


def _finite(mat):
    return all(x is None or math.isfinite(x) for row in mat for x in row)


def requests(case, obs):
    if case["kind"] != "impute":
        return []
    reqs = _requests_one(case, case["dm"]["matrix"], obs)
    if case.get("warm"):  # after the main matrix's own requests
        reqs = reqs + _requests_one(case, case["warm"]["dm"]["matrix"], obs["warm"])
    return reqs


def _requests_one(case, cells, obs):
    if case["cls"] == "Simple":
        kw = case["kw"]
        fv = kw.get("fill_value")
        return [{"op": "impute", "strategy": kw.get("strategy", "mean"), "fill_value": None if fv is None else C.rat(fv),
                 "keep_empty": bool(kw.get("keep_empty_criteria", False)), "cells": _cells_rat(cells)}]
    if "err" in obs or not _finite(obs["matrix"]):
        return []
    out = [[None if (x is None or (case.get("sentinel") is not None and x == case["sentinel"])) else x for x in row]
           for row in obs["matrix"]]
    return [{"op": "impute_keeps", "cells": _cells_rat(cells), "out": _cells_rat(out)}]


# --------------------------------------------------------------------------- the property, from its text


def _bits(x):
    return struct.pack("<d", float(x))


def _column(cells, j):
    return [row[j] for row in cells if row[j] is not None]


def _statistic(strategy, fill_value, obs_vals):
    """the configured statistic of the observed values of one criterion, exactly (Fractions)"""
    xs = [C.F(x) for x in obs_vals]
    if strategy == "constant":
        return C.F(0 if fill_value is None else fill_value)
    if strategy == "mean":
        return sum(xs, Fraction(0)) / len(xs)
    if strategy == "median":
        s = sorted(xs)
        k = len(s)
        return s[k // 2] if k % 2 == 1 else (s[k // 2 - 1] + s[k // 2]) / 2
    if strategy == "most_frequent":
        cnt = Counter(xs)
        top = max(cnt.values())
        return min(v for v, c in cnt.items() if c == top)
    raise KeyError(strategy)


def _scale(obs_vals):
    return max([1.0] + [abs(float(x)) for x in obs_vals])


def _in_domain(cells):
    return all(any(row[j] is not None for row in cells) for j in range(len(cells[0])))


def _label(case):
    kw = ", ".join(f"{k}={v!r}" for k, v in case["kw"].items())
    if case.get("sentinel") is not None:
        kw = (kw + ", " if kw else "") + f"missing_values={case['sentinel']!r}"
    return {"Simple": "SimpleImputer", "KNN": "KNNImputer", "Iterative": "IterativeImputer"}[case["cls"]] + f"({kw})"


def _knn_expected(rows, k, weights):
    donors = [(C.F(r[0]), C.F(r[1])) for r in rows if r[1] is not None]
    exp = {}
    for i, r in enumerate(rows):
        if r[1] is not None:
            continue
        near = sorted(donors, key=lambda d: abs(d[0] - C.F(r[0])))[: min(k, len(donors))]
        if weights == "uniform":
            exp[i] = sum((y for _, y in near), Fraction(0)) / len(near)
        else:
            w = [1 / abs(x - C.F(r[0])) for x, _ in near]  # 1/dist; the factor sqrt(2) of nan_euclidean cancels
            exp[i] = sum((wi * y for wi, (_, y) in zip(w, near)), Fraction(0)) / sum(w, Fraction(0))
    return exp


def judge(case, obs, replies):
    out = []

    def prop(what, expected=None, observed=None):
        out.append({"kind": "property", "what": what, "expected": expected, "observed": observed})

    def corr(what, expected=None, observed=None):
        out.append({"kind": "correspondence", "what": what, "expected": expected, "observed": observed})

    if case["kind"] == "knn_k":
        lab = f"KNNImputer(n_neighbors={case['k']}, weights={case['weights']!r})"
        if case.get("warm_rows"):
            _judge_knn(case, case["warm_rows"], obs["warm"], lab + " [first application of the object]", prop)
            lab += f" [same object, already applied to another {len(case['warm_rows'])}x2 matrix]"
        _judge_knn(case, case["rows"], obs, lab, prop)
        return out

    n_main = len(_requests_one(case, case["dm"]["matrix"], obs))
    lab = _label(case)
    if case.get("warm"):
        w = case["warm"]["dm"]
        _judge_one(case, w, obs["warm"], replies[n_main:], lab + " [first application of the object, warm-up matrix]", prop, corr)
        lab += f" [same object, already applied to a {len(w['matrix'])}x{len(w['criteria'])} {case['warm']['mode']} matrix]"
    _judge_one(case, case["dm"], obs, replies[:n_main], lab, prop, corr)
    return out


def _judge_knn(case, rows, obs, lab, prop):
    if "err" in obs:
        prop(f"{lab} refused a matrix with an observed value per criterion: {obs['err']} {obs.get('msg')}")
        return
    for i, v in _knn_expected(rows, case["k"], case["weights"]).items():
        got = obs["matrix"][i][1]
        sc = _scale([r[1] for r in rows if r[1] is not None])
        if got is None or abs(got - float(v)) > TOL * sc:
            prop(f"{lab}: the gap of alternative {i} is not the {'mean' if case['weights'] == 'uniform' else 'inverse-distance weighted mean'} "
                 f"of its {case['k']} nearest donors — constructor parameter not honoured", float(v), got)
            break
    for i, r in enumerate(rows):
        for j in (0, 1):
            if r[j] is not None and (obs["matrix"][i][j] is None or _bits(obs["matrix"][i][j]) != _bits(r[j])):
                prop(f"{lab}: observed cell ({i},{j}) changed", r[j], obs["matrix"][i][j])
                return


def _judge_one(case, dm, obs, replies, lab, prop, corr):
    """every clause of the property for ONE application of the imputer: `dm` is the matrix transformed at that step"""
    cells = dm["matrix"]
    m, n = len(cells), len(cells[0])
    kw = case["kw"]
    sentinel = case.get("sentinel")
    rep = replies[0] if replies else None

    # ---- correspondence (SimpleImputer): Lean `simpleImpute` vs implementation
    if case["cls"] == "Simple":
        if "err" in obs:
            if rep.get("err") != obs["err"]:
                corr(f"{lab}: implementation raised {obs['err']} ({obs.get('msg')}), model answers", rep, obs["err"])
        elif "err" in rep:
            corr(f"{lab}: model refuses ({rep['err']}), implementation answers", rep, obs["matrix"])
        elif obs["shape"] != [m, n] or [len(r) for r in rep["cells"]] != [n] * m:
            corr(f"{lab}: shape, model vs implementation", [len(rep["cells"]), n], obs["shape"])
        else:
            for i in range(m):
                for j in range(n):
                    mv, iv = C.frac(rep["cells"][i][j]), obs["matrix"][i][j]
                    if mv is None or iv is None:
                        if (mv is None) != (iv is None):
                            corr(f"{lab}: cell ({i},{j}) missing on one side only", rep["cells"][i][j], iv)
                        continue
                    if cells[i][j] is not None or kw.get("strategy", "mean") in ("most_frequent", "constant"):
                        ok = mv == C.F(iv)
                    else:
                        ok = abs(float(mv) - iv) <= TOL * _scale(_column(cells, j))
                    if not ok:
                        corr(f"{lab}: cell ({i},{j}), model vs implementation", float(mv), iv)
                        break
                else:
                    continue
                break

    if not _in_domain(cells):
        return  # "a wholly missing criterion aside": model correspondence only

    # ---- the property
    if "err" in obs:
        prop(f"{lab} refused a matrix with an observed value per criterion: {obs['err']} ({obs.get('msg')})", "an imputed matrix", obs["err"])
        return
    if obs["shape"] != [m, n]:
        prop(f"{lab}: the shape changed", [m, n], obs["shape"])
        return
    res = obs["matrix"]
    for i in range(m):
        for j in range(n):
            if cells[i][j] is not None and (res[i][j] is None or _bits(res[i][j]) != _bits(cells[i][j])):
                prop(f"{lab}: the observed cell ({dm['alternatives'][i]}, {dm['criteria'][j]}) does not hold its original value",
                     cells[i][j], res[i][j])
                return
    if not obs["observed_bits_equal"]:
        prop(f"{lab}: observed cells are not bit-identical (tobytes on the observed mask)")
        return
    for i in range(m):
        for j in range(n):
            if cells[i][j] is None and (res[i][j] is None or (sentinel is not None and res[i][j] == sentinel)):
                prop(f"{lab}: the cell ({dm['alternatives'][i]}, {dm['criteria'][j]}) is still missing", "a value", res[i][j])
                return
    if obs["nan_left"]:
        prop(f"{lab}: {obs['nan_left']} NaN left in the matrix")
        return
    want_labels = [[G.lab(a) for a in dm["alternatives"]], [G.lab(c) for c in dm["criteria"]]]
    if [obs["alts"], obs["criteria"]] != want_labels:
        prop(f"{lab}: labels changed (values and types compared: a whole-number label such as 2019 is not the string '2019')",
             want_labels, [obs["alts"], obs["criteria"]])
    if obs["objectives"] != dm["objectives"]:
        prop(f"{lab}: objectives changed", dm["objectives"], obs["objectives"])
    if [_bits(w) for w in obs["weights"]] != [_bits(w) for w in dm["weights"]]:
        prop(f"{lab}: weights changed", dm["weights"], obs["weights"])

    def check_stat(strategy, fill_value, who):
        for j in range(n):
            col = _column(cells, j)
            exact = strategy != "mean" and not (strategy == "median" and dm.get("family") != "dyadic")
            want = _statistic(strategy, fill_value, col)
            for i in range(m):
                if cells[i][j] is not None:
                    continue
                got = res[i][j]
                ok = (C.F(got) == want) if exact else abs(got - float(want)) <= TOL * _scale(col)
                if not ok:
                    prop(f"{lab}: the gap ({dm['alternatives'][i]}, {dm['criteria'][j]}) does not hold the {strategy} of the "
                         f"observed values of that criterion{who}", float(want), got)
                    return

    if case["cls"] == "Simple":
        check_stat(kw.get("strategy", "mean"), kw.get("fill_value"), "")
    else:
        if rep is None:
            corr(f"{lab}: non-finite output, contract not evaluated", None, res)
        elif not (rep.get("observed") and rep.get("complete") and rep.get("shape")):
            corr(f"{lab}: the contract Keeps (observed kept / complete / same shape) fails on the real scikit-learn output",
                 {"observed": True, "complete": True, "shape": True}, rep)
    if case["cls"] == "Iterative":
        if kw.get("max_iter") == 0:
            check_stat(kw.get("initial_strategy", "mean"), kw.get("fill_value"),
                       " although max_iter=0 returns the initial imputation — constructor parameter not honoured")
        if obs.get("repeat_equal") is False:
            prop(f"{lab}: two runs with the same integer random_state differ — random_state not honoured")
        # (scikit-learn 1.3.2 with keep_empty_features=True marks every criterion "all missing" and returns the initial
        #  imputation unrefined and unclipped: `mask_missing_values[:, valid_mask] = True` in `_initial_imputation`)
        if kw.get("max_iter", 10) >= 1 and n >= 2 and ("min_value" in kw or "max_value" in kw) and not kw.get("keep_empty_criteria"):
            lo, hi = kw.get("min_value", -math.inf), kw.get("max_value", math.inf)
            for j in range(n):
                lj = lo[j] if isinstance(lo, list) else lo
                hj = hi[j] if isinstance(hi, list) else hi
                for i in range(m):
                    if cells[i][j] is None and not (lj <= res[i][j] <= hj):
                        prop(f"{lab}: the imputed value of ({dm['alternatives'][i]}, {dm['criteria'][j]}) is outside "
                             f"[min_value, max_value] — constructor parameter not honoured", [lj, hj], res[i][j])
                        return


def nontrivial(case, obs):
    if case["kind"] == "knn_k":
        return True
    return any(x is None for row in case["dm"]["matrix"] for x in row)


def tags(case, obs):
    if case["kind"] == "knn_k":
        return ["knn_k", f"knn_k:k={case['k']}", "knn_k:" + case["weights"]] + (["knn_k:two-step"] if case.get("warm_rows") else [])
    t = ["cls:" + case["cls"], "style:" + str(case["dm"].get("style")), "family:" + str(case["dm"].get("family"))]
    ints = [ax for ax, key in (("alts", "alternatives"), ("crits", "criteria")) if any(not isinstance(x, str) for x in case["dm"][key])]
    if ints:
        t += ["int-labels", "int-labels:" + "+".join(ints), "int-labels:" + case["cls"]]
    kw, cells = case["kw"], case["dm"]["matrix"]
    if case.get("warm"):
        t += ["two-step", "two-step:" + case["warm"]["mode"], "two-step:" + case["cls"]]
    if case.get("sentinel") is not None:
        t.append("sentinel-missing_values")
    if "err" in obs:
        t.append("raised:" + obs["err"])
    if kw.get("keep_empty_criteria"):
        t.append("keep_empty")
    if case["cls"] == "Simple":
        s = kw.get("strategy", "mean")
        t.append("strategy:" + s)
        for j in range(len(cells[0])):
            col = _column(cells, j)
            if len(col) == len(cells) or not col:
                continue
            cnt = Counter(col)
            if s == "most_frequent" and sum(1 for c in cnt.values() if c == max(cnt.values())) > 1:
                t.append("mode-tie")
                break
            if s == "median" and len(col) % 2 == 0 and len(set(col)) > 1:
                t.append("median-even")
                break
    if case["cls"] == "KNN":
        t.append("n_neighbors:" + str(kw.get("n_neighbors", "default")))
        t.append("weights:" + str(kw.get("weights", "default")))
        if "metric" in kw:
            t.append("metric:" + kw["metric"])
    if case["cls"] == "Iterative":
        t.append("estimator:" + str(kw.get("estimator")))
        t.append("initial:" + str(kw.get("initial_strategy", "default")))
        t.append("max_iter:" + str(kw.get("max_iter", "default")))
        if kw.get("sample_posterior"):
            t.append("sample_posterior")
        if "random_state" in kw:
            t.append("random_state")
        if "min_value" in kw or "max_value" in kw:
            t.append("min/max_value")
        if "n_nearest_criteria" in kw:
            t.append("n_nearest_criteria")
        if "imputation_order" in kw:
            t.append("order:" + kw["imputation_order"])
    return t


# --------------------------------------------------------------------------- generated table


def extract(ctx):
    import extract as X

    if X.imputer_kw():
        C.log("C15: lean/Skc/Generated/ImputerKw.lean rewritten from the tree under test")
