"""C16 — pipelines are the composition of their steps; methods rebuild from parameters."""
from __future__ import annotations

import copy as _copy
import hashlib
import importlib
import json
import math
from fractions import Fraction

import numpy as np

import common as C
import gen as G
import methods as M

PID = "C16"
RULE = (
    "cases: (pipe) random pipelines of 2-6 real steps — transformers drawn with repetition from scalers / inverters / "
    "weighters / filters / PushNegatives / AddValueToZero admissible for the running sign-and-objective state, then any "
    "decision maker admissible at the end; a contiguous run of steps may be wrapped into a nested pipeline (as a "
    "non-final or as the final step) — on a matrix of the composed domain: evaluate/transform vs manual composition, "
    "every split point k (pipe[k:] on the manual prefix, pipe[:k+1].transform where the API accepts it), mkpipe names "
    "unique and resolving to their own step, the pipeline's own copy()/rebuild; (method) EVERY class of the table "
    "generated from the tree under test x every entry of its canonical-argument table (the run fails when a class has "
    "none) and (mk) mkagg/mktransformer-made classes (random hyper-parameter sets with truthy, falsy and None values given / "
    "overridden; plus, in every run, for each maker x each hyper-parameter with a TRUTHY declared default (power=2.0, "
    "reverse=True, label='score', one of the pool) x each falsy value (0, 0.0, False, '', None): built truthy -> overridden "
    "falsy -> back, and built falsy -> overridden truthy -> falsy; the function's output depends on every hyper-parameter "
    "and is also computed directly from the plain function under the intended values): copy(), type(m)(**get_parameters()), copy(**override) — "
    "parameters, constructor-argument attributes and outputs on a random in-domain matrix — and then, on the SAME "
    "instance, a random program of two override copies (the entry's own override and another entry's, either order) "
    "interleaved with writes into dictionaries returned by get_parameters() (update with an override / values changed "
    "in place and an unknown key / clear), with get_parameters(), copy() and the rebuilt object re-checked against the "
    "original parameters, attributes and output after every op, and m's output against a deep copy taken at birth "
    "(pipelines: one write, a second steps= override, then the same re-checks); constructor refusals; "
    "(unames) name lists with repeats and suffix-like names through unique_names and through mkpipe with user classes; "
    "(trace) duck-typed recording steps (transformer / decision maker / both / neither / nested / raising) under random "
    "programs of slices, int and str items, len, evaluate, transform; (used, a fixed share of every run) a method object or "
    "pipeline that HAS ALREADY BEEN APPLIED to one or two matrices (identical values under other objectives / weights, the "
    "same matrix, other values) and only then copied (copy(), copy(**its own parameters)), rebuilt from get_parameters() and "
    "applied to the matrix of the case, m itself applied twice, pipelines also step by step, every suffix slice on the "
    "prefix output and through copy() of each step: CRITIC (default scale=True) alone / inside random chains, IterativeImputer "
    "with an integer random_state and sample_posterior / imputation_order='random' / n_nearest_criteria alone / as first step, "
    "and any other class / random chain. Non-trivial: the pipeline ran to a result (pipe), "
    "the object was built and produced an output (method, mk, used), the list has a repeated name (unames), the program ran "
    "past construction (trace); distinct by case hash."
)
ASSUMPTIONS = [
    "float() of an int is exact below 2**53 (the model keeps exact rationals); numeric strings as arguments are not generated",
    "numpy/pandas/scikit-learn/PuLP are deterministic for identical inputs (outputs of an object and of its copy are compared bit for bit)",
    "deepcopy of functions, numpy ufuncs and lambdas returns the same object (CPython), of a Generator an equal-state Generator",
    "np.random.default_rng(None) is modelled as one fresh object; seeds as objects 2000+seed",
    "SIMUS appears as a final step / method only on small positive matrices with at least two maximise criteria",
]
PARTIAL = (
    "steps are abstract partial functions in the model (their numerics belong to C04/C10-C15); the tie to Python is "
    "differential: recording steps for pipeline mechanics, exact encoded parameters for constructors; exception "
    "messages are not modelled, only exception classes"
)
EXHAUSTIVE = False
TRUSTED = ["harness/props/c16.py: canonical-argument table per class, value encoding (functions and objects by registry id)"]

# K4 (unique_names(['foo','foo','foo_1']) collided) was repaired in /repo (F14, status fixed): a duplicated step name is a
# plain property violation; the two inputs that showed it stay in corpus/C16/.


def extract(ctx):
    """regenerate lean/Skc/Generated/Classes.lean from the tree under test (before the Lean build)"""
    import extract as X

    if X.classes():
        C.log("extract: Skc/Generated/Classes.lean regenerated from", C.REPO)


# =========================================================================== registries: functions and objects by id


def f_ge_median(v):
    return v >= np.median(v)


def f_le_median(v):
    return v <= np.median(v)


def f_all(v):
    return np.ones(len(v), dtype=bool)


def f_cityblock(u, v):
    return float(np.sum(np.abs(np.asarray(u) - np.asarray(v))))


def f_corr(a, b):
    return float(np.corrcoef(a, b)[0, 1])


_STATIC_FUNCS = {0: f_ge_median, 1: f_le_median, 2: f_all, 10: f_cityblock, 20: f_corr, 30: np.max}


def funcs():
    """id -> callable; 1000+i is the i-th (sorted by name) function of `_LAST_DIFF_STRATEGIES`"""
    from skcriteria.cmp.ranks_rev import rank_inv_check

    d = dict(_STATIC_FUNCS)
    for i, k in enumerate(sorted(rank_inv_check._LAST_DIFF_STRATEGIES)):
        d[1000 + i] = rank_inv_check._LAST_DIFF_STRATEGIES[k]
    return d


def S(s):
    return {"s": s}


def I(n):
    return {"i": int(n)}


def Fl(x):
    return {"f": C.rat(float(x))}


# objects a constructor argument may be: id -> (tag, spec).  Specs use the step format of the pipeline cases.
OBJ_SPECS = {
    0: ("dm", {"cls": "WeightedSumModel", "kw": []}),
    1: ("dm", {"cls": "TOPSIS", "kw": []}),
    2: ("dm", {"cls": "RatioMOORA", "kw": []}),
    3: ("dm", {"pipe": [{"cls": "SumScaler", "kw": [["target", S("matrix")]]}, {"cls": "WeightedSumModel", "kw": []}]}),
    4: ("dm", {"cls": "TOPSIS", "kw": [["metric", S("cityblock")]]}),
    10: ("o", {"special": "BayesianRidge"}),
    11: ("o", {"special": "CBC"}),
    100: ("o", {"cls": "SumScaler", "kw": [["target", S("matrix")]]}),
    101: ("o", {"cls": "InvertMinimize", "kw": []}),
    102: ("o", {"cls": "VectorScaler", "kw": [["target", S("both")]]}),
    103: ("o", {"cls": "NegateMinimize", "kw": []}),
    104: ("o", {"cls": "EqualWeighter", "kw": [["base_value", Fl(2.0)]]}),
}

_CLASS_CACHE = {}


def class_table():
    """name -> class, for every concrete method class of the tree under test (same walk as the generated table)"""
    if not _CLASS_CACHE:
        import extract as X

        for c in X.method_classes():
            _CLASS_CACHE[c.__name__] = c
    return _CLASS_CACHE


def build_obj(spec):
    """a real object from a step spec: {"cls", "kw"} | {"pipe": [spec..]} | {"user": ...} | {"special": ...}"""
    if "pipe" in spec:
        from skcriteria.pipeline import mkpipe

        return mkpipe(*[build_obj(s) for s in spec["pipe"]])
    if "special" in spec:
        if spec["special"] == "BayesianRidge":
            from sklearn.linear_model import BayesianRidge

            return BayesianRidge()
        if spec["special"] == "CBC":
            import pulp

            return pulp.PULP_CBC_CMD(msg=False)
        raise KeyError(spec["special"])
    if "user" in spec:
        return make_user_class(spec["user"])(**{k: dec(v, k) for k, v in spec.get("kw", [])})
    cls = class_table()[spec["cls"]]
    return cls(**{k: dec(v, k) for k, v in spec["kw"]})


def dec_atom(a):
    if a is None or isinstance(a, bool):
        return a
    if "i" in a:
        return int(a["i"])
    if "f" in a:
        return float(C.frac(a["f"]))
    if "s" in a:
        return a["s"]
    if "fn" in a:
        return funcs()[a["fn"]]
    if "dm" in a:
        return build_obj(OBJ_SPECS[a["dm"]][1])
    if "o" in a:
        k = a["o"]
        if k == 1:
            return float("nan")
        if k == 2:
            return float("inf")
        if k == 3:
            return float("-inf")
        if k >= 2000:
            return np.random.default_rng(k - 2000)
        return build_obj(OBJ_SPECS[k][1])
    raise KeyError(a)


def dec(v, pname=None):
    """encoded value -> python value (`steps` dictionaries become lists of pairs)"""
    if isinstance(v, dict):
        if "t" in v:
            return tuple(dec_atom(a) for a in v["t"])
        if "d" in v:
            pairs = [(k, dec_atom(a)) for k, a in v["d"]]
            return pairs if pname == "steps" else dict(pairs)
        if "ds" in v:
            return {k: [dec_atom(a) for a in seq] for k, seq in v["ds"]}
    return dec_atom(v)


def _is_method(x):
    from skcriteria.core.methods import SKCMethodABC

    return isinstance(x, SKCMethodABC)


def signature(x):
    """class name + encoded parameters: what makes two method objects 'the same' for the registry"""
    if _is_method(x):
        return json.dumps([type(x).__name__, enc_params(x)], sort_keys=True)
    return json.dumps([type(x).__module__.split(".")[0], type(x).__name__])


_SIG_CACHE = {}


def obj_signatures():
    if not _SIG_CACHE:
        import warnings

        with warnings.catch_warnings():
            warnings.simplefilter("ignore")
            # leaves first: the signature of a pipeline names its steps by their registry ids
            for k in sorted(OBJ_SPECS, key=lambda k: ("pipe" in OBJ_SPECS[k][1], k)):
                tag, spec = OBJ_SPECS[k]
                _SIG_CACHE[signature(build_obj(spec))] = (tag, k)
    return _SIG_CACHE


def enc_atom(x):
    if x is None:
        return None
    if isinstance(x, (bool, np.bool_)):
        return bool(x)
    if isinstance(x, (int, np.integer)):
        return {"i": int(x)}
    if isinstance(x, (float, np.floating)):
        x = float(x)
        if math.isnan(x):
            return {"o": 1}
        if math.isinf(x):
            return {"o": 2 if x > 0 else 3}
        return {"f": C.rat(x)}
    if isinstance(x, str):
        return {"s": x}
    if isinstance(x, np.random.Generator):
        st = x.bit_generator.state
        for seed in range(0, 8):
            if np.random.default_rng(seed).bit_generator.state == st:
                return {"o": 2000 + seed}
        return {"o": 1999}
    if _is_method(x) or type(x).__module__.split(".")[0] in ("sklearn", "pulp"):
        hit = obj_signatures().get(signature(x))
        if hit:
            return {hit[0]: hit[1]}
        return {"dm" if callable(getattr(x, "evaluate", None)) else "o": 998}
    if callable(x):
        for k, f in funcs().items():
            if f is x:
                return {"fn": k}
        return {"fn": 999}
    return {"s": "<" + type(x).__name__ + ">"}


def enc(x):
    if isinstance(x, dict):
        items = list(x.items())
        if any(isinstance(v, (list, tuple, np.ndarray)) for _, v in items):
            return {"ds": [[str(k), [enc_atom(a) for a in list(v)]] for k, v in items]}
        return {"d": [[str(k), enc_atom(v)] for k, v in items]}
    if isinstance(x, (list, tuple, np.ndarray)):
        seq = list(x)
        if seq and all(isinstance(e, tuple) and len(e) == 2 and isinstance(e[0], str) for e in seq):
            return {"d": [[k, enc_atom(v)] for k, v in seq]}
        return {"t": [enc_atom(a) for a in seq]}
    return enc_atom(x)


def enc_params(m):
    """`get_parameters()` encoded, sorted by name"""
    return [[k, enc(v)] for k, v in sorted(m.get_parameters().items())]


def enc_attrs(m, names):
    out = []
    for p in names:
        try:
            out.append([p, enc(getattr(m, p))])
        except Exception as e:
            out.append([p, {"s": "<unreadable: " + G.err_name(e) + ">"}])
    return out


# =========================================================================== canonical form of outputs


def _num(x):
    x = float(x)
    return "nan" if math.isnan(x) else x.hex()


def canon(x, depth=0):
    """exact, JSON-able canonical form of an output (decision matrix, result, comparator, arrays, mappings)"""
    import pandas as pd
    from collections.abc import Mapping

    from skcriteria.core.data import DecisionMatrix

    if depth > 6:
        return "<deep>"
    if isinstance(x, DecisionMatrix):
        return {"_": "dm", "alts": [str(a) for a in x.alternatives], "crit": [str(c) for c in x.criteria],
                "obj": [int(o) for o in x.iobjectives.to_numpy()], "w": [_num(w) for w in x.weights.to_numpy()],
                "m": [[_num(v) for v in row] for row in x.matrix.to_numpy(dtype=float)], "dt": [str(d) for d in x.dtypes.to_numpy()]}
    if hasattr(x, "ranks") and hasattr(x, "named_ranks"):
        return {"_": "rcmp", "ranks": [[str(n), canon(r, depth + 1)] for n, r in x.ranks]}
    if hasattr(x, "e_") and hasattr(x, "values") and hasattr(x, "alternatives"):
        return {"_": type(x).__name__, "method": str(x.method), "alts": [str(a) for a in x.alternatives],
                "values": canon(np.asarray(x.values), depth + 1), "extra": canon(dict(x.e_), depth + 1)}
    if isinstance(x, (pd.Series, pd.DataFrame, pd.Index)):
        return canon(x.to_numpy(), depth + 1)
    if isinstance(x, np.ndarray):
        if x.dtype.kind in "fiub":
            return {"_": "arr", "shape": list(x.shape), "kind": x.dtype.kind, "v": [_num(v) for v in x.astype(float).ravel()]}
        return {"_": "arr", "shape": list(x.shape), "kind": x.dtype.kind, "v": [canon(v, depth + 1) for v in x.ravel().tolist()]}
    if isinstance(x, Mapping):
        return {"_": "map", "items": [[str(k), canon(x[k], depth + 1)] for k in x]}
    if isinstance(x, (list, tuple)):
        return [canon(v, depth + 1) for v in x]
    if isinstance(x, (bool, np.bool_)):
        return bool(x)
    if isinstance(x, (int, np.integer)):
        return int(x)
    if isinstance(x, (float, np.floating)):
        return _num(x)
    if isinstance(x, str) or x is None:
        return x
    if hasattr(x, "__dict__") and depth < 4 and type(x).__module__.startswith("skcriteria"):
        return {"_": type(x).__name__, "d": canon({k: v for k, v in vars(x).items()}, depth + 1)}
    return "<" + type(x).__name__ + ">"


def digest(c):
    return hashlib.sha1(json.dumps(c, sort_keys=True).encode()).hexdigest()[:16]


def outcome(fn, *a):
    """('ok', value) or ('err', exception class name)"""
    try:
        return ("ok", fn(*a))
    except Exception as e:  # the code under test refused / failed: part of the observable behaviour
        return ("err", G.err_name(e))


def ocanon(o):
    return {"ok": digest(canon(o[1]))} if o[0] == "ok" else {"err": o[1]}


def brief(o):
    if o[0] == "err":
        return {"err": o[1]}
    c = canon(o[1])
    s = json.dumps(c, sort_keys=True)
    return c if len(s) < 1500 else {"digest": digest(c), "head": s[:600]}


# =========================================================================== decision matrices


def mkdm(case):
    import warnings

    import skcriteria as skc

    mtx = np.array([[np.nan if v is None else v for v in row] for row in case["matrix"]], dtype=float)
    with warnings.catch_warnings():
        warnings.simplefilter("ignore")
        return skc.mkdm(mtx, list(case["objectives"]), weights=np.array(case["weights"], dtype=float),
                        alternatives=list(case["alternatives"]), criteria=list(case["criteria"]))


def gen_dm(rng, mix=None, m=None, n=None, min_m=3, max_m=9, min_n=2, max_n=5, distinct=False, frac_part=False):
    """positive matrix (dyadic or arbitrary doubles), criteria renamed C0.. so that filters can name them"""
    d = G.dm_case(rng, m=m, n=n, positive=True, mix=mix, min_m=min_m, max_m=max_m, min_n=min_n, max_n=max_n,
                  ties=0.0 if distinct else 0.2, dups=0.0 if distinct else 0.1)
    mt = d["matrix"]
    if all(r == mt[0] for r in mt):
        mt[-1] = [v + 1 for v in mt[-1]]
    if distinct or frac_part:
        # pairwise different rows and non-integer cells (pandas refuses float noise on integer-valued columns)
        for i, row in enumerate(mt):
            mt[i] = [v + (i + 1) / 64 + (j + 1) / 1024 for j, v in enumerate(row)]
    d["criteria"] = ["C%d" % j for j in range(len(d["criteria"]))]
    return d


def col(d, j):
    return [row[j] for row in d["matrix"]]


def median(xs):
    s = sorted(xs)
    return s[len(s) // 2]


# =========================================================================== canonical constructor arguments per class
# every entry: (kw, override, override_is_canonical); values are ENCODED (shared with the Lean model).
# `ctx`: the decision-matrix case the object will run on (filters name its criteria / take thresholds from it).


def _filters_arith(op):
    def f(rng, d):
        t0, t1 = median(col(d, 0)), median(col(d, 1))
        a = {"d": [["C0", Fl(t0)]]}
        b = {"d": [["C1", Fl(t1)], ["C0", Fl(t0)]]}
        c = {"d": [["C0", I(int(t0))], ["ZZ", Fl(1.0)]]}
        return [
            ([["criteria_filters", a]], [["ignore_missing_criteria", True]], True),
            ([["criteria_filters", b], ["ignore_missing_criteria", I(0)]], [["criteria_filters", a]], True),
            ([["criteria_filters", c], ["ignore_missing_criteria", I(1)]], [["criteria_filters", b], ["ignore_missing_criteria", False]], True),
        ]
    return f


def _filters_set(rng, d):
    v0 = sorted(set(col(d, 0)))
    v1 = sorted(set(col(d, 1)))
    a = {"ds": [["C0", [Fl(x) for x in v0[: max(1, len(v0) // 2 + 1)]]]]}
    b = {"ds": [["C1", [Fl(x) for x in v1[: max(1, len(v1) // 2 + 1)]]], ["C0", [Fl(x) for x in v0]]]}
    return [
        ([["criteria_filters", a]], [["ignore_missing_criteria", True]], True),
        ([["criteria_filters", b], ["ignore_missing_criteria", S("yes")]], [["criteria_filters", a]], True),
    ]


def _filters_fn(rng, d):
    a = {"d": [["C0", {"fn": 0}]]}
    b = {"d": [["C1", {"fn": 1}], ["C0", {"fn": 2}]]}
    return [
        ([["criteria_filters", a]], [["ignore_missing_criteria", True]], True),
        ([["criteria_filters", b], ["ignore_missing_criteria", False]], [["criteria_filters", a]], True),
    ]


def _target_only(rng, d):
    return [
        ([["target", S("matrix")]], [["target", S("both")]], True),
        ([["target", S("weights")]], [["target", S("matrix")]], True),
        ([["target", S("both")]], [["target", S("weights")]], True),
    ]


def _noparams(rng, d):
    return [([], [], True)]


def _critic(rng, d):
    return [
        ([], [["correlation", S("spearman")]], True),
        ([["correlation", S("kendall")], ["scale", I(0)]], [["scale", True]], True),
        ([["correlation", {"fn": 20}], ["scale", False]], [["correlation", S("pearson")], ["scale", True]], True),
    ]


def _imputer_simple(rng, d):
    return [
        ([], [["strategy", S("median")]], True),
        ([["strategy", S("constant")], ["fill_value", Fl(1.5)]], [["fill_value", Fl(2.5)]], True),
        ([["strategy", S("most_frequent")], ["keep_empty_criteria", True]], [["strategy", S("mean")], ["keep_empty_criteria", False]], True),
    ]


def _imputer_iter(rng, d):
    return [
        ([["random_state", I(3)], ["max_iter", I(5)]], [["initial_strategy", S("median")]], True),
        ([["estimator", {"o": 10}], ["tol", Fl(0.01)], ["imputation_order", S("descending")], ["skip_complete", True],
          ["min_value", Fl(0.0)], ["max_value", Fl(1000.0)]], [["max_iter", I(3)], ["verbose", I(0)]], True),
        ([["n_nearest_criteria", I(1)], ["sample_posterior", True], ["random_state", I(1)], ["fill_value", None],
          ["keep_empty_criteria", False]], [["sample_posterior", False], ["n_nearest_criteria", None]], True),
    ]


def _imputer_knn(rng, d):
    return [
        ([], [["n_neighbors", I(2)]], True),
        ([["n_neighbors", I(3)], ["weights", S("distance")]], [["weights", S("uniform")], ["keep_empty_criteria", True]], True),
    ]


def _rank_inv(rng, d):
    return [
        ([["dmaker", {"dm": 2}], ["random_state", I(3)]], [["repeat", I(2)]], True),
        ([["dmaker", {"dm": 1}], ["repeat", Fl(2.0)], ["allow_missing_alternatives", I(1)], ["last_diff_strategy", S("mean")],
          ["random_state", I(5)]], [["last_diff_strategy", {"fn": 30}], ["dmaker", {"dm": 2}]], True),
        ([["dmaker", {"dm": 4}], ["last_diff_strategy", {"fn": 30}], ["random_state", None]], [["allow_missing_alternatives", True]], True),
    ]


def _pipeline(rng, d):
    s1 = {"d": [["sumscaler", {"o": 100}], ["topsis", {"dm": 1}]]}
    s2 = {"d": [["a", {"o": 101}], ["b", {"o": 102}], ["c", {"o": 104}], ["d", {"dm": 2}]]}
    s3 = {"d": [["x", {"o": 103}], ["inner", {"dm": 3}], ["y", {"dm": 4}]]}
    return [([["steps", s1]], [["steps", s2]], True), ([["steps", s2]], [["steps", s3]], True), ([["steps", s3]], [["steps", s1]], True)]


CANON = {
    "AddValueToZero": lambda r, d: [
        ([["target", S("matrix")]], [["value", Fl(0.5)]], True),
        ([["target", S("both")], ["value", I(2)]], [["target", S("weights")]], True),
        ([["target", S("weights")], ["value", Fl(0.25)]], [["value", I(3)], ["target", S("matrix")]], False),
    ],
    "CRITIC": _critic,
    "Critic": _critic,
    "CenitDistance": _noparams,
    "CenitDistanceMatrixScaler": _noparams,
    "ELECTRE1": lambda r, d: [
        ([], [["p", Fl(0.75)]], True),
        ([["p", Fl(0.5)], ["q", Fl(0.125)]], [["q", Fl(0.25)]], True),
        ([["p", I(1)], ["q", I(0)]], [["p", Fl(0.625)], ["q", Fl(0.5)]], True),
        ([["q", Fl(0.875)]], [["p", I(1)]], False),
    ],
    "ELECTRE2": lambda r, d: [
        ([], [["p0", Fl(0.75)]], True),
        ([["p0", Fl(0.875)], ["p1", Fl(0.5)], ["p2", Fl(0.25)], ["q0", Fl(0.75)], ["q1", Fl(0.125)]], [["q1", Fl(0.5)], ["p2", Fl(0.375)]], True),
        ([["p0", I(1)], ["q1", I(0)]], [["p1", Fl(0.625)]], True),
    ],
    "EntropyWeighter": _noparams,
    "EqualWeighter": lambda r, d: [
        ([], [["base_value", Fl(2.0)]], True),
        ([["base_value", I(3)]], [["base_value", Fl(0.5)]], True),
        ([["base_value", Fl(0.25)]], [["base_value", I(2)]], False),
    ],
    "Filter": _filters_fn,
    "FilterEQ": _filters_arith("eq"),
    "FilterGE": _filters_arith("ge"),
    "FilterGT": _filters_arith("gt"),
    "FilterIn": _filters_set,
    "FilterLE": _filters_arith("le"),
    "FilterLT": _filters_arith("lt"),
    "FilterNE": _filters_arith("ne"),
    "FilterNonDominated": lambda r, d: [([], [["strict", True]], True), ([["strict", I(1)]], [["strict", False]], True)],
    "FilterNotIn": _filters_set,
    "FullMultiplicativeForm": _noparams,
    "InvertMinimize": _noparams,
    "IterativeImputer": _imputer_iter,
    "KNNImputer": _imputer_knn,
    "MaxAbsScaler": _target_only,
    "MaxScaler": _target_only,
    "MinMaxScaler": lambda r, d: [
        ([["target", S("matrix")]], [["criteria_range", {"t": [Fl(0.0), Fl(2.0)]}]], True),
        ([["target", S("both")], ["clip", I(1)], ["criteria_range", {"t": [I(1), I(3)]}]], [["clip", False], ["target", S("weights")]], True),
        ([["target", S("weights")], ["criteria_range", {"t": [Fl(0.5), Fl(1.5)]}]], [["criteria_range", {"t": [I(0), I(1)]}]], False),
    ],
    "MinimizeToMaximize": _noparams,
    "MultiMOORA": _noparams,
    "NegateMinimize": _noparams,
    "PushNegatives": _target_only,
    "RankInvariantChecker": _rank_inv,
    "RatioMOORA": _noparams,
    "ReferencePointMOORA": _noparams,
    "SIMUS": lambda r, d: [
        ([], [["rank_by", I(2)]], True),
        ([["rank_by", I(2)], ["solver", S("PULP_CBC_CMD")]], [["solver", S("pulp")]], True),
        ([["solver", {"o": 11}]], [["rank_by", I(2)]], True),
    ],
    "SKCPipeline": _pipeline,
    "SimpleImputer": _imputer_simple,
    "StandarScaler": lambda r, d: [
        ([["target", S("matrix")]], [["with_mean", False]], True),
        ([["target", S("both")], ["with_mean", I(0)], ["with_std", I(1)]], [["with_std", False], ["with_mean", True]], True),
        ([["target", S("weights")], ["with_std", False]], [["target", S("matrix")]], True),
    ],
    "StdWeighter": _noparams,
    "SumScaler": _target_only,
    "TOPSIS": lambda r, d: [
        ([], [["metric", S("cityblock")]], True),
        ([["metric", S("chebyshev")]], [["metric", S("sqeuclidean")]], True),
        ([["metric", {"fn": 10}]], [["metric", S("minkowski")]], True),
        ([["metric", S("cityblock")]], [["metric", {"fn": 10}]], True),
    ],
    "VectorScaler": _target_only,
    "WeightedProductModel": _noparams,
    "WeightedSumModel": _noparams,
}

# constructor refusals (class, kw): the model must refuse with the same exception class
REFUSALS = [
    ("ELECTRE1", [["p", Fl(1.5)]]), ("ELECTRE1", [["q", Fl(-0.25)]]), ("ELECTRE1", [["r", Fl(0.5)]]), ("ELECTRE1", [["p", None]]),
    ("ELECTRE2", [["p0", Fl(0.25)], ["p1", Fl(0.5)]]), ("ELECTRE2", [["q0", Fl(0.125)]]), ("ELECTRE2", [["p2", Fl(-1.0)]]),
    ("TOPSIS", [["metric", S("nometric")]]), ("TOPSIS", [["metric", I(3)]]),
    ("SIMUS", [["rank_by", I(3)]]), ("SIMUS", [["solver", S("no-such-solver")]]), ("SIMUS", [["rank_by", S("1")]]),
    ("SumScaler", []), ("SumScaler", [["target", S("rows")]]), ("SumScaler", [["target", I(1)]]), ("VectorScaler", [["target", None]]),
    ("MinMaxScaler", [["target", S("both")], ["criteria_range", {"t": [I(0), I(1), I(2)]}]]),
    ("MinMaxScaler", [["target", S("both")], ["criteria_range", {"t": [I(0)]}]]),
    ("MinMaxScaler", [["target", S("both")], ["criteria_range", I(1)]]),
    ("AddValueToZero", [["target", S("matrix")], ["value", None]]), ("AddValueToZero", [["value", Fl(1.0)]]),
    ("StandarScaler", [["with_mean", True]]),
    ("EqualWeighter", [["base_value", {"t": [I(1)]}]]), ("EqualWeighter", [["bv", I(1)]]),
    ("CRITIC", [["correlation", S("nocorr")]]), ("Critic", [["correlation", I(1)]]),
    ("FilterGT", [["criteria_filters", {"d": []}]]), ("FilterGT", [["criteria_filters", {"d": [["C0", S("x")]]}]]),
    ("FilterLE", [["criteria_filters", {"d": [["C0", {"fn": 0}]]}]]), ("FilterEQ", []),
    ("FilterIn", [["criteria_filters", {"ds": [["C0", []]]}]]), ("FilterNotIn", [["criteria_filters", {"d": []}]]),
    ("FilterIn", [["criteria_filters", {"d": [["C0", Fl(1.0)]]}]]),
    ("Filter", [["criteria_filters", {"d": [["C0", Fl(1.0)]]}]]), ("Filter", [["criteria_filters", {"d": []}]]),
    ("FilterNonDominated", [["strikt", True]]),
    ("RankInvariantChecker", [["dmaker", {"o": 100}]]), ("RankInvariantChecker", []),
    ("RankInvariantChecker", [["dmaker", {"dm": 0}], ["last_diff_strategy", S("mode")]]),
    ("RankInvariantChecker", [["dmaker", {"dm": 0}], ["last_diff_strategy", I(3)]]),
    ("RankInvariantChecker", [["dmaker", {"dm": 0}], ["repeat", S("x")]]),
    ("SKCPipeline", [["steps", {"d": []}]]), ("SKCPipeline", []),
    ("WeightedSumModel", [["x", I(1)]]), ("SimpleImputer", [["strategi", S("mean")]]), ("KNNImputer", [["k", I(1)]]),
    ("IterativeImputer", [["skip", True]]),
]

# where each class can run: kind of matrix
DOMAIN = {
    "WeightedSumModel": dict(mix="max"), "WeightedProductModel": dict(mix="max"),
    "SIMUS": dict(simus=True), "RankInvariantChecker": dict(distinct=True, max_m=5),
    "SimpleImputer": dict(nan=True), "IterativeImputer": dict(nan=True), "KNNImputer": dict(nan=True),
    "SKCPipeline": dict(distinct=True),
}


def dm_for_class(rng, cls):
    dom = DOMAIN.get(cls, {})
    if dom.get("simus"):
        d = gen_dm(rng, m=rng.randint(3, 4), n=rng.randint(2, 3))
        o = d["objectives"]
        o[0] = o[1] = 1
        return d
    d = gen_dm(rng, mix=dom.get("mix"), distinct=dom.get("distinct", False), max_m=dom.get("max_m", 9), frac_part=dom.get("distinct", False))
    if dom.get("nan"):
        m, n = len(d["matrix"]), len(d["matrix"][0])
        for _ in range(rng.randint(1, max(1, m // 2))):
            i, j = rng.randrange(m), rng.randrange(n)
            if sum(1 for r in d["matrix"] if r[j] is not None) > 2:
                d["matrix"][i][j] = None
    return d


# =========================================================================== user classes (mkagg / mktransformer / mocks)


def user_fn(u):
    """the plain function behind a user class: its output depends on every numeric / boolean / string hyper-parameter
    (None, 0, 0.0, False and '' all contribute nothing: a truthy value and a falsy one never give the same output)"""
    from skcriteria.utils import rank

    names = [k for k, _ in u["hparams"]]

    def tot(hparams):
        t = 0.0
        for k in names:
            v = getattr(hparams, k)
            if isinstance(v, (int, float)) and not isinstance(v, bool):
                t += float(v)
            elif isinstance(v, bool):
                t += 0.5 if v else 0.0
            elif isinstance(v, str):
                t += len(v) / 8
        return t

    if u["maker"] == "agg":
        def fn(matrix, weights, hparams, **kwargs):
            score = (np.asarray(matrix, dtype=float) * weights).sum(axis=1) * (1.0 + tot(hparams)) + np.asarray(matrix, dtype=float)[:, 0] * tot(hparams)
            return rank.rank_values(score, reverse=True), {"score": score}
    else:
        def fn(matrix, hparams, **kwargs):
            return {"matrix": np.asarray(matrix, dtype=float) * (1.0 + tot(hparams)) + tot(hparams)}
    fn.__name__ = u["name"]
    fn.__qualname__ = u["name"]
    return fn


def make_user_class(u):
    """{"maker": "agg"|"trans", "name": str, "hparams": [[k, VAL]..]}: a class made by the decorators of extend.py whose
    output depends on every numeric hyper-parameter"""
    import warnings

    from skcriteria.extend import mkagg, mktransformer

    hp = {k: dec(v, k) for k, v in u["hparams"]}
    fn = user_fn(u)
    with warnings.catch_warnings(record=True):
        return (mkagg if u["maker"] == "agg" else mktransformer)(**hp)(fn)


def user_numbers(u, out):
    """the numbers a user-made object computed: the score (mkagg) / the matrix (mktransformer), as exact hex strings"""
    if out[0] != "ok":
        return {"err": out[1]}
    arr = out[1].e_["score"] if u["maker"] == "agg" else out[1].matrix.to_numpy(dtype=float)
    return [_num(v) for v in np.asarray(arr, dtype=float).ravel()]


def user_expected(u, values, dm):
    """the same numbers from the plain function under the hyper-parameter values `values` ([[name, VAL]..] laid over the
    declared defaults) - no generated class, no __init__, no copy involved"""
    import types

    hp = {k: dec(v, k) for k, v in u["hparams"]}
    for k, v in values:
        if k not in hp:
            return None
        hp[k] = dec(v, k)
    d = dm.to_dict()
    r = user_fn(u)(matrix=d["matrix"], weights=d["weights"], objectives=d["objectives"], hparams=types.SimpleNamespace(**hp))
    arr = r[1]["score"] if u["maker"] == "agg" else r["matrix"]
    return [_num(v) for v in np.asarray(arr, dtype=float).ravel()]


class _Rec:
    """duck-typed recording steps for the trace cases (the 'decision matrix' is a list of strings)"""


def make_mock(spec):
    from skcriteria.pipeline import SKCPipeline

    kind, ident, fail = spec["kind"], spec.get("id", spec["name"]), spec.get("fail")
    if kind == "p":
        return SKCPipeline([(s["name"], make_mock(s)) for s in spec["steps"]])

    def mk(tag):
        def method(self, dm):
            if fail is not None:
                raise _Raised(fail)
            return list(dm) + [tag + ":" + ident]
        return method

    body = {}
    if kind in ("t", "td"):
        body["transform"] = mk("t")
    if kind in ("d", "td"):
        body["evaluate"] = mk("e")
    cname = spec.get("cname", "Mock")
    return type(cname, (_Rec,), body)()


class _Raised(Exception):
    def __init__(self, code):
        super().__init__(code)
        self.code = code


def err_of(e):
    if isinstance(e, _Raised):
        return "Raised%d" % e.code
    return G.err_name(e)


# =========================================================================== generators

SCALERS = ["SumScaler", "VectorScaler", "MaxAbsScaler", "MinMaxScaler", "StandarScaler", "MaxScaler"]
DMAKERS = ["WeightedSumModel", "WeightedProductModel", "TOPSIS", "TOPSIS", "RatioMOORA", "ReferencePointMOORA", "FullMultiplicativeForm",
           "MultiMOORA", "ELECTRE1", "ELECTRE2"]


def _surv_mask_arith(rows, j, op, t):
    f = {"FilterGT": lambda v: v > t, "FilterGE": lambda v: v >= t, "FilterLT": lambda v: v < t, "FilterLE": lambda v: v <= t,
         "FilterEQ": lambda v: v == t, "FilterNE": lambda v: v != t}[op]
    return [f(r[j]) for r in rows]


def gen_chain(rng, d, length):
    """an admissible flat chain [transformer specs.., decision-maker spec] for the matrix case `d`.
    state: mixed = some criterion is minimised; sign in {"pos", "nonneg", "any"}; rows = surviving rows while no
    matrix-changing step has run (filters are only drawn then)."""
    mixed = any(o == -1 for o in d["objectives"])
    sign = "pos"
    rows = [list(r) for r in d["matrix"]]
    raw = True  # matrix still the original one (filters can take thresholds from it)
    n = len(d["criteria"])
    steps = []
    final = rng.choice(DMAKERS + (["SIMUS"] if rng.random() < 0.04 else []))
    for _ in range(length - 1):
        opts = ["EqualWeighter", "StdWeighter", "NegateMinimize", "PushNegatives", "AddValueToZero", "MinMaxScaler", "StandarScaler", "CRITIC"]
        if sign == "pos":
            opts += ["SumScaler", "VectorScaler", "MaxAbsScaler", "MaxScaler", "InvertMinimize", "EntropyWeighter", "SumScaler", "VectorScaler",
                     "InvertMinimize", "MinimizeToMaximize"]
        if raw and len(rows) >= 4:
            opts += ["FilterGT", "FilterGE", "FilterLT", "FilterLE", "FilterNE", "FilterIn", "FilterNotIn", "Filter", "FilterNonDominated"]
        cls = rng.choice(opts)
        kw = []
        if cls in ("SumScaler", "VectorScaler", "MaxAbsScaler", "MaxScaler", "PushNegatives"):
            tgt = rng.choice(["matrix", "weights", "both"])
            kw = [["target", S(tgt)]]
            if tgt != "weights":
                raw = False
        elif cls == "MinMaxScaler":
            tgt = rng.choice(["matrix", "both", "weights"])
            kw = [["target", S(tgt)]]
            if rng.random() < 0.5:
                lo = rng.choice([0.0, 0.5, 1.0])
                kw.append(["criteria_range", {"t": [Fl(lo), Fl(lo + rng.choice([1.0, 2.0]))]}])
                if tgt != "weights" and sign != "any":
                    sign = "pos" if lo > 0 and sign in ("pos", "nonneg") else "nonneg"
            elif tgt != "weights" and sign != "any":
                sign = "nonneg"
            if tgt != "weights":
                raw = False
        elif cls == "StandarScaler":
            tgt = rng.choice(["matrix", "matrix", "both"])  # weights standardised to mean 0 are useless downstream
            if tgt == "both":
                tgt = "matrix"
            kw = [["target", S(tgt)]] + ([["with_mean", rng.random() < 0.5]] if rng.random() < 0.5 else [])
            sign, raw = "any", False
        elif cls == "AddValueToZero":
            tgt = rng.choice(["matrix", "both"])
            kw = [["target", S(tgt)], ["value", Fl(rng.choice([0.5, 1.0, 2.0]))]]
            if sign == "nonneg":
                sign = "pos"
            raw = False
        elif cls == "PushNegatives":
            pass
        elif cls in ("InvertMinimize", "MinimizeToMaximize"):
            if mixed:
                raw = False
            mixed = False
        elif cls == "NegateMinimize":
            if mixed:
                sign, raw = "any", False
            mixed = False
        elif cls == "EqualWeighter":
            kw = [["base_value", Fl(rng.choice([1.0, 2.0, 0.5]))]] if rng.random() < 0.5 else []
        elif cls == "CRITIC":
            kw = [["correlation", S(rng.choice(["pearson", "spearman"]))]] if rng.random() < 0.5 else []
        elif cls.startswith("Filter"):
            j = rng.randrange(n)
            vals = sorted(r[j] for r in rows)
            if cls == "FilterNonDominated":
                keep = _nondominated(rows, d["objectives"])
            elif cls == "Filter":
                fid = rng.choice([0, 1])
                med = float(np.median(vals))
                keep = [(r[j] >= med) if fid == 0 else (r[j] <= med) for r in rows]
                kw = [["criteria_filters", {"d": [["C%d" % j, {"fn": fid}]]}]]
            elif cls in ("FilterIn", "FilterNotIn"):
                chosen = sorted(set(rng.sample(vals, max(1, len(vals) // 2))))
                keep = [(r[j] in chosen) == (cls == "FilterIn") for r in rows]
                kw = [["criteria_filters", {"ds": [["C%d" % j, [Fl(x) for x in chosen]]]}]]
            else:
                t = vals[len(vals) // 2]
                keep = _surv_mask_arith(rows, j, cls, t)
                kw = [["criteria_filters", {"d": [["C%d" % j, Fl(t)]]}]]
            if sum(keep) < 3 or all(r == [x for x, k in zip(rows, keep) if k][0] for r in [x for x, k in zip(rows, keep) if k]):
                continue  # would leave too little to rank: draw another step
            rows = [r for r, k in zip(rows, keep) if k]
            if rng.random() < 0.3 and kw:
                kw.append(["ignore_missing_criteria", True])
        if cls == "PushNegatives":
            if sign == "any":
                sign = "nonneg"
        steps.append({"cls": cls, "kw": kw})
    # make the final decision maker admissible
    need_max = final in ("WeightedSumModel", "WeightedProductModel")
    need_pos = final in ("WeightedProductModel", "FullMultiplicativeForm", "MultiMOORA", "SIMUS")
    need_nonneg = final == "WeightedSumModel"
    if need_max and mixed:
        if sign == "pos":
            steps.append({"cls": "InvertMinimize", "kw": []})
        else:
            steps.append({"cls": "NegateMinimize", "kw": []})
            sign = "any"
        mixed = False
    if (need_pos and sign != "pos") or (need_nonneg and sign == "any"):
        if sign == "any":
            steps.append({"cls": "PushNegatives", "kw": [["target", S("matrix")]]})
            sign = "nonneg"
        if need_pos:
            steps.append({"cls": "AddValueToZero", "kw": [["target", S("matrix")], ["value", Fl(1.0)]]})
            sign = "pos"
    fkw = []
    if final == "TOPSIS" and rng.random() < 0.6:
        fkw = [["metric", S(rng.choice(M.TOPSIS_METRICS))]]
    elif final == "ELECTRE1" and rng.random() < 0.5:
        fkw = [["p", Fl(rng.randint(4, 8) / 8)], ["q", Fl(rng.randint(0, 4) / 8)]]
    elif final == "SIMUS":
        fkw = [["rank_by", I(rng.choice([1, 2]))]]
    steps.append({"cls": final, "kw": fkw})
    return steps


def _nondominated(rows, objs):
    def dom(a, b):
        ge = all((x >= y) if o == 1 else (x <= y) for x, y, o in zip(a, b, objs))
        gt = any((x > y) if o == 1 else (x < y) for x, y, o in zip(a, b, objs))
        return ge and gt
    return [not any(dom(b, a) for b in rows) for a in rows]


def nest(rng, chain):
    """wrap a contiguous run of the flat chain into a nested pipeline (semantics preserved: a nested pipeline used as a
    non-final step contributes its transformers only; as the final step it is the decision maker)"""
    n = len(chain)
    if n < 3 or rng.random() < 0.45:
        return chain
    if rng.random() < 0.5:
        i = rng.randint(0, n - 2)  # a suffix [i..n) as the final step
        if i == 0:
            i = 1
        return chain[:i] + [{"pipe": chain[i:]}]
    i = rng.randint(0, n - 2)
    j = rng.randint(i + 1, n - 1)  # transformers [i..j) plus an inner decision maker that never runs
    inner_dm = {"cls": rng.choice(["WeightedSumModel", "TOPSIS", "RatioMOORA"]), "kw": []}
    return chain[:i] + [{"pipe": chain[i:j] + [inner_dm]}] + chain[j:]


NAME_POOL = ["foo", "foo_1", "foo_2", "bar", "bar_1", "foo_1_1", "a", "a_1", "a_2", "a_1_1", "b", "sumscaler", "topsis", "x_", "_", "x_y", "foo_01",
             "foo_10", "Ünï", "a_1_2", "foo_3", "é_1", "é"]


def gen_names(rng):
    k = rng.randint(1, 7)
    base = rng.sample(NAME_POOL, rng.randint(1, min(4, len(NAME_POOL))))
    names = [rng.choice(base) for _ in range(k)]
    if rng.random() < 0.35:
        n = rng.choice(names)
        names.append("%s_%d" % (n, rng.randint(1, 3)))
        rng.shuffle(names)
    return names


def gen_trace(rng):
    def leaf(i, depth):
        r = rng.random()
        kind = "t" if r < 0.6 else "d" if r < 0.75 else "td" if r < 0.83 else "x" if r < 0.88 else "p"
        if kind == "p" and depth >= 2:
            kind = "t"
        s = {"name": rng.choice(["s%d" % i, "s%d" % i, "dup", "n"]), "id": "%d.%d.%d" % (depth, i, rng.randrange(1000)), "kind": kind,
             "fail": (rng.randint(1, 3) if rng.random() < 0.07 else None)}
        if kind == "p":
            s["steps"] = steps(depth + 1, rng.randint(1, 3))
            s["fail"] = None
        return s

    def steps(depth, n):
        out = [leaf(i, depth) for i in range(n)]
        if out and rng.random() < 0.85:  # mostly valid: transformers then something with evaluate
            for s in out[:-1]:
                if s["kind"] in ("d", "x"):
                    s["kind"] = "t"
            if out[-1]["kind"] in ("t", "x"):
                out[-1]["kind"] = "d"
        return out

    st = steps(0, rng.randint(0 if rng.random() < 0.05 else 1, 6))
    n = len(st)
    prog = []
    for _ in range(rng.randint(0, 2)):
        a = rng.choice([None, None, rng.randint(-n - 1, n + 1)])
        b = rng.choice([None, None, rng.randint(-n - 1, n + 1)])
        s = rng.choice([None] * 7 + [1] * 4 + [2, -1, 0])
        prog.append({"slice": [a, b, s]})
    r = rng.random()
    if r < 0.4:
        prog.append("evaluate")
    elif r < 0.6:
        prog.append("transform")
    elif r < 0.7:
        prog.append("len")
    elif r < 0.8:
        prog.append("names")
    elif r < 0.9:
        prog.append({"int": rng.randint(-n - 1, n + 1)})
    else:
        prog.append({"str": rng.choice([s["name"] for s in st] + ["zz"]) if st else "zz"})
    return {"kind": "trace", "steps": st, "program": prog}


HP_POOL = [("scale", Fl(2.0)), ("shift", I(1)), ("tag", S("x")), ("flag", True), ("alpha", Fl(0.5)), ("k", I(3)), ("mode", S("fast")), ("opt", None)]


FALSY = [I(0), Fl(0.0), False, S(""), None]
HP_TRUTHY = [("power", Fl(2.0)), ("reverse", True), ("label", S("score"))]


def gen_mk_falsy(rng, reps):
    """mkagg / mktransformer classes declaring a hyper-parameter with a TRUTHY default (power=2.0, reverse=True,
    label='score', one more of the pool) next to 0-2 others, x every falsy value (0, 0.0, False, '', None):
    (a) built with the default or a truthy value, copy(**{name: falsy}), and later back to a truthy value;
    (b) built with the falsy value (so copy() / rebuild from get_parameters() carry it), copy(**{name: truthy}), and later
        to a falsy value again.  The other hyper-parameters are sometimes given / overridden along, falsy values included."""
    cases = []
    for _ in range(reps):
        for maker in ("agg", "trans"):
            for name, default in HP_TRUTHY + [rng.choice([h for h in HP_POOL if h[1] is not None])]:
                others = [h for h in rng.sample(HP_POOL, rng.randint(0, 2)) if h[0] != name]
                hp = [[name, default]] + [[k, v] for k, v in others]
                rng.shuffle(hp)
                onames = [k for k, _ in others]

                def side(p=0.4):
                    return [[k, rng.choice(FALSY + [Fl(rng.randint(1, 8) / 4), I(rng.randint(1, 6)), S("zzz"), True])] for k in onames if rng.random() < p]

                for fz in FALSY:
                    user = {"maker": maker, "name": rng.choice(["UserM", "Foo", "Foo_1"]), "hparams": hp}
                    truthy = rng.choice([default, default, Fl(1.25), I(5), S("yy"), True])
                    to_f, back = [[name, fz]] + side(), [[name, truthy]] + side()
                    kw = side() + ([[name, truthy]] if rng.random() < 0.5 else [])
                    cases.append({"kind": "mk", "user": user, "kw": kw, "override": to_f, "dm": gen_dm(rng, mix="max"),
                                  "seq": gen_seq(rng, [(to_f, True), (back, True), ([[name, rng.choice(FALSY)]], True)])})
                    cases.append({"kind": "mk", "user": user, "kw": [[name, fz]] + side(), "override": back, "dm": gen_dm(rng, mix="max"),
                                  "seq": gen_seq(rng, [(back, True), ([[name, rng.choice(FALSY)]] + side(), True), (to_f, True)])})
    return cases


def gen_seq(rng, pool):
    """a program of parameter-level calls made one after the other on ONE instance m.
    pool: [(override, override_is_canonical)..], the first one being the case's own override.  Ops:
      copy    m.copy(**ov)
      gpset   g = m.get_parameters(); g.update(ov)               (plain writes into the returned dictionary)
      gpjunk  g = m.get_parameters(); mutable values of g changed in place; g[<unknown name>] = 1
      gpclear g = m.get_parameters(); g.clear()
    always two override copies (with different overrides whenever the pool has two), in random order, with random
    writes into returned dictionaries before / between / after them; after EVERY op the observation records
    m.get_parameters(), m.copy() and type(m)(**m.get_parameters())."""
    first = pool[0]
    others = [p for p in pool[1:] if p[0] != first[0]] or list(pool)
    pair = [first, rng.choice(others)]
    rng.shuffle(pair)

    def filler():
        r = rng.random()
        if r < 0.3:
            return []
        if r < 0.6:
            return [{"op": "gpset", "ov": rng.choice(pool)[0]}]
        if r < 0.85:
            return [{"op": "gpjunk"}]
        return [{"op": "gpclear"}]

    seq = filler()
    for ov, can in pair:
        seq += [{"op": "copy", "ov": ov, "canonical": can}] + filler()
    return seq


# ---- objects that have ALREADY BEEN USED (kind "used")

USED_ANY = ["SumScaler", "VectorScaler", "MinMaxScaler", "StandarScaler", "MaxAbsScaler", "MaxScaler", "CenitDistance", "EqualWeighter",
            "StdWeighter", "EntropyWeighter", "CRITIC", "InvertMinimize", "NegateMinimize", "MinimizeToMaximize", "PushNegatives",
            "AddValueToZero", "FilterGT", "FilterLE", "FilterIn", "Filter", "FilterNonDominated", "SimpleImputer", "KNNImputer",
            "IterativeImputer", "WeightedSumModel", "WeightedProductModel", "TOPSIS", "RatioMOORA", "ReferencePointMOORA",
            "FullMultiplicativeForm", "MultiMOORA", "ELECTRE1", "ELECTRE2", "RankInvariantChecker", "RankInvariantChecker"]


def gen_stochastic_imputer(rng, n_crit):
    """IterativeImputer arguments whose outcome depends on the random stream, with an INTEGER random_state (the
    configuration is reproducible: the unchanged code re-seeds scikit-learn's imputer at every call)"""
    seed = rng.randint(0, 50)
    r = rng.random()
    kw = []
    if r < 0.4:
        kw = [["sample_posterior", True]]
    elif r < 0.7:
        kw = [["imputation_order", S("random")]]
    elif r < 0.85:
        kw = [["sample_posterior", True], ["imputation_order", S("random")]]
    else:
        kw = [["imputation_order", S(rng.choice(["random", "ascending", "roman"]))], ["sample_posterior", rng.random() < 0.5]]
    if n_crit >= 3 and rng.random() < 0.4:
        kw.append(["n_nearest_criteria", I(rng.randint(1, n_crit - 2))])
    kw.append(["max_iter", I(rng.randint(2, 5))])
    if rng.random() < 0.3:
        kw.append(["initial_strategy", S(rng.choice(["median", "mean"]))])
    kw.append(["random_state", I(seed)])
    rng.shuffle(kw)
    return kw


def punch_nans(rng, d):
    m, n = len(d["matrix"]), len(d["matrix"][0])
    for _ in range(rng.randint(2, max(2, m // 2))):
        i, j = rng.randrange(m), rng.randrange(n)
        if sum(1 for r in d["matrix"] if r[j] is not None) > 3:
            d["matrix"][i][j] = None
    if all(v is not None for r in d["matrix"] for v in r):
        d["matrix"][0][0] = None
    return d


def flipped(rng, d, reweigh=False):
    """identical matrix values, other objectives: at least one, not all, criteria flipped"""
    n = len(d["objectives"])
    w = dict(d)
    if n >= 2:
        flip = set(rng.sample(range(n), rng.randint(1, n - 1)))
    else:
        flip = {0}
    w["objectives"] = [(-o if j in flip else o) for j, o in enumerate(d["objectives"])]
    if reweigh:
        ws = list(d["weights"])
        w["weights"] = ws[1:] + ws[:1]
    return w


def varied(rng, d):
    """same shape, labels and objectives, other values: rows rotated and rescaled by powers of two"""
    w = dict(d)
    rows = [list(r) for r in d["matrix"]]
    k = rng.randint(1, max(1, len(rows) - 1))
    rows = rows[k:] + rows[:k]
    w["matrix"] = [[(None if v is None else v * (2.0 if (i + j) % 3 == 0 else 0.5 if (i + j) % 3 == 1 else 1.0)) for j, v in enumerate(r)]
                   for i, r in enumerate(rows)]
    w["int_matrix"] = False
    return w


def gen_warm(rng, d, last=None):
    """one or two matrices the object is used on BEFORE the one it is judged on; `last` forces the kind of the last one"""
    kinds = [rng.choice(["flip", "same", "other", "flipw"]) for _ in range(rng.randint(1, 2))]
    if last:
        kinds[-1] = last
    out = []
    for k in kinds:
        out.append(flipped(rng, d) if k == "flip" else flipped(rng, d, True) if k == "flipw" else varied(rng, d) if k == "other" else dict(d))
    return kinds, out


def gen_used(rng, flavour):
    """a method object / pipeline that has been applied to one or two matrices before it is copied, rebuilt and applied
    to the matrix of the case.  flavour: 'critic' | 'imputer' | 'any'"""
    as_pipe = rng.random() < 0.55
    if flavour == "critic":
        d = gen_dm(rng, min_m=4, max_m=9, min_n=2, max_n=5, mix=rng.choice([None, None, "max"]))
        r = rng.random()
        ckw = [] if r < 0.45 else [["correlation", S(rng.choice(["pearson", "spearman", "kendall"]))]] if r < 0.75 else \
            [["scale", True], ["correlation", S(rng.choice(["pearson", "spearman"]))]] if r < 0.9 else [["scale", rng.random() < 0.5]]
        critic = {"cls": rng.choice(["CRITIC", "CRITIC", "CRITIC", "Critic"]), "kw": ckw}
        if as_pipe:
            chain = gen_chain(rng, d, rng.randint(1, 4))
            pos = rng.choice([0, 0, rng.randint(0, len(chain) - 1)])
            chain = chain[:pos] + [critic] + chain[pos:]
            steps = nest(rng, chain)
        else:
            steps = [critic]
        kinds, warm = gen_warm(rng, d, last=rng.choice(["flip", "flip", "flipw", None]))
    elif flavour == "imputer":
        d = gen_dm(rng, min_m=6, max_m=10, min_n=3, max_n=5, frac_part=True)
        low = min(v for r in d["matrix"] for v in r)
        chain = [s for s in gen_chain(rng, d, rng.randint(2, 4)) if not s.get("cls", "").startswith("Filter")] if as_pipe else []
        punch_nans(rng, d)
        kw = gen_stochastic_imputer(rng, len(d["criteria"]))
        if as_pipe or rng.random() < 0.5:
            kw.append(["min_value", Fl(low / 2)])  # imputed cells stay positive: the steps that follow keep their domain
        imp = {"cls": "IterativeImputer", "kw": kw}
        if as_pipe and rng.random() < 0.25:  # a second imputer never sees a missing cell
            chain = chain[:-1] + [{"cls": rng.choice(["SimpleImputer", "KNNImputer"]), "kw": []}] + chain[-1:]
        steps = nest(rng, [imp] + chain) if as_pipe else [imp]
        kinds, warm = gen_warm(rng, d, last=rng.choice(["same", "other", None]))
    else:
        if as_pipe:
            d = gen_dm(rng, min_m=4, max_m=10)
            steps = nest(rng, gen_chain(rng, d, rng.randint(2, 5)))
        else:
            cls = rng.choice(USED_ANY)
            d = dm_for_class(rng, cls)
            entries = [e for e in CANON[cls](rng, d) if ["random_state", None] not in e[0]]
            steps = [{"cls": cls, "kw": rng.choice(entries)[0]}]
        kinds, warm = gen_warm(rng, d)
    if "SIMUS" in _flat_classes(steps):  # (an LP per criterion and per application: kept to the pipeline cases)
        return gen_used(rng, flavour)
    return {"kind": "used", "flavour": flavour, "pipe": as_pipe, "steps": steps, "warm": warm, "warm_kinds": kinds, "dm": d}


def _flat_classes(steps):
    out = []
    for s in steps:
        if "pipe" in s:
            out += _flat_classes(s["pipe"])
        else:
            out.append(s.get("cls") or "user:" + s["user"]["name"])
    return out


def gen(ctx):
    import extract as X

    rng = ctx.rng
    cases = []
    # (the K4 inputs are corpus cases: corpus/C16/k4-*.json run first on every invocation)
    # ---- methods: every class of the generated table x every canonical entry
    table = [c.__name__ for c in X.method_classes()]
    missing = [c for c in table if c not in CANON]
    if missing:
        raise RuntimeError("no canonical constructor arguments for class(es) %s: add them to CANON in harness/props/c16.py" % missing)
    reps = ctx.n(1, 6)
    for cls in table:
        for rep in range(reps):
            d = dm_for_class(rng, cls)
            entries = CANON[cls](rng, d)
            for idx, (kw, ov, canonical) in enumerate(entries):
                # the later life of the same instance: its own override first, the overrides of the other entries after it
                pool = [(ov, canonical)] + [(o2, c2) for j, (_, o2, c2) in enumerate(entries) if j != idx]
                cases.append({"kind": "method", "cls": cls, "kw": kw, "override": ov, "canonical": canonical, "dm": d,
                              "seq": gen_seq(rng, pool)})
                if cls == "SIMUS" and rep > 0:
                    break
            if cls in ("SIMUS", "IterativeImputer") and rep >= 1:
                break
    for cls, kw in REFUSALS:
        cases.append({"kind": "refusal", "cls": cls, "kw": kw})
    # ---- mkagg / mktransformer classes
    for _ in range(ctx.n(30, 400)):
        hp = rng.sample(HP_POOL, rng.randint(0, 4))
        names = [k for k, _ in hp]
        kw = [[k, rng.choice([Fl(rng.randint(1, 8) / 4), I(rng.randint(0, 3)), S("yy"), False, rng.choice(FALSY)])] for k in names if rng.random() < 0.5]
        def mk_ov(p=0.5):
            return [[k, rng.choice([Fl(rng.randint(1, 8) / 4), I(rng.randint(4, 6)), S("zzz"), True, rng.choice(FALSY)])] for k in names if rng.random() < p]

        ov = mk_ov()
        if rng.random() < 0.08:
            kw.append(["nosuch", I(1)])
        cases.append({"kind": "mk", "user": {"maker": rng.choice(["agg", "trans"]), "name": rng.choice(["UserM", "Foo", "Foo_1"]),
                                            "hparams": [[k, v] for k, v in hp]},
                      "kw": kw, "override": ov, "dm": gen_dm(rng, mix="max"),
                      "seq": gen_seq(rng, [(ov, True), (mk_ov(0.7), True), (mk_ov(0.7), True)])})
    cases.extend(gen_mk_falsy(rng, ctx.n(1, 4)))
    # ---- pipelines
    for _ in range(ctx.n(110, 2600)):
        d = gen_dm(rng, min_m=4, max_m=10)
        chain = gen_chain(rng, d, rng.randint(2, 6))
        if chain[-1]["cls"] == "SIMUS":
            d = gen_dm(rng, m=rng.randint(3, 4), n=rng.randint(2, 3))
            d["objectives"][0] = d["objectives"][1] = 1
            chain = [s for s in chain if not s.get("cls", "").startswith("Filter")]
        if rng.random() < 0.12:  # user-made classes as steps, after the filters (they rescale the matrix by a positive
            # factor and shift); their lower-cased names may collide with generated suffixes
            u = {"maker": "trans", "name": rng.choice(["Foo", "Foo_1", "Bar"]), "hparams": [["alpha", Fl(0.5)]]}
            chain = chain[:-1] + [{"user": u, "kw": []}] * rng.randint(1, 2) + chain[-1:]
        steps = nest(rng, chain)
        cases.append({"kind": "pipe", "steps": steps, "dm": d})
    # ---- objects that were used before they are copied / rebuilt / applied again (a fixed share of every run)
    for flavour, k in (("critic", ctx.n(40, 500)), ("imputer", ctx.n(36, 400)), ("any", ctx.n(40, 600))):
        for _ in range(k):
            cases.append(gen_used(rng, flavour))
    # ---- names
    for _ in range(ctx.n(160, 4000)):
        cases.append({"kind": "unames", "names": gen_names(rng), "via": rng.choice(["function", "function", "mkpipe"])})
    # ---- traces
    for _ in range(ctx.n(220, 5000)):
        cases.append(gen_trace(rng))
    return cases


def search_gen(sctx):
    """after a broken proof / correspondence: look for a failing input with the property oracles"""
    return gen(sctx)


# =========================================================================== observe


def observe(case):
    with M.quiet():
        import warnings

        with warnings.catch_warnings(record=True):
            return {"pipe": obs_pipe, "method": obs_method, "refusal": obs_refusal, "mk": obs_method, "unames": obs_unames,
                    "trace": obs_trace, "used": obs_used}[case["kind"]](case)


def _manual_T(step, dm):
    from skcriteria.pipeline import SKCPipeline

    if isinstance(step, SKCPipeline):
        for _, s in step.steps[:-1]:
            dm = _manual_T(s, dm)
        return dm
    return step.transform(dm)


def _manual_E(step, dm):
    from skcriteria.pipeline import SKCPipeline

    if isinstance(step, SKCPipeline):
        for _, s in step.steps[:-1]:
            dm = _manual_T(s, dm)
        return _manual_E(step.steps[-1][1], dm)
    return step.evaluate(dm)


def obs_pipe(case):
    from skcriteria.pipeline import mkpipe

    dm = mkdm(case["dm"])
    try:
        steps = [build_obj(s) for s in case["steps"]]
    except Exception as e:
        return {"err": G.err_name(e), "stage": "build", "msg": str(e)[:200]}
    o = {"n": len(steps), "lnames": [type(s).__name__.lower() for s in steps]}
    try:
        pipe = mkpipe(*steps)
    except Exception as e:
        return {"err": G.err_name(e), "stage": "mkpipe", "msg": str(e)[:200]}
    names = [n for n, _ in pipe.steps]
    o["names"] = names
    o["steps_are"] = [a is b for (_, a), b in zip(pipe.steps, steps)] if len(pipe.steps) == len(steps) else None
    named = []
    for n, s in zip(names, steps):
        try:
            named.append(pipe.named_steps[n] is s and pipe[n] is s)
        except Exception as e:
            named.append(G.err_name(e))
    o["named_is"] = named
    o["index_is"] = [outcome(lambda i=i: pipe[i])[1] is s for i, s in enumerate(steps)]
    o["neg_index_is"] = outcome(lambda: pipe[-1])[1] is steps[-1]
    o["len"] = len(pipe)
    # manual composition: prefixes d_0 .. d_{n-1}
    prefixes = [("ok", dm)]
    for s in steps[:-1]:
        prev = prefixes[-1]
        prefixes.append(outcome(_manual_T, s, prev[1]) if prev[0] == "ok" else prev)
    last_in = prefixes[-1]
    man_T = last_in
    man_E = outcome(_manual_E, steps[-1], last_in[1]) if last_in[0] == "ok" else last_in
    pipe_T = outcome(pipe.transform, dm)
    pipe_E = outcome(pipe.evaluate, dm)
    o["manual_T"], o["pipe_T"] = ocanon(man_T), ocanon(pipe_T)
    o["manual_E"], o["pipe_E"] = ocanon(man_E), ocanon(pipe_E)
    if o["manual_E"] != o["pipe_E"]:
        o["detail_E"] = [brief(man_E), brief(pipe_E)]
    if o["manual_T"] != o["pipe_T"]:
        o["detail_T"] = [brief(man_T), brief(pipe_T)]
    o["ran"] = pipe_E[0] == "ok"
    # split points
    splits = []
    for k in range(len(steps)):
        rec = {"k": k}
        sub = outcome(lambda k=k: pipe[k:])
        if sub[0] == "err":
            rec["suffix"] = {"err": sub[1]}
        else:
            rec["suffix_steps_ok"] = [(n, id(s)) for n, s in sub[1].steps] == [(n, id(s)) for n, s in pipe.steps[k:]]
            if prefixes[k][0] == "ok":
                r = outcome(sub[1].evaluate, prefixes[k][1])
                rec["suffix"] = ocanon(r)
                if rec["suffix"] != o["pipe_E"]:
                    rec["detail"] = brief(r)
            else:
                rec["suffix"] = "prefix-failed"
        pre = outcome(lambda k=k: pipe[: k + 1])
        rec["prefix_accepted"] = pre[0] == "ok"
        rec["prefix_err"] = pre[1] if pre[0] == "err" else None
        rec["step_has_evaluate"] = callable(getattr(steps[k], "evaluate", None))
        if pre[0] == "ok":
            rec["prefix_T"] = ocanon(outcome(pre[1].transform, dm))
            rec["manual_prefix"] = ocanon(prefixes[k])
        splits.append(rec)
    o["splits"] = splits
    o["empty_slice"] = outcome(lambda: pipe[len(steps):])[1] if outcome(lambda: pipe[len(steps):])[0] == "err" else "accepted"
    o["step2_slice"] = outcome(lambda: pipe[::2])[1] if outcome(lambda: pipe[::2])[0] == "err" else "accepted"
    # the pipeline as a method
    P0 = enc_params_ids(pipe)
    c1 = outcome(pipe.copy)
    c2 = outcome(lambda: type(pipe)(**pipe.get_parameters()))
    o["copy_params_eq"] = c1[0] == "ok" and enc_params_ids(c1[1], same_as=pipe) == P0
    o["rebuild_params_eq"] = c2[0] == "ok" and enc_params_ids(c2[1], same_as=pipe) == P0
    o["copy_out_eq"] = c1[0] == "ok" and ocanon(outcome(c1[1].evaluate, dm)) == o["pipe_E"]
    o["rebuild_out_eq"] = c2[0] == "ok" and ocanon(outcome(c2[1].evaluate, dm)) == o["pipe_E"]
    if len(steps) >= 2:
        newsteps = pipe.steps[1:]
        c3 = outcome(lambda: pipe.copy(steps=newsteps))
        o["override_ok"] = c3[0] == "ok" and [(n, type(s).__name__, enc_params_ids(s)) for n, s in c3[1].steps] == \
            [(n, type(s).__name__, enc_params_ids(s)) for n, s in newsteps]
    # later in the life of the same pipeline object: a write into a returned parameter dictionary, a second override
    # copy with other steps, then get_parameters() / copy() / rebuild once more
    g = outcome(pipe.get_parameters)
    if g[0] == "ok":
        for v in list(g[1].values()):
            _scribble(v)
        g[1][_JUNK] = 1
    laststeps = pipe.steps[-1:]
    c4 = outcome(lambda: pipe.copy(steps=laststeps))
    o["override2_ok"] = c4[0] == "ok" and [(n, type(s).__name__, enc_params_ids(s)) for n, s in c4[1].steps] == \
        [(n, type(s).__name__, enc_params_ids(s)) for n, s in laststeps]
    o["late_params_eq"] = outcome(enc_params_ids, pipe) == ("ok", P0)
    c5 = outcome(pipe.copy)
    c6 = outcome(lambda: type(pipe)(**pipe.get_parameters()))
    o["late_copy_params_eq"] = c5[0] == "ok" and outcome(enc_params_ids, c5[1]) == ("ok", P0)
    o["late_rebuild_params_eq"] = c6[0] == "ok" and outcome(enc_params_ids, c6[1]) == ("ok", P0)
    o["late_copy_out_eq"] = c5[0] == "ok" and ocanon(outcome(c5[1].evaluate, dm)) == o["pipe_E"]
    o["late_rebuild_out_eq"] = c6[0] == "ok" and ocanon(outcome(c6[1].evaluate, dm)) == o["pipe_E"]
    return o


def _copied_T(step, dm):
    """the transformers of `step` in order, each one through a copy() of it made now"""
    from skcriteria.pipeline import SKCPipeline

    if isinstance(step, SKCPipeline):
        for _, s in step.steps[:-1]:
            dm = _copied_T(s, dm)
        return dm
    return step.copy().transform(dm)


def _copied_E(step, dm):
    from skcriteria.pipeline import SKCPipeline

    if isinstance(step, SKCPipeline):
        for _, s in step.steps[:-1]:
            dm = _copied_T(s, dm)
        return _copied_E(step.steps[-1][1], dm)
    return step.copy().evaluate(dm)


def obs_used(case):
    """one object m (a method or a pipeline) is APPLIED to the warm-up matrices first; everything that is compared is made
    and run after that, on the matrix of the case"""
    from skcriteria.pipeline import mkpipe

    try:  # scikit-learn keeps IterativeImputer behind an explicit opt-in import
        import sklearn.experimental.enable_iterative_imputer  # noqa: F401
    except Exception:
        pass
    dm = mkdm(case["dm"])
    try:
        steps = [build_obj(s) for s in case["steps"]]
        m = mkpipe(*steps) if case["pipe"] else steps[0]
    except Exception as e:
        return {"err": G.err_name(e), "stage": "build", "msg": str(e)[:200]}
    o = {}
    P0 = outcome(enc_params_ids, m)
    o["warm"] = []
    for w in case["warm"]:
        r = _run_output(m, mkdm(w))
        o["warm"].append("ok" if r[0] == "ok" else r[1])
    o["params_kept"] = outcome(enc_params_ids, m) == P0
    made = [("copy", "m.copy()", outcome(m.copy)),
            ("same", "m.copy(**m.get_parameters())", outcome(lambda: m.copy(**m.get_parameters()))),
            ("rebuild", "type(m)(**m.get_parameters())", outcome(lambda: type(m)(**m.get_parameters())))]
    if not case["pipe"]:
        one = sorted(m.get_parameters())[:1]
        if one:
            made.append(("same1", "m.copy(%s=<its current value>)" % one[0], outcome(lambda: m.copy(**{one[0]: m.get_parameters()[one[0]]}))))
    out0 = _run_output(m, dm)
    o["out0"] = ocanon(out0)
    o["ran"] = out0[0] == "ok"
    o["made"] = []
    for tag, how, c in made:
        rec = {"tag": tag, "how": how}
        if c[0] == "err":
            rec["err"] = c[1]
        else:
            rec["type"] = type(c[1]) is type(m)
            rec["params_eq"] = outcome(enc_params_ids, c[1]) == P0
            r = _run_output(c[1], dm)
            rec["out"] = ocanon(r)
            if rec["out"] != o["out0"]:
                rec["detail"] = [brief(out0), brief(r)]
        o["made"].append(rec)
    # the object applied once more: its copies (made before) were compared with the first application
    again = _run_output(m, dm)
    o["again"] = ocanon(again)
    if o["again"] != o["out0"]:
        o["detail_again"] = [brief(out0), brief(again)]
    if case["pipe"]:
        pipe = m
        prefixes = [("ok", dm)]
        for s in steps[:-1]:
            prev = prefixes[-1]
            prefixes.append(outcome(_manual_T, s, prev[1]) if prev[0] == "ok" else prev)
        last_in = prefixes[-1]
        man_E = outcome(_manual_E, steps[-1], last_in[1]) if last_in[0] == "ok" else last_in
        o["manual_E"] = ocanon(man_E)
        if o["manual_E"] != o["out0"]:
            o["detail_manual"] = [brief(man_E), brief(out0)]
        pipe_T = outcome(pipe.transform, dm)
        o["pipe_T"], o["manual_T"] = ocanon(pipe_T), ocanon(last_in)
        splits = []
        for k in range(len(steps)):
            rec = {"k": k}
            sub = outcome(lambda k=k: pipe[k:])
            if sub[0] == "err":
                rec["suffix"] = {"err": sub[1]}
            elif prefixes[k][0] == "ok":
                r = outcome(sub[1].evaluate, prefixes[k][1])
                rec["suffix"] = ocanon(r)
                if rec["suffix"] != o["out0"]:
                    rec["detail"] = brief(r)
            else:
                rec["suffix"] = "prefix-failed"
            splits.append(rec)
        o["splits"] = splits
        cop_E = outcome(_copied_E, pipe, dm)
        o["copied_E"] = ocanon(cop_E)
        if o["copied_E"] != o["out0"]:
            o["detail_copied"] = [brief(cop_E), brief(out0)]
    return o


def enc_params_ids(m, same_as=None):
    """structural parameters of a method object: nested methods by (class name, parameters), recursively"""
    def enc_any(v):
        if _is_method(v):
            return {"cls": type(v).__name__, "params": enc_params_ids(v)}
        if isinstance(v, (list, tuple)):
            return [enc_any(x) for x in v]
        if isinstance(v, dict):
            return {str(k): enc_any(x) for k, x in v.items()}
        if isinstance(v, np.ndarray):
            return ["arr"] + [enc_atom(x) for x in v.tolist()]
        return enc_atom(v)
    return [[k, enc_any(v)] for k, v in sorted(m.get_parameters().items())]


def _run_output(m, dm):
    if callable(getattr(m, "evaluate", None)) and not (callable(getattr(m, "transform", None)) and False):
        return outcome(m.evaluate, dm)
    return outcome(m.transform, dm)


def obs_method(case):
    import inspect

    if case["kind"] == "mk":
        cls = make_user_class(case["user"])
    else:
        cls = class_table()[case["cls"]]
        if case["cls"] == "IterativeImputer":
            try:  # scikit-learn keeps this estimator behind an explicit opt-in import
                import sklearn.experimental.enable_iterative_imputer  # noqa: F401
            except Exception:
                pass
    try:
        kw = {k: dec(v, k) for k, v in case["kw"]}
        ov = {k: dec(v, k) for k, v in case["override"]}
    except Exception as e:
        return {"_harness_error": "cannot decode arguments: %s" % e}
    ctor = outcome(lambda: cls(**kw))
    if ctor[0] == "err":
        return {"err": ctor[1], "stage": "ctor"}
    m = ctor[1]
    twin = outcome(_copy.deepcopy, m)  # the object before anything was asked of it (no get_parameters / copy involved)
    init_names = [p.name for p in inspect.signature(cls.__init__).parameters.values()
                  if p.name != "self" and p.kind not in (p.VAR_POSITIONAL, p.VAR_KEYWORD)]
    readable = [p for p in init_names if _readable(m, p)]
    o = {"declared": sorted(getattr(cls, "_skcriteria_parameters", [])), "init": init_names, "readable": readable}
    gp = outcome(m.get_parameters)
    if gp[0] == "err":
        o["get_parameters_err"] = gp[1]
        return o
    o["P0"], o["A0"] = enc_params(m), enc_attrs(m, readable)
    c1 = outcome(m.copy)
    c2 = outcome(lambda: type(m)(**m.get_parameters()))
    c3 = outcome(lambda: m.copy(**ov))
    direct = None
    if c3[0] == "ok":
        # an object built directly with the merged arguments (before anything runs: a generator parameter has state)
        merged = dict(m.get_parameters())
        merged.update(ov)
        direct = outcome(lambda: cls(**merged))
    for tag, c in (("1", c1), ("2", c2), ("3", c3)):
        if c[0] == "err":
            o["err" + tag] = c[1]
        else:
            o["P" + tag], o["A" + tag] = enc_params(c[1]), enc_attrs(c[1], readable)
            o["type" + tag] = type(c[1]) is type(m)
    # the later life of the SAME instance (all of it before anything runs: a generator parameter has state)
    late = None
    if case.get("seq"):
        o["seq"], late = _run_seq(m, cls, case, readable)
    dm = mkdm(case["dm"])
    out0 = _run_output(m, dm)
    o["out0"] = ocanon(out0)
    o["ran"] = out0[0] == "ok"
    for tag, c in (("1", c1), ("2", c2)):
        if c[0] == "ok":
            r = _run_output(c[1], dm)
            o["out" + tag] = ocanon(r)
            if o["out" + tag] != o["out0"]:
                o["detail" + tag] = [brief(out0), brief(r)]
    if c3[0] == "ok":
        if direct[0] == "ok":
            r3 = _run_output(c3[1], dm)
            o["out3"] = ocanon(r3)
            o["out3_direct"] = ocanon(_run_output(direct[1], dm))
            if case["kind"] == "mk":
                o["num3"] = user_numbers(case["user"], r3)
                o["fn3"] = user_expected(case["user"], list(case["kw"]) + list(case["override"]), dm)
    if case["kind"] == "mk":
        # the plain function under the hyper-parameters the object was asked to hold, next to what the object computes
        o["num0"] = user_numbers(case["user"], out0)
        o["fn0"] = user_expected(case["user"], case["kw"], dm)
        o["intended"] = sorted([k, v] for k, v in dict([(k, v) for k, v in case["user"]["hparams"]] + [(k, v) for k, v in case["kw"]]).items())
    if late is not None:
        for tag, c in (("late_copy", late[0]), ("late_rebuild", late[1])):
            if c is not None and c[0] == "ok":
                r = _run_output(c[1], dm)
                o["out_" + tag] = ocanon(r)
                if o["out_" + tag] != o["out0"]:
                    o["detail_" + tag] = [brief(out0), brief(r)]
        if twin[0] == "ok":
            r = _run_output(twin[1], dm)
            o["out_twin"] = ocanon(r)
            if o["out_twin"] != o["out0"]:
                o["detail_twin"] = [brief(r), brief(out0)]
    return o


_JUNK = "_verif_no_such_parameter_"


def _scribble(v):
    """change a value taken from a returned parameter dictionary in place (the dictionary holds deep copies)"""
    if isinstance(v, dict):
        for x in list(v.values()):
            _scribble(x)
        v.clear()
        v[_JUNK] = 0
    elif isinstance(v, list):
        v.clear()
    elif isinstance(v, np.ndarray) and v.dtype.kind in "fiub" and v.flags.writeable:
        v[...] = 0
    elif isinstance(v, np.random.Generator):
        v.random()


def _snapshot(c, cls, readable):
    if c[0] == "err":
        return {"err": c[1]}
    return {"P": enc_params(c[1]), "A": enc_attrs(c[1], readable), "type": type(c[1]) is cls}


def _run_seq(m, cls, case, readable):
    """run case["seq"] on the one instance m; after every op: what m says about itself, m.copy(), the rebuilt object.
    Returns (records, (last copy, last rebuilt object))"""
    recs = []
    last = (None, None)
    for op in case["seq"]:
        rec = {"op": op["op"]}
        if op["op"] == "copy":
            ov = {k: dec(v, k) for k, v in op["ov"]}
            rec["copy"] = _snapshot(outcome(lambda: m.copy(**ov)), cls, readable)
            if "err" in rec["copy"]:
                # is it the class that refuses these arguments together? (built from the case's own arguments, afresh)
                args = {k: dec(v, k) for k, v in case["kw"]}
                args.update({k: dec(v, k) for k, v in op["ov"]})
                d = outcome(lambda: cls(**args))
                rec["direct"] = {"err": d[1]} if d[0] == "err" else {"built": True}
        else:
            g = outcome(m.get_parameters)
            if g[0] == "err":
                rec["gp_err"] = g[1]
            elif op["op"] == "gpset":
                g[1].update({k: dec(v, k) for k, v in op["ov"]})
            elif op["op"] == "gpjunk":
                for v in list(g[1].values()):
                    _scribble(v)
                g[1][_JUNK] = 1
            elif op["op"] == "gpclear":
                g[1].clear()
        pm = outcome(enc_params, m)
        after = {"P": pm[1] if pm[0] == "ok" else {"err": pm[1]}, "A": enc_attrs(m, readable)}
        c1 = outcome(m.copy)
        c2 = outcome(lambda: type(m)(**m.get_parameters()))
        after["copy"], after["rebuild"] = _snapshot(c1, cls, readable), _snapshot(c2, cls, readable)
        rec["after"] = after
        last = (c1, c2)
        recs.append(rec)
    return recs, last


def _readable(m, p):
    try:
        getattr(m, p)
        return True
    except Exception:
        return False


def obs_refusal(case):
    cls = class_table()[case["cls"]]
    try:
        kw = {k: dec(v, k) for k, v in case["kw"]}
    except Exception as e:
        return {"_harness_error": "cannot decode arguments: %s" % e}
    c = outcome(lambda: cls(**kw))
    if c[0] == "err":
        return {"err": c[1]}
    return {"built": True, "P0": enc_params(c[1])}


def obs_unames(case):
    from skcriteria.utils.unames import unique_names

    names = list(case["names"])
    if case.get("via") == "mkpipe":
        from skcriteria.pipeline import mkpipe

        body_t = {"transform": lambda self, dm: dm}
        body_d = {"evaluate": lambda self, dm: dm}
        objs = [type(n, (_Rec,), body_t if i < len(names) - 1 else body_d)() for i, n in enumerate(names)]
        lnames = [type(x).__name__.lower() for x in objs]
        p = outcome(lambda: mkpipe(*objs))
        if p[0] == "err":
            return {"err": p[1], "input": lnames}
        pipe = p[1]
        out = [n for n, _ in pipe.steps]
        own = []
        for n, x in zip(out, objs):
            try:
                own.append(pipe.named_steps[n] is x)
            except Exception as e:
                own.append(G.err_name(e))
        return {"input": lnames, "names": out, "elements_in_order": [s is x for (_, s), x in zip(pipe.steps, objs)], "resolves": own}
    elements = [object() for _ in names]
    r = outcome(lambda: unique_names(names=names, elements=elements))
    if r[0] == "err":
        return {"err": r[1], "input": names}
    pairs = r[1]
    d = dict(pairs)
    return {"input": names, "names": [n for n, _ in pairs], "elements_in_order": [e is x for (_, e), x in zip(pairs, elements)],
            "resolves": [d.get(n) is x for (n, _), x in zip(pairs, elements)],
            "mismatch_err": outcome(lambda: unique_names(names=names + ["extra"], elements=elements))[1]
            if outcome(lambda: unique_names(names=names + ["extra"], elements=elements))[0] == "err" else "accepted"}


def _probe(x):
    out = {}
    for key, meth in (("t", "transform"), ("e", "evaluate")):
        f = getattr(x, meth, None)
        if not callable(f):
            out[key] = None
            continue
        try:
            out[key] = {"trace": list(f(["probe"]))}
        except Exception as e:
            out[key] = {"err": err_of(e)}
    return out


def obs_trace(case):
    from skcriteria.pipeline import SKCPipeline

    try:
        pipe = SKCPipeline([(s["name"], make_mock(s)) for s in case["steps"]])
    except Exception as e:
        return {"err": err_of(e), "stage": "construct"}
    prog = case["program"]
    try:
        for op in prog:
            if op == "evaluate":
                return {"trace": list(pipe.evaluate(["in"])), "oracle": _trace_oracle(pipe, True)}
            if op == "transform":
                return {"trace": list(pipe.transform(["in"])), "oracle": _trace_oracle(pipe, False)}
            if op == "len":
                return {"len": len(pipe)}
            if op == "names":
                return {"pipe": [n for n, _ in pipe.steps]}
            if "slice" in op:
                a, b, s = op["slice"]
                pipe = pipe[slice(a, b, s)]
            elif "int" in op:
                return {"step": _probe(pipe[op["int"]])}
            elif "str" in op:
                return {"step": _probe(pipe[op["str"]])}
    except Exception as e:
        return {"err": err_of(e), "oracle": None}
    return {"pipe": [n for n, _ in pipe.steps]}


def _trace_oracle(pipe, with_eval):
    """the property read directly: every transformer of steps[:-1] in order (a nested pipeline contributes its own
    transformers), then the last step's evaluate — computed from the step objects without the pipeline's methods"""
    from skcriteria.pipeline import SKCPipeline

    tr = ["in"]

    def T(s):
        nonlocal tr
        if isinstance(s, SKCPipeline):
            for _, x in s.steps[:-1]:
                T(x)
        else:
            tr = s.transform(tr)

    def E(s):
        nonlocal tr
        if isinstance(s, SKCPipeline):
            for _, x in s.steps[:-1]:
                T(x)
            E(s.steps[-1][1])
        else:
            tr = s.evaluate(tr)

    try:
        for _, s in pipe.steps[:-1]:
            T(s)
        if with_eval:
            E(pipe.steps[-1][1])
    except Exception as e:
        return {"err": err_of(e)}
    return {"trace": list(tr)}


# =========================================================================== requests / judge


def requests(case, obs):
    k = case["kind"]
    if k == "unames":
        return [{"op": "unames", "names": obs["input"]}] if "input" in obs else []
    if k == "trace":
        return [{"op": "pipe-trace", "steps": case["steps"], "program": case["program"]}]
    if k in ("method", "refusal", "mk"):
        head = {"cls": case["cls"]} if k != "mk" else {"hparams": case["user"]["hparams"]}
        reqs = [dict(op="ctor", kw=case["kw"], copy=None, **head)]
        if k != "refusal":
            reqs.append(dict(op="ctor", kw=case["kw"], copy=[], **head))
            reqs.append(dict(op="ctor", kw=case["kw"], copy=case["override"], **head))
            # the model is a pure function: an override copy taken later in the life of m is copy(ov) of the same object
            for op in case.get("seq", []) if "seq" in obs else []:
                if op["op"] == "copy":
                    reqs.append(dict(op="ctor", kw=case["kw"], copy=op["ov"], **head))
        return reqs
    if k == "pipe":
        return [{"op": "unames", "names": obs["lnames"]}] if "lnames" in obs else []
    return []


def _k4_shape(names):
    """the clash: a repeated name n together with an existing (once-occurring) name n_k, 1 <= k <= count(n)"""
    from collections import Counter

    cnt = Counter(names)
    for n, c in cnt.items():
        if c > 1:
            for k in range(1, c + 1):
                if cnt.get("%s_%d" % (n, k), 0) == 1:
                    return True
    return False


def _seq_text(ops):
    def one(op):
        if op["op"] == "copy":
            return "m.copy(**%s)" % json.dumps(dict(op["ov"]), sort_keys=True)
        if op["op"] == "gpset":
            return "m.get_parameters().update(%s)" % json.dumps(dict(op["ov"]), sort_keys=True)
        if op["op"] == "gpjunk":
            return "g = m.get_parameters(); <values of g changed in place>; g[%r] = 1" % _JUNK
        return "m.get_parameters().clear()"
    return "; ".join(one(op) for op in ops)


def _judge_seq(case, obs, replies, name, prop, corr):
    """override copies, and copy() / rebuild / get_parameters() after them, on ONE instance: the property at every
    moment of the life of m.  Stops at the first op after which something is wrong (what follows is a consequence)."""
    seq, recs = case.get("seq", []), obs.get("seq", [])
    if not recs:
        return
    P0, A0 = obs["P0"], obs["A0"]
    P0d = dict((k, v) for k, v in P0)
    A0d = dict((k, json.dumps(v)) for k, v in A0)
    ri = 0
    for i, (op, rec) in enumerate(zip(seq, recs)):
        before = _seq_text(seq[:i])
        found = []

        def P(what, expected=None, observed=None):
            found.append(what)
            prop("%s: %s" % (name, what), expected, observed)

        if op["op"] == "copy":
            reply = replies[ri] if ri < len(replies) else {}
            ri += 1
            ov = dict((k, v) for k, v in op["ov"])
            c = rec["copy"]
            how = "copy(**%s)%s" % (json.dumps(ov, sort_keys=True), (" made after [%s]" % before) if before else "")
            if "err" in c:
                if rec.get("direct", {}).get("built"):
                    P("%s raised %s although %s(<the same arguments>) can be built" % (how, c["err"], case.get("cls", "the class")),
                      op["ov"], c["err"])
                if reply.get("err") != c["err"]:
                    corr("%s: %s refusal, model vs implementation" % (name, how), reply, c["err"])
            else:
                Pc = dict((k, v) for k, v in c["P"])
                extra = sorted(k for k in P0d if Pc.get(k) != P0d[k] and k not in ov)
                if extra or set(Pc) != set(P0d):
                    P("%s changed parameters that were not overridden: %s" % (how, extra or sorted(set(Pc) ^ set(P0d))),
                      {"override": op["ov"], "before": P0}, c["P"])
                if not c["type"]:
                    P("%s changed the class" % how)
                if op.get("canonical", True):
                    wrong = [k for k in ov if k in Pc and Pc[k] != ov[k]]
                    if wrong:
                        P("%s did not store the overriding value of %s" % (how, wrong), op["ov"], c["P"])
                Ac = dict((k, json.dumps(v)) for k, v in c["A"])
                moved = [k for k in A0d if Ac.get(k) != A0d[k] and k not in ov]
                if moved:
                    P("%s changed exposed constructor arguments that were not overridden: %s" % (how, moved), A0, c["A"])
                if "err" in reply or sorted(reply.get("params", [])) != c["P"]:
                    corr("%s: parameters after %s, model vs implementation" % (name, how), reply, c["P"])
        elif "gp_err" in rec:
            P("get_parameters() raised %s after [%s]" % (rec["gp_err"], before), P0, rec["gp_err"])
        after = rec["after"]
        hist = _seq_text(seq[: i + 1])
        if after["P"] != P0:
            P("m.get_parameters() no longer gives the parameters m was built with, after [%s]" % hist, P0, after["P"])
        if after["A"] != A0:
            P("the constructor arguments m exposes changed after [%s]" % hist, A0, after["A"])
        for key, what in (("copy", "m.copy()"), ("rebuild", "type(m)(**m.get_parameters())")):
            c = after[key]
            if "err" in c:
                P("%s raised %s after [%s]" % (what, c["err"], hist), P0, c["err"])
                continue
            if not c["type"]:
                P("%s changed the class after [%s]" % (what, hist))
            if c["P"] != P0:
                P("%s after [%s] does not have the parameters of m" % (what, hist), P0, c["P"])
            if c["A"] != A0:
                P("%s after [%s] changed a constructor argument that the object exposes" % (what, hist), A0, c["A"])
        if found:
            return
    hist = _seq_text(seq)
    for key, what in (("late_copy", "m.copy()"), ("late_rebuild", "type(m)(**m.get_parameters())")):
        if "out_" + key in obs and obs["out_" + key] != obs["out0"]:
            prop("%s: %s made after [%s] gives a different output on the same matrix" % (name, what, hist),
                 *obs.get("detail_" + key, [obs["out0"], obs["out_" + key]]))
    if "out_twin" in obs and obs["out_twin"] != obs["out0"]:
        prop("%s: the output of m itself changed after [%s] (compared with a deep copy of m taken before)" % (name, hist),
             *obs.get("detail_twin", [obs["out_twin"], obs["out0"]]))


def judge(case, obs, replies):
    out = []
    kind = case["kind"]

    def prop(what, expected=None, observed=None, identity=None):
        f = {"kind": "property", "what": what, "expected": expected, "observed": observed}
        if identity:
            f["identity"] = identity
        out.append(f)

    def corr(what, expected=None, observed=None):
        out.append({"kind": "correspondence", "what": what, "expected": expected, "observed": observed})

    if kind == "unames":
        if "err" in obs:
            prop("unique_names / mkpipe refused a list of names with %s" % obs["err"], None, obs.get("input"))
            return out
        names, inp = obs["names"], obs["input"]
        if len(names) != len(inp) or not all(x is True for x in obs["elements_in_order"]):
            prop("unique_names does not pair the i-th element with the i-th name", inp, names)
        if len(set(names)) != len(names):
            prop("generated step names are not unique" + (" (a repeated name n next to an existing name n_k)" if _k4_shape(inp) else ""),
                 {"input": inp}, names)
        elif not all(x is True for x in obs["resolves"]):
            prop("a generated name does not resolve to its own element", inp, obs["resolves"])
        if obs.get("mismatch_err", "ValueError") != "ValueError":
            prop("names and elements of different lengths are not refused with ValueError", "ValueError", obs.get("mismatch_err"))
        r = replies[0]
        if r.get("names") != names:
            corr("unique_names: model vs implementation", r.get("names"), names)
        if r.get("noclash") and r.get("spec") != names:
            corr("unique_names: no clash, but the names are not the closed form n_1, n_2, ...", r.get("spec"), names)
        if r.get("noclash") != (not _k4_shape(inp)):
            corr("NoSuffixClash: model predicate vs its reading in Python", not _k4_shape(inp), r.get("noclash"))
        return out

    if kind == "trace":
        r = replies[0]
        mine = {k: v for k, v in obs.items() if k in ("err", "trace", "len", "step", "pipe")}
        if r != mine:
            corr("pipeline mechanics (construct / slice / item / evaluate / transform): model vs implementation", r, mine)
        if obs.get("oracle") is not None and "trace" in obs:
            if obs["oracle"] != {"trace": obs["trace"]}:
                prop("recording steps: the pipeline did not run each transformer in order and then the decision maker",
                     obs["oracle"], obs["trace"])
        return out

    if kind == "refusal":
        r = replies[0]
        if "err" not in obs:
            prop("constructor %s accepted arguments it documents as invalid" % case["cls"], "refusal", obs.get("P0"))
        if ("err" in r) != ("err" in obs) or ("err" in r and r["err"] != obs["err"]):
            corr("constructor %s refusal: model vs implementation" % case["cls"], r, {k: obs[k] for k in obs if k in ("err", "P0")})
        return out

    if kind in ("method", "mk"):
        name = case["cls"] if kind == "method" else case["user"]["name"] + " (" + case["user"]["maker"] + ")"
        r0, r1, r3 = replies[:3]
        if "err" in obs and obs.get("stage") == "ctor":
            if kind == "method":
                prop("%s refused its canonical arguments with %s" % (name, obs["err"]), case["kw"], obs["err"])
            if r0.get("err") != obs["err"]:
                corr("%s constructor: model vs implementation" % name, r0, obs["err"])
            return out
        if "get_parameters_err" in obs:
            prop("%s.get_parameters() raised %s" % (name, obs["get_parameters_err"]), obs["declared"], obs["readable"])
            return out
        P0 = obs["P0"]
        if "err" in r0 or sorted(r0["params"]) != P0:
            corr("%s: parameters after construction, model vs implementation" % name, r0, P0)
        if kind == "mk":
            # P = the declared defaults overlaid with the given arguments is a complete parameter dictionary (the
            # get_parameters() of the object asked for): type(m)(**P) has the parameters P and computes the function under P
            P = [[k, enc(dec(v, k))] for k, v in obs["intended"]]
            if P != P0:
                prop("%s: built from the parameter dictionary %s (declared defaults %s, given %s), get_parameters() does not give it back"
                     % (name, json.dumps(dict(P)), json.dumps(dict(case["user"]["hparams"])), json.dumps(dict(case["kw"]))), P, P0)
            elif obs.get("fn0") is not None and obs.get("num0") != obs["fn0"]:
                prop("%s: the object built with hyper-parameters %s does not give the output of its function under them" % (name, json.dumps(dict(P))),
                     obs["fn0"], obs.get("num0"))
        # --- copy() and reconstruction
        for tag, how in (("1", "copy()"), ("2", "type(m)(**m.get_parameters())")):
            if "err" + tag in obs:
                prop("%s: %s raised %s" % (name, how, obs["err" + tag]), P0, obs["err" + tag])
                continue
            if not obs["type" + tag]:
                prop("%s: %s changed the class" % (name, how))
            if obs["P" + tag] != P0:
                prop("%s: %s changed the parameters" % (name, how), P0, obs["P" + tag])
            if obs["A" + tag] != obs["A0"]:
                prop("%s: %s changed a constructor argument that the object exposes" % (name, how), obs["A0"], obs["A" + tag])
            if obs.get("out" + tag) != obs["out0"]:
                prop("%s: %s gives a different output on the same matrix" % (name, how), *obs.get("detail" + tag, [obs["out0"], obs.get("out" + tag)]))
        if "err" not in r1 and sorted(r1["params"]) != obs.get("P1", sorted(r1["params"])):
            corr("%s: parameters after copy(), model vs implementation" % name, r1, obs.get("P1"))
        # --- copy(**override)
        ov = dict((k, v) for k, v in case["override"])
        if "err3" in obs:
            if kind == "method":
                prop("%s: copy(**override) raised %s on canonical overrides" % (name, obs["err3"]), case["override"], obs["err3"])
            if r3.get("err") != obs["err3"]:
                corr("%s: copy(**override) refusal, model vs implementation" % name, r3, obs["err3"])
        else:
            P3 = dict((k, v) for k, v in obs["P3"])
            P0d = dict((k, v) for k, v in P0)
            changed = sorted(k for k in P0d if P3.get(k) != P0d[k])
            extra = [k for k in changed if k not in ov]
            if extra or set(P3) != set(P0d):
                prop("%s: copy(**override) changed parameters that were not overridden" % name, {"override": case["override"], "before": P0}, obs["P3"])
            if case.get("canonical", True):
                wrong = [k for k in ov if k in P3 and P3[k] != ov[k]]
                if wrong:
                    prop("%s: copy(**override) did not store the overriding value of %s" % (name, wrong), case["override"], obs["P3"])
            A3, A0 = dict((k, json.dumps(v)) for k, v in obs["A3"]), dict((k, json.dumps(v)) for k, v in obs["A0"])
            moved = [k for k in A0 if A3.get(k) != A0[k] and k not in ov]
            if moved:
                prop("%s: copy(**override) changed exposed constructor arguments that were not overridden: %s" % (name, moved), obs["A0"], obs["A3"])
            if "out3" in obs and obs["out3"] != obs["out3_direct"]:
                prop("%s: copy(**override) behaves differently from the object built with the same arguments" % name, obs["out3_direct"], obs["out3"])
            if kind == "mk" and obs.get("fn3") is not None and "num3" in obs and obs["num3"] != obs["fn3"]:
                prop("%s: copy(**%s) does not give the output of the function under the overridden hyper-parameters (the override is "
                     "not what the copy computes with)" % (name, json.dumps(ov, sort_keys=True)), obs["fn3"], obs["num3"])
            if "err" in r3 or sorted(r3["params"]) != obs["P3"]:
                corr("%s: parameters after copy(**override), model vs implementation" % name, r3, obs["P3"])
        # --- the same calls later in the life of the same instance
        _judge_seq(case, obs, replies[3:], name, prop, corr)
        return out

    if kind == "used":
        if "err" in obs:
            corr("harness could not build the object: %s %s" % (obs["err"], obs.get("msg")))
            return out
        name = "+".join(_flat_classes(case["steps"])) + (" (pipeline)" if case["pipe"] else "")
        used = "after m was applied to %d other matri%s (%s)" % (len(case["warm"]), "x" if len(case["warm"]) == 1 else "ces",
                                                                ", ".join(case.get("warm_kinds", [])))
        if not obs["params_kept"]:
            prop("%s: get_parameters() changed %s" % (name, used))
        for rec in obs["made"]:
            if "err" in rec:
                prop("%s: %s raised %s %s" % (name, rec["how"], rec["err"], used), None, rec["err"])
                continue
            if not rec["type"]:
                prop("%s: %s made %s changed the class" % (name, rec["how"], used))
            if not rec["params_eq"]:
                prop("%s: %s made %s does not have the parameters of m" % (name, rec["how"], used))
            if rec["out"] != obs["out0"]:
                prop("%s: %s made %s gives a different output from m on the same matrix" % (name, rec["how"], used),
                     *rec.get("detail", [obs["out0"], rec["out"]]))
        if obs["again"] != obs["out0"]:
            prop("%s: m applied once more to the same matrix gives another output than the one its copy() / rebuilt object "
                 "reproduced (%s)" % (name, used), *obs.get("detail_again", [obs["out0"], obs["again"]]))
        if case["pipe"]:
            if obs["manual_E"] != obs["out0"]:
                prop("%s: pipe.evaluate(dm) differs from each transformer in order followed by the decision maker (%s)" % (name, used),
                     *obs.get("detail_manual", [obs["manual_E"], obs["out0"]]))
            if obs["pipe_T"] != obs["manual_T"]:
                prop("%s: pipe.transform(dm) differs from applying each transformer in order (%s)" % (name, used), obs["manual_T"], obs["pipe_T"])
            for rec in obs["splits"]:
                if isinstance(rec["suffix"], dict) and "err" in rec["suffix"] and obs["ran"]:
                    prop("%s: pipe[%d:].evaluate(<output of the first %d steps>) raised %s (%s)" % (name, rec["k"], rec["k"], rec["suffix"]["err"], used),
                         obs["out0"], rec["suffix"])
                elif rec["suffix"] != "prefix-failed" and rec["suffix"] != obs["out0"]:
                    prop("%s: pipe[%d:].evaluate(<output of the first %d steps>) differs from pipe.evaluate(dm) (%s)" % (name, rec["k"], rec["k"], used),
                         obs["out0"], rec.get("detail", rec["suffix"]))
            if obs["copied_E"] != obs["out0"]:
                prop("%s: pipe.evaluate(dm) differs from the composition of copy() of each of its steps (%s)" % (name, used),
                     *obs.get("detail_copied", [obs["copied_E"], obs["out0"]]))
        return out

    if kind == "pipe":
        if "err" in obs:
            if obs.get("stage") == "mkpipe":
                prop("mkpipe refused a list of transformers followed by a decision maker with %s" % obs["err"], None, obs.get("msg"))
            else:
                out.append({"kind": "correspondence", "what": "harness could not build a step: %s %s" % (obs["err"], obs.get("msg")), "expected": None, "observed": None})
            return out
        names = obs["names"]
        inp = obs["lnames"]
        if len(set(names)) != len(names):
            prop("mkpipe: step names are not unique", {"input": inp}, names)
        else:
            if not all(x is True for x in obs["named_is"]):
                prop("mkpipe: named_steps[name] / pipe[name] is not the step the name was generated for", names, obs["named_is"])
        if obs["steps_are"] is None or not all(obs["steps_are"]) or obs["len"] != obs["n"]:
            prop("mkpipe: the pipeline's steps are not the given objects in the given order", obs["n"], [obs["len"], obs["steps_are"]])
        if not all(obs["index_is"]) or not obs["neg_index_is"]:
            prop("pipe[i] is not the i-th step", None, obs["index_is"])
        if obs["pipe_T"] != obs["manual_T"]:
            prop("pipe.transform(dm) differs from applying each transformer in order", *obs.get("detail_T", [obs["manual_T"], obs["pipe_T"]]))
        if obs["pipe_E"] != obs["manual_E"]:
            prop("pipe.evaluate(dm) differs from each transformer in order followed by the decision maker",
                 *obs.get("detail_E", [obs["manual_E"], obs["pipe_E"]]))
        for rec in obs["splits"]:
            k = rec["k"]
            if isinstance(rec.get("suffix"), dict) and "err" in rec["suffix"] and "suffix_steps_ok" not in rec:
                prop("pipe[%d:] of a %d-step pipeline was refused with %s" % (k, obs["n"], rec["suffix"]["err"]), "accepted", rec["suffix"])
                continue
            if rec.get("suffix_steps_ok") is False:
                prop("pipe[%d:] does not hold the last steps of the pipeline in order" % k)
            if rec["suffix"] != "prefix-failed" and rec["suffix"] != obs["pipe_E"]:
                prop("pipe[%d:].evaluate(<output of the first %d steps>) differs from pipe.evaluate(dm)" % (k, k),
                     obs["pipe_E"], rec.get("detail", rec["suffix"]))
            if rec["prefix_accepted"] != rec["step_has_evaluate"]:
                prop("pipe[:%d] %s although step %d %s evaluate()" % (k + 1, "accepted" if rec["prefix_accepted"] else "refused", k,
                                                                     "has" if rec["step_has_evaluate"] else "has no"), None, rec.get("prefix_err"))
            if not rec["prefix_accepted"] and rec["prefix_err"] != "TypeError":
                prop("pipe[:%d] refused with %s instead of TypeError" % (k + 1, rec["prefix_err"]))
            if rec["prefix_accepted"] and rec["prefix_T"] != rec["manual_prefix"]:
                prop("pipe[:%d].transform(dm) is not the output of the first %d steps" % (k + 1, k), rec["manual_prefix"], rec["prefix_T"])
        if obs["empty_slice"] != "IndexError":
            corr("pipe[len:] is not refused with IndexError", "IndexError", obs["empty_slice"])
        if obs["step2_slice"] != "ValueError":
            corr("pipe[::2] is not refused with ValueError", "ValueError", obs["step2_slice"])
        for key, what in (("copy_params_eq", "copy() of the pipeline changed its parameters"),
                          ("rebuild_params_eq", "SKCPipeline(**pipe.get_parameters()) changed the parameters"),
                          ("copy_out_eq", "copy() of the pipeline evaluates differently"),
                          ("rebuild_out_eq", "the rebuilt pipeline evaluates differently"),
                          ("override_ok", "pipe.copy(steps=...) does not hold the overriding steps"),
                          ("override2_ok", "a second pipe.copy(steps=<other steps>) on the same pipeline does not hold the overriding steps"),
                          ("late_params_eq", "get_parameters() of the pipeline changed after override copies / writes into a returned dictionary"),
                          ("late_copy_params_eq", "copy() made after override copies / writes into a returned dictionary does not have the pipeline's parameters"),
                          ("late_rebuild_params_eq", "SKCPipeline(**pipe.get_parameters()) made after override copies / writes into a returned "
                                                     "dictionary does not have the pipeline's parameters"),
                          ("late_copy_out_eq", "copy() made after override copies / writes into a returned dictionary evaluates differently"),
                          ("late_rebuild_out_eq", "the pipeline rebuilt after override copies / writes into a returned dictionary evaluates differently")):
            if obs.get(key) is False:
                prop("pipeline as a method: " + what)
        r = replies[0]
        if r.get("names") != names:
            corr("mkpipe names: model unique_names vs implementation", r.get("names"), names)
        return out
    return out


def nontrivial(case, obs):
    k = case["kind"]
    if k == "pipe":
        return bool(obs.get("ran"))
    if k in ("method", "mk", "used"):
        return bool(obs.get("ran"))
    if k == "refusal":
        return "err" in obs
    if k == "unames":
        return "input" in obs and len(set(obs["input"])) < len(obs["input"])
    if k == "trace":
        return obs.get("stage") != "construct"
    return True


def tags(case, obs):
    k = case["kind"]
    t = [k]
    if k == "pipe":
        t.append("pipe:len=%d" % len(case["steps"]))
        t.append("pipe:nested" if any("pipe" in s for s in case["steps"]) else "pipe:flat")
        flat = []

        def walk(ss):
            for s in ss:
                if "pipe" in s:
                    walk(s["pipe"])
                else:
                    flat.append(s.get("cls") or "user:" + s["user"]["name"])
        walk(case["steps"])
        t.append("final:" + flat[-1])
        if len(set(flat)) < len(flat):
            t.append("pipe:repeated-step-type")
        t.append("pipe:ran" if obs.get("ran") else "pipe:raised")
    elif k == "used":
        t.append("used:" + case["flavour"] + (":pipe" if case["pipe"] else ":single"))
        t.append("used:ran" if obs.get("ran") else "used:raised")
        for wk in case.get("warm_kinds", []):
            t.append("used:warm=" + wk)
    elif k == "method":
        t.append("class:" + case["cls"])
        if not obs.get("ran"):
            t.append("method:output-raised")
    elif k == "trace":
        t.append("trace:" + ("err:" + obs["err"] if "err" in obs else next(iter(x for x in ("trace", "len", "step", "pipe") if x in obs), "?")))
    elif k == "unames":
        t.append("unames:" + case.get("via", "function"))
        if "names" in obs and len(set(obs["names"])) != len(obs["names"]):
            t.append("unames:collision")
    return t
