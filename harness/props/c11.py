"""C11 — scalers compute their documented normal form along the right axis."""
from __future__ import annotations

import math
from decimal import Decimal, getcontext
from fractions import Fraction

import numpy as np

import common as C
import gen as G
import methods as M

getcontext().prec = 60

PID = "C11"
RULE = (
    "cases: (transformer, target, parameters, decision matrix) — SumScaler, VectorScaler, MaxAbsScaler, MinMaxScaler x criteria_range "
    "(8 ranges incl. negative and random ones) x clip, StandarScaler x with_mean x with_std, CenitDistanceMatrixScaler, PushNegatives, "
    "AddValueToZero x value (7 values incl. negative and 0), each with target matrix / weights / both; every scaler gets the same share of "
    "the cases and its configurations are cycled; matrices are non-square (2..8 alternatives x 2..6 criteria, m != n), columns and weight vectors non-constant, drawn "
    "per column from the kinds positive / mixed sign / all negative / containing exact zeros / minimum exactly 0 / tiny positive (as the "
    "scaler allows), dyadic eighths or arbitrary doubles, with ties; mixed objectives; the criteria are all float64 (1/2 of the cases), ALL "
    "int64 (whole numbers, the decision matrix built from an integer numpy array, 1/3) or mixed int64 / float64 through mkdm(dtypes=) "
    "(1/6). MAGNITUDE of the data, drawn per case for every scaler and configuration: unit (the above, 1/2), huge (1/3: whole numbers "
    "3e9..1e12 log-uniform in the integer-typed criteria - ALL int64 1/2, mixed 1/6 - and doubles 2^32..2^40 in the float ones; sums of "
    "squares leave int64) or tiny (1/6: doubles 2^-42..2^-36, about 1e-12, float64 only); the weights follow the magnitude in 2/3 of "
    "those cases and AddValueToZero's value in 1/2. Plus a malformed stream: criteria_range with "
    "lo >= hi (refusal). Plus SEQUENCES, a fixed share of every run (one per configuration in quick = 94, 14 per configuration in "
    "thorough, whatever the seed): ONE scaler object (every scaler, target, criteria_range / clip / with_mean / with_std / value "
    "setting) transforms 2 or 3 DIFFERENT decision matrices with the same number of criteria one after the other (alternatives and "
    "their number, objectives, weights, dtypes and magnitude drawn afresh for each); every output is judged against the normal form "
    "of ITS OWN input and against the model's answer for that input (one model request per transformed matrix). Plus LARGE LEVEL / SMALL SPREAD data, a fixed share of every run whatever the seed (120 quick, "
    "1500 thorough; StandarScaler, CenitDistanceMatrixScaler, MinMaxScaler, VectorScaler, SumScaler get 1/5 each, their targets and "
    "with_mean x with_std / criteria_range x clip cycled): 3 of 4 criteria (the others ordinary) and the weight vector (always when it "
    "is in the target, else 1/3) are unix timestamps within minutes, gauge readings b.1 .. b.9 around 1e6 .. 9e6, odometer readings "
    "1e7 .. 9e8 within 60, prices in cents near 2.5e6 within 25, or values around 2.5e8 differing by quarters (level / spread 1e5 .. "
    "1e9); whole-number kinds int64 half of the time. Three legs: implementation vs an independent Fraction / 60-digit Decimal evaluation of the normal form and the "
    "cell formula (property oracle), and implementation vs the Lean model (exact Rat; Lean Float for Vector/Standard). "
    "Non-trivial: every generated case (>= 2 alternatives and >= 2 criteria, non-constant columns); distinct by case hash."
)
ASSUMPTIONS = [
    "numeric agreement means |impl - exact| <= 1e-9 * scale with scale = max(1, largest exact magnitude involved) for the normal forms "
    "(their output has magnitude 1 / the configured range whatever the data is) and scale = max|x| + |shift| computed from the input, "
    "without the floor 1, for the shifts PushNegatives / AddValueToZero (output in the units of the data); 'untouched' parts "
    "(columns PushNegatives / AddValueToZero need not adjust, the part outside the target) are compared for exact equality",
    "generator guards (DESIGN section 14): population std >= 1e-4 * max(1, |mean|) (tiny data: max(2^-40, |mean|), and std >= 2^-41), range >= 1e-3 * max|x|, |sum| >= 0.05 * sum|x|, "
    "max|x| >= 2^-41 (and range >= 2^-41 for MinMaxScaler: binds on tiny data only): scikit-learn's near-constant thresholds (10 eps, n eps var + (n mean eps)^2) are never approached",
    "scikit-learn's MaxAbsScaler / MinMaxScaler / StandardScaler are external: modelled by their documented formulas",
    "large-level / small-spread cases only (magnitude 'offset'; every other case keeps the plain 1e-9 * scale): 'up to rounding' for the two "
    "normal forms that subtract a location of the size of the data (StandarScaler with_mean; MinMaxScaler) additionally allows the rounding "
    "of doubles of the LEVEL, (k + 4) * 2^-52 * max|x|, expressed in units of the spread (/ std, / range * (hi - lo)): no double-precision "
    "evaluation of (x - u) / s can do better; SumScaler, VectorScaler, CenitDistanceMatrixScaler and StandarScaler(with_mean=False) get no "
    "such margin. The generator guards on std / mean and range / max|x| do not apply to these cases (level / spread <= 1e9.3: var is > 1e9 "
    "times scikit-learn's constant-feature bound)",
]
PARTIAL = ("IEEE rounding, summation order and the correction term of scikit-learn's two-pass variance are not modelled; theorems are over "
           "ordered fields / R, the Float run of the model only accompanies the code")
TRUSTED = ["Lean Float (C libm sqrt) is used only to run the model next to the code for VectorScaler / StandarScaler, never in a theorem"]

TARGETS = ["matrix", "weights", "both"]
RANGES = [(0.0, 1.0), (-1.0, 1.0), (1.0, 3.0), (-2.5, -0.5), (0.25, 0.75), (0.0, 100.0), (-7.0, 0.0), None]
VALUES = [1.0, 0.5, 0.125, 3.75, -0.5, 0.0, None]


def configs():
    out = []
    for t in TARGETS:
        out += [("SumScaler", t, {}), ("VectorScaler", t, {}), ("MaxAbsScaler", t, {}), ("PushNegatives", t, {})]
        for r in RANGES:
            for clip in (False, True):
                out.append(("MinMaxScaler", t, {"range": r, "clip": clip}))
        for wm in (True, False):
            for ws in (True, False):
                out.append(("StandarScaler", t, {"with_mean": wm, "with_std": ws}))
        for v in VALUES:
            out.append(("AddValueToZero", t, {"value": v}))
    out += [("CenitDistanceMatrixScaler", "matrix", {})]
    return out


# ----------------------------------------------------------------------------- generators


# magnitude of the data of a case: "unit" (the historical one), "huge" (3e9 .. 1e12: money amounts, populations; whole numbers in the
# integer-typed criteria, so that sums of squares leave int64) and "tiny" (2^-42 .. 2^-36, about 1e-12; float64 only)
MAGNITUDES = ["unit", "unit", "unit", "huge", "huge", "tiny"]
FAMILY_UNIT = {"bigint": 2.0 ** 36, "bigfloat": 2.0 ** 36, "tinyfloat": 2.0 ** -40}


def _num(rng, family, sign):
    """one value: sign = +1 / -1"""
    if family == "int":  # whole numbers: the cells of an integer-typed criterion
        return float(sign * rng.randint(1, 40))
    if family == "bigint":  # large whole numbers (exact doubles: < 2^53), log-uniform in 3e9 .. 1e12
        return float(sign * min(10 ** 12, max(3 * 10 ** 9, int(10 ** rng.uniform(9.48, 12.0)))))
    if family == "bigfloat":  # arbitrary doubles in 2^32 .. 2^40 (4.3e9 .. 1.1e12)
        return sign * math.ldexp(rng.uniform(0.5, 1.0), rng.randint(33, 40))
    if family == "tinyfloat":  # arbitrary doubles in 2^-42 .. 2^-36 (2.3e-13 .. 1.5e-11)
        return sign * math.ldexp(rng.uniform(0.5, 1.0), rng.randint(-41, -36))
    if family == "dyadic":
        return sign * rng.randint(1, 40) / 8
    return sign * math.ldexp(rng.uniform(0.5, 1.0), rng.randint(-6, 9))


KINDS_ANY = ["pos", "pos", "mixed", "mixed", "neg", "zero", "minzero", "tiny"]


def vec(rng, k, family, kind, ties=0.25):
    """a non-constant vector of k >= 2 values of the given kind"""
    for _ in range(200):
        if kind == "pos":
            x = [_num(rng, family, 1) for _ in range(k)]
        elif kind == "neg":
            x = [_num(rng, family, -1) for _ in range(k)]
        elif kind == "mixed":  # negative minimum, no zero
            x = [_num(rng, family, rng.choice([1, -1])) for _ in range(k)]
            x[rng.randrange(k)] = _num(rng, family, -1)
        elif kind == "zero":  # contains exact zeros, any sign otherwise
            x = [_num(rng, family, rng.choice([1, 1, -1])) for _ in range(k)]
            for i in rng.sample(range(k), rng.randint(1, max(1, k // 3))):
                x[i] = 0.0
        elif kind == "minzero":  # minimum exactly 0
            x = [_num(rng, family, 1) for _ in range(k)]
            x[rng.randrange(k)] = 0.0
        elif kind == "tiny":  # positive, one value tiny but not zero
            x = [_num(rng, family, 1) for _ in range(k)]
            x[rng.randrange(k)] = 2.0 ** -40 * FAMILY_UNIT.get(family, 1.0)  # relative to the magnitude of the data
        else:
            raise ValueError(kind)
        for i in range(1, k):
            if rng.random() < ties:
                x[i] = x[rng.randrange(i)]
        if len(set(x)) >= 2 and _kind_ok(x, kind):
            return x
    raise RuntimeError("could not draw a vector")


def _kind_ok(x, kind):
    if kind == "zero":
        return any(v == 0 for v in x)
    if kind == "minzero":
        return min(x) == 0
    if kind == "mixed":
        return min(x) < 0 and all(v != 0 for v in x)
    if kind == "tiny":
        return min(x) > 0
    return True


def guards_ok(name, x, unit=1):
    """keep clear of the numerical thresholds (DESIGN section 14); unit: the magnitude of the family the vector was drawn from
    (1 for the historical families), the reference of the guard on the standard deviation"""
    f = [C.F(v) for v in x]
    k = len(f)
    amax = max(abs(v) for v in f)
    if amax < Fraction(1, 2 ** 41):
        return False
    if name == "SumScaler":
        return abs(sum(f)) * 20 >= sum(abs(v) for v in f)
    if name in ("MinMaxScaler", "CenitDistanceMatrixScaler"):
        # the range itself is a scale for scikit-learn (10 eps threshold): it matters on tiny data only
        return (max(f) - min(f)) * 1000 >= amax and max(f) - min(f) >= Fraction(1, 2 ** 41)
    if name == "StandarScaler":
        mean = sum(f) / k
        var = sum((v - mean) ** 2 for v in f) / k
        # a standard deviation is a scale for scikit-learn as well (10 eps): 2^-41 binds on tiny data only
        return var >= Fraction(1, 10 ** 8) * max(C.F(unit), abs(mean)) ** 2 and var >= Fraction(1, 2 ** 82)
    return True


def kinds_for(name, family=None):
    kinds = ["pos", "pos", "mixed", "neg", "zero", "minzero", "tiny"] if name == "SumScaler" else KINDS_ANY
    if family in ("int", "bigint"):  # a whole-number column cannot hold the tiny value
        kinds = [k for k in kinds if k != "tiny"]
    return kinds


def draw(rng, name, k, family):
    for _ in range(200):
        x = vec(rng, k, family, rng.choice(kinds_for(name, family)))
        if guards_ok(name, x, min(1.0, FAMILY_UNIT.get(family, 1.0))):
            return x
    if family in FAMILY_UNIT:
        raise RuntimeError("could not draw a guarded vector")
    return vec(rng, k, family, "pos", ties=0.0)


def make_case(rng, cfg, malformed=False, magnitude="unit", n=None):
    """n: the number of criteria when it is imposed (the later decision matrices of a sequence), else drawn"""
    name, target, params = cfg
    params = dict(params)
    if n is None:
        m = rng.randint(2, 8)
        n = rng.choice([x for x in range(2, 7) if x != m])
    else:
        m = rng.choice([x for x in range(2, 9) if x != n])
    family = rng.choice(["dyadic", "dyadic", "float"])
    # dtype of each criterion: all float64 / ALL int64 (the matrix is built from an integer numpy array) / mixed int64-float64
    if magnitude == "tiny":
        mode = "float"
    elif magnitude == "huge":
        mode = rng.choice(["int", "int", "int", "float", "float", "mixed"])
    else:
        mode = rng.choice(["float", "float", "float", "int", "int", "mixed"])
    if mode == "int":
        dtypes = ["int"] * n
    elif mode == "mixed":
        dtypes = [rng.choice(["int", "float"]) for _ in range(n)]
        i, k = rng.sample(range(n), 2)
        dtypes[i], dtypes[k] = "int", "float"
    else:
        dtypes = ["float"] * n
    # families of the cells: (integer-typed criterion, float criterion, weights); weights are float64 whatever the matrix is
    fam_int, fam_float = {"unit": ("int", family), "huge": ("bigint", "bigfloat"), "tiny": (None, "tinyfloat")}[magnitude]
    fam_w = family
    if magnitude != "unit":
        family = fam_float
        fam_w = rng.choice([fam_float, fam_float, fam_w])
    cols = [draw(rng, name, m, fam_int if dtypes[j] == "int" else fam_float) for j in range(n)]
    matrix = [[cols[j][i] for j in range(n)] for i in range(m)]
    if target in ("weights", "both"):
        weights = draw(rng, name, n, fam_w)
    else:
        weights = vec(rng, n, fam_w, "pos")
    if name == "MinMaxScaler":
        r = params.pop("range")
        if r is None:
            lo = rng.randint(-40, 40) / 8
            r = (lo, lo + rng.randint(1, 64) / 8)
        if malformed:
            lo = rng.randint(-8, 8) / 4
            r = (lo, lo - rng.choice([0.0, 0.0, 0.5, 3.0]))
        params["lo"], params["hi"] = r
    if name == "AddValueToZero" and params["value"] is None:
        params["value"] = math.ldexp(rng.uniform(0.5, 1.0), rng.randint(-8, 4))
    if name == "AddValueToZero" and magnitude != "unit" and rng.random() < 0.5:
        params["value"] = params["value"] * FAMILY_UNIT[fam_float]  # an increment of the magnitude of the data (power of two: exact)
    dm = {"matrix": matrix, "objectives": G.objectives(rng, n, "mixed"), "weights": weights,
          "alternatives": G.labels(rng, G.LABEL_POOL_ALT, m), "criteria": G.labels(rng, G.LABEL_POOL_CRIT, n), "family": family,
          "dtypes": dtypes, "magnitude": magnitude}
    return {"name": name, "target": target, "params": params, "dm": dm, "malformed": bool(malformed)}


def gen(ctx):
    rng = ctx.rng
    by_scaler = {}
    for cfg in configs():
        by_scaler.setdefault(cfg[0], []).append(cfg)
    names = sorted(by_scaler)
    for nm in names:
        rng.shuffle(by_scaler[nm])
    cases = []
    # every scaler gets the same share; inside a scaler its configurations are cycled
    for i in range(ctx.n(432, 6400)):
        nm = names[i % len(names)]
        lst = by_scaler[nm]
        # every scaler and configuration sees unit / huge / tiny data in the same proportion (1/2, 1/3, 1/6)
        mag = rng.choice(MAGNITUDES)
        cases.append(make_case(rng, lst[(i // len(names)) % len(lst)], magnitude=mag))
    for i in range(ctx.n(12, 120)):
        cases.append(make_case(rng, ("MinMaxScaler", rng.choice(TARGETS), {"range": None, "clip": rng.random() < 0.5}), malformed=True))
    # ONE scaler object, several different decision matrices one after the other: a fixed share of every run, EVERY configuration
    # (scaler x target x criteria_range x clip / with_mean x with_std / value) at least once whatever the seed
    allcfg = [cfg for nm in names for cfg in by_scaler[nm]]
    for i in range(ctx.n(len(allcfg), 14 * len(allcfg))):
        cases.append(make_sequence(rng, allcfg[i % len(allcfg)]))
    # LARGE LEVEL, SMALL SPREAD: a fixed share of every run whatever the seed; the five scalers whose normal form is relative to the
    # spread get the same share, their configurations are cycled (StandarScaler: every with_mean x with_std x target in quick)
    for i in range(ctx.n(120, 1500)):
        nm = OFFSET_SCALERS[i % len(OFFSET_SCALERS)]
        lst = by_scaler[nm]
        cases.append(make_offset_case(rng, lst[(i // len(OFFSET_SCALERS)) % len(lst)]))
    return cases


# LARGE LEVEL, SMALL SPREAD: criteria / weight vectors whose level is 1e5 .. 1e9 times their spread (readings of one instrument, events
# within minutes of each other, prices of near-identical offers).  name -> (whole numbers?, how one vector of k values is drawn)
OFFSET_KINDS = ["timestamp", "gauge", "odometer", "cents", "bigweight"]
OFFSET_WHOLE = {"timestamp": True, "gauge": False, "odometer": True, "cents": True, "bigweight": False}
OFFSET_SCALERS = ["StandarScaler", "CenitDistanceMatrixScaler", "MinMaxScaler", "VectorScaler", "SumScaler"]


def offset_vec(rng, kind, k):
    """a non-constant vector of k values with a large common level and a small spread"""
    for _ in range(200):
        if kind == "timestamp":  # unix timestamps (seconds) of events within a few minutes
            b = rng.randint(1_500_000_000, 1_800_000_000)
            x = [float(b + rng.randint(0, rng.choice([120, 300, 900]))) for _ in range(k)]
        elif kind == "gauge":  # readings b.1 .. b.9 of a gauge around 1e6 .. 9e6 with a resolution of 0.1
            b = rng.randint(1, 9) * 1_000_000
            x = [b + rng.randint(1, 9) / 10 for _ in range(k)]
        elif kind == "odometer":  # odometer readings within a few tens of units
            b = int(10 ** rng.uniform(7.0, 8.95))
            x = [float(b + rng.randint(0, 60)) for _ in range(k)]
        elif kind == "cents":  # prices in cents near 2.5e6 differing by < 25
            b = rng.randint(2_400_000, 2_600_000)
            x = [float(b + rng.randint(0, 24)) for _ in range(k)]
        elif kind == "bigweight":  # around 2.5e8, differing by about 1 (quarters: exact doubles)
            b = rng.randint(200_000_000, 300_000_000)
            x = [b + rng.randint(0, 12) / 4 for _ in range(k)]
        else:
            raise ValueError(kind)
        if len(set(x)) >= 2:
            return x
    raise RuntimeError("could not draw an offset vector")


def make_offset_case(rng, cfg):
    """a plain case whose criteria (3 of 4; the others ordinary) and, when the weights are in the target (else 1 of 3), whose weight
    vector have a large level and a small spread; whole-number kinds are int64 criteria half of the time"""
    name, target, params = cfg
    case = make_case(rng, cfg, magnitude="unit")
    dm = case["dm"]
    m, n = len(dm["matrix"]), len(dm["weights"])
    kinds = [rng.choice(OFFSET_KINDS) if rng.random() < 0.75 else None for _ in range(n)]
    if all(k is None for k in kinds):
        kinds[rng.randrange(n)] = rng.choice(OFFSET_KINDS)
    for j, kind in enumerate(kinds):
        if kind is None:
            continue
        col = offset_vec(rng, kind, m)
        for i in range(m):
            dm["matrix"][i][j] = col[i]
        dm["dtypes"][j] = "int" if OFFSET_WHOLE[kind] and rng.random() < 0.5 else "float"
    on_weights = name != "CenitDistanceMatrixScaler" and target in ("weights", "both")
    if on_weights or rng.random() < 1 / 3:
        dm["weights"] = offset_vec(rng, rng.choice(OFFSET_KINDS), n)
    dm["magnitude"] = "offset"
    dm["offset_kinds"] = kinds
    return case


def make_sequence(rng, cfg):
    """one configured scaler and 2..3 DIFFERENT decision matrices with the same number of criteria (alternatives, objectives, weights,
    dtypes and magnitude drawn afresh for each one; the criteria keep their names) that the SAME object transforms in this order.
    "dm" is the first one, "then" the later ones; the parameters are those drawn with the first."""
    case = make_case(rng, cfg, magnitude=rng.choice(MAGNITUDES))
    n = len(case["dm"]["objectives"])
    case["then"] = []
    for _ in range(rng.choice([1, 1, 2])):
        for _try in range(50):
            d = make_case(rng, cfg, magnitude=rng.choice(MAGNITUDES), n=n)["dm"]
            if all(d["matrix"] != e["matrix"] and d["weights"] != e["weights"] for e in [case["dm"]] + case["then"]):
                break
        else:
            raise RuntimeError("could not draw a different decision matrix")
        d["criteria"] = list(case["dm"]["criteria"])
        case["then"].append(d)
    return case


# ----------------------------------------------------------------------------- the implementation


def build(name, target, params):
    from skcriteria.preprocessing import increment, push_negatives, scalers

    if name == "SumScaler":
        return scalers.SumScaler(target)
    if name == "VectorScaler":
        return scalers.VectorScaler(target)
    if name == "MaxAbsScaler":
        return scalers.MaxAbsScaler(target)
    if name == "MinMaxScaler":
        return scalers.MinMaxScaler(target, criteria_range=(params["lo"], params["hi"]), clip=params["clip"])
    if name == "StandarScaler":
        return scalers.StandarScaler(target, with_mean=params["with_mean"], with_std=params["with_std"])
    if name == "CenitDistanceMatrixScaler":
        return scalers.CenitDistanceMatrixScaler()
    if name == "PushNegatives":
        return push_negatives.PushNegatives(target)
    if name == "AddValueToZero":
        return increment.AddValueToZero(target, value=params["value"])
    raise ValueError(name)


def mkdm(d):
    """the decision matrix of a case with the dtype of every criterion as the case states it ("dtypes": "int" / "float" per
    criterion; absent = all float64).  All int: skcriteria.mkdm gets an integer numpy array; mixed: per-criterion dtypes=."""
    import skcriteria as skc

    dt = d.get("dtypes")
    if not dt or all(t == "float" for t in dt):
        return G.mkdm(d)
    if any(t == "int" and not float(r[j]).is_integer() for r in d["matrix"] for j, t in enumerate(dt)):
        raise AssertionError("an integer-typed criterion holds a value that is not a whole number")
    kw = dict(weights=np.array(d["weights"], dtype=float), alternatives=list(d["alternatives"]), criteria=list(d["criteria"]))
    if all(t == "int" for t in dt):
        dm = skc.mkdm(np.array(d["matrix"], dtype=float).astype(np.int64), list(d["objectives"]), **kw)
    else:
        dm = skc.mkdm(np.array(d["matrix"], dtype=float), list(d["objectives"]),
                      dtypes=[np.int64 if t == "int" else np.float64 for t in dt], **kw)
    got = ["int" if np.issubdtype(x, np.integer) else "float" for x in dm.dtypes.to_numpy()]
    if got != list(dt):
        raise AssertionError(f"criteria dtypes {got}, wanted {dt}")
    return dm


def steps(case):
    """the decision matrices of a case in the order the one scaler object transforms them (a plain case: one)"""
    return [case["dm"]] + list(case.get("then") or [])


def _result(r):
    mat = np.asarray(r.matrix.to_numpy(), dtype=float)
    w = np.asarray(r.weights.to_numpy(), dtype=float)
    return {"matrix": mat.tolist(), "weights": w.tolist(), "objectives": [int(x) for x in r.iobjectives.to_numpy()],
            "finite": bool(np.all(np.isfinite(mat)) and np.all(np.isfinite(w)))}


def observe(case):
    with M.quiet():
        if "then" not in case:
            dm = mkdm(case["dm"])
            try:
                T = build(case["name"], case["target"], case["params"])
                r = T.transform(dm)
            except Exception as e:
                return {"err": G.err_name(e), "msg": str(e)[:200]}
            return _result(r)
        # a sequence: ONE object, built once, transforms every decision matrix in turn
        dms = [mkdm(d) for d in steps(case)]
        try:
            T = build(case["name"], case["target"], case["params"])
        except Exception as e:
            return {"err": G.err_name(e), "msg": str(e)[:200]}
        out = []
        for dm in dms:
            try:
                out.append(_result(T.transform(dm)))
            except Exception as e:
                out.append({"err": G.err_name(e), "msg": str(e)[:200]})
        return {"steps": out}


FLOAT_ONLY = ("VectorScaler", "StandarScaler")


def tr_step(name, target, params, enc):
    p = {}
    for k in ("lo", "hi", "value"):
        if k in params:
            p[k] = enc(params[k])
    for k in ("clip", "with_mean", "with_std"):
        if k in params:
            p[k] = bool(params[k])
    return {"name": name, "target": target, "params": p}


def requests(case, obs):
    domain = "float" if case["name"] in FLOAT_ONLY else "rat"
    enc = C.fbits if domain == "float" else C.rat
    reqs = []
    for dm in steps(case):  # the model is a function of (configuration, decision matrix): one request per transformed matrix
        req = {"op": "tr", "domain": domain, "M": [[enc(x) for x in row] for row in dm["matrix"]],
               "O": ["max" if o == 1 else "min" for o in dm["objectives"]], "w": [enc(x) for x in dm["weights"]]}
        req.update(tr_step(case["name"], case["target"], case["params"], enc))
        reqs.append(req)
    return reqs


# ----------------------------------------------------------------------------- the property, exactly


def D(x):
    if isinstance(x, Fraction):
        return Decimal(x.numerator) / Decimal(x.denominator)
    if isinstance(x, float):
        return D(C.F(x))
    return Decimal(x)


REL = Decimal("1e-9")


EPS = Decimal(2) ** -52


def spread_rounding(name, params, xs):
    """LARGE LEVEL / small spread data only ("magnitude": "offset").  'up to rounding' for the two normal forms that SUBTRACT a
    location of the magnitude of the data (mean; min * scale) from data of that magnitude: the location and the k-term sum behind it
    are doubles of the LEVEL of the criterion, so they carry (k + 4) units of rounding eps * max|x| in the units of the data; the
    output is measured in units of the spread (std, or range mapped on hi - lo).  In the units of the output this is
    (k + 4) * eps * max|x| / spread * (hi - lo or 1); 0 for every other scaler (quotients only: no cancellation, plain 1e-9)."""
    x = [C.F(v) for v in xs]
    k = len(x)
    amax = D(max(abs(v) for v in x))
    if name == "MinMaxScaler":
        return (k + 4) * EPS * amax / D(max(x) - min(x)) * D(C.F(params["hi"]) - C.F(params["lo"]))
    if name == "StandarScaler" and params["with_mean"]:
        mean = sum(x) / k
        std = D(sum((v - mean) ** 2 for v in x) / k).sqrt() if params["with_std"] else Decimal(1)
        return (k + 4) * EPS * amax / std
    return Decimal(0)


def normal_form(name, params, xs, ys, obj=None, margin=Decimal(0)):
    """xs: one criterion (or the weight vector) before, ys: after.  Returns a list of
    (what, expected, observed) for every clause of the property's text that fails.
    margin: rounding relative to the spread (spread_rounding; 0 except on large-level / small-spread data)"""
    bad = []
    x = [C.F(v) for v in xs]
    y = [C.F(v) for v in ys]
    k = len(x)

    def close(a, b, scale, floor=1):
        return abs(D(a) - D(b)) <= REL * max(Decimal(floor), D(scale)) + margin

    def cells(expected, label, scale=None, floor=1):
        """floor=1: the output is a normal form (magnitude 1 or the configured range whatever the data is); floor=0: the output is in
        the units of the data (shifts), the scale is the magnitude of the input alone"""
        sc = scale if scale is not None else max([abs(D(e)) for e in expected] + [Decimal(1)])
        for i, (e, o) in enumerate(zip(expected, y)):
            if not close(e, o, sc, floor):
                bad.append((f"{name}: cell differs from the documented formula {label}", {"index": i, "exact": str(D(e))[:40]}, float(o)))
                return

    if name == "SumScaler":
        s = sum(x)
        tot = sum(y)
        if not close(tot, 1, sum(abs(v) for v in y)):
            bad.append(("SumScaler: the output does not sum to 1", 1, float(tot)))
        cells([v / s for v in x], "x / sum(x)")
    elif name == "VectorScaler":
        nrm = D(sum(v * v for v in x)).sqrt()
        tot = sum(v * v for v in y)
        if not close(tot, 1, 1):
            bad.append(("VectorScaler: the output does not have unit Euclidean norm", 1, float(tot)))
        cells([D(v) / nrm for v in x], "x / sqrt(sum(x^2))")
    elif name == "MaxAbsScaler":
        mx = max(abs(v) for v in x)
        top = max(abs(v) for v in y)
        if not close(top, 1, 1):
            bad.append(("MaxAbsScaler: the largest absolute value of the output is not 1", 1, float(top)))
        cells([v / mx for v in x], "x / max|x|")
    elif name == "MinMaxScaler":
        lo, hi = C.F(params["lo"]), C.F(params["hi"])
        mn, mx = min(x), max(x)
        sc = max(1, abs(lo), abs(hi))
        for i in range(k):
            if x[i] == mn and not close(y[i], lo, sc):
                bad.append(("MinMaxScaler: the minimum is not mapped to the lower end of criteria_range", float(lo), float(y[i])))
                break
            if x[i] == mx and not close(y[i], hi, sc):
                bad.append(("MinMaxScaler: the maximum is not mapped to the upper end of criteria_range", float(hi), float(y[i])))
                break
        cells([(v - mn) / (mx - mn) * (hi - lo) + lo for v in x], "(x - min) / (max - min) * (hi - lo) + lo", sc)
    elif name == "StandarScaler":
        mean = sum(x) / k
        var = sum((v - mean) ** 2 for v in x) / k
        std = D(var).sqrt()
        u = mean if params["with_mean"] else 0
        s = std if params["with_std"] else Decimal(1)
        exp = [D(v - u) / s for v in x]
        sc = max([abs(e) for e in exp] + [Decimal(1)])
        ymean = sum(y) / k
        if params["with_mean"] and not close(ymean, 0, sc):
            bad.append(("StandarScaler(with_mean=True): the output does not have mean 0", 0, float(ymean)))
        if params["with_std"]:
            ystd = D(sum((v - ymean) ** 2 for v in y) / k).sqrt()
            if not close(ystd, 1, sc):
                bad.append(("StandarScaler(with_std=True): the output does not have standard deviation 1", 1, float(ystd)))
        cells(exp, "(x - u) / s", sc)
    elif name == "CenitDistanceMatrixScaler":
        ideal, anti = (max(x), min(x)) if obj == 1 else (min(x), max(x))
        for i in range(k):
            if x[i] == ideal and not close(y[i], 1, 1):
                bad.append(("CenitDistanceMatrixScaler: the ideal of the criterion is not mapped to 1", 1, float(y[i])))
                break
            if x[i] == anti and not close(y[i], 0, 1):
                bad.append(("CenitDistanceMatrixScaler: the anti-ideal of the criterion is not mapped to 0", 0, float(y[i])))
                break
        cells([(v - anti) / (ideal - anti) for v in x], "(x - anti_ideal) / (ideal - anti_ideal)")
    elif name == "PushNegatives":
        mn = min(x)
        if mn < 0:
            if min(y) != 0:
                bad.append(("PushNegatives: a criterion with a negative minimum does not have minimum 0 afterwards", 0, float(min(y))))
            cells([v - mn for v in x], "x - min(x)", max(abs(v) for v in x) + abs(mn), floor=0)
        elif y != x:
            bad.append(("PushNegatives: a criterion without negative values was changed", [float(v) for v in x], [float(v) for v in y]))
    elif name == "AddValueToZero":
        val = C.F(params["value"])
        if any(v == 0 for v in x):
            cells([v + val for v in x], "x + value", max(abs(v) for v in x) + abs(val), floor=0)
        elif y != x:
            bad.append(("AddValueToZero: a criterion that contains no zero was changed", [float(v) for v in x], [float(v) for v in y]))
    return bad


def judge(case, obs, replies):
    if "then" not in case:
        return judge_one(case, case["dm"], obs, replies[0])
    # a sequence: every output must satisfy the normal form computed from ITS OWN input, whatever the object transformed before
    dms = steps(case)
    if "err" in obs:  # the constructor refused
        return judge_one(case, dms[0], obs, replies[0])
    out = []
    for i, (dm, ob, rep) in enumerate(zip(dms, obs["steps"], replies)):
        out += judge_one(case, dm, ob, rep, f"[decision matrix #{i + 1} of {len(dms)} transformed by the same scaler object] ")
        if out:
            break
    return out


def judge_one(case, dm, obs, rep, label=""):
    out = []
    name, target, params = case["name"], case["target"], case["params"]
    A, w, o = dm["matrix"], dm["weights"], dm["objectives"]
    m, n = len(A), len(w)

    def prop(what, expected=None, observed=None):
        out.append({"kind": "property", "what": label + what, "expected": expected, "observed": observed})

    def corr(what, expected=None, observed=None):
        out.append({"kind": "correspondence", "what": label + what, "expected": expected, "observed": observed})

    if case["malformed"]:
        # out of the property's domain (scikit-learn refuses lo >= hi): only the model has to agree
        if (rep.get("err") == "ValueError") != (obs.get("err") == "ValueError"):
            corr("MinMaxScaler with lo >= hi: refusal, model vs implementation", rep.get("err"), obs.get("err", "accepted"))
        return out
    if "err" in obs:
        prop(f"{name}({target}) raised {obs['err']} on an in-domain decision matrix: {obs.get('msg')}", "a transformed matrix", obs["err"])
        return out
    if not obs["finite"]:
        prop(f"{name}({target}): non-finite values in the output of an in-domain decision matrix", "finite", obs["matrix"])
        return out
    Y, wy = obs["matrix"], obs["weights"]
    if len(Y) != m or any(len(r) != n for r in Y) or len(wy) != n:
        prop(f"{name}({target}): shape changed", [m, n], [len(Y), len(wy)])
        return out
    on_matrix = name == "CenitDistanceMatrixScaler" or target in ("matrix", "both")
    on_weights = name != "CenitDistanceMatrixScaler" and target in ("weights", "both")
    # matrix: criterion by criterion (axis 0)
    offset = dm.get("magnitude") == "offset"
    mg_cols = [spread_rounding(name, params, [A[i][j] for i in range(m)]) if offset else Decimal(0) for j in range(n)]
    mg_w = spread_rounding(name, params, w) if offset else Decimal(0)
    if on_matrix:
        for j in range(n):
            bad = normal_form(name, params, [A[i][j] for i in range(m)], [Y[i][j] for i in range(m)], o[j], mg_cols[j])
            if bad:
                what, e, ob = bad[0]
                prop(f"{what} [matrix, criterion {j}]", e, ob)
                break
    elif Y != A:
        prop(f"{name}(target={target}): the matrix is outside the target but changed", A, Y)
    # weights: the vector as a whole
    if on_weights:
        bad = normal_form(name, params, w, wy, None, mg_w)
        if bad:
            what, e, ob = bad[0]
            prop(f"{what} [weights]", e, ob)
    elif wy != w:
        prop(f"{name}(target={target}): the weights are outside the target but changed", w, wy)
    if obs["objectives"] != o:
        prop(f"{name}: objectives changed", o, obs["objectives"])

    # correspondence with the Lean model
    if "err" in rep:
        corr(f"{name}({target}): model refuses, implementation accepts", rep["err"], "accepted")
        return out

    def val(s):
        return float("nan") if s is None else (float(C.frac(s)) if "/" in s else C.unfbits(s))

    mm = [[val(x) for x in r] for r in rep["M"]]
    mw = [val(x) for x in rep["w"]]

    def far(a, b, floor=1.0, margin=0.0):
        return not (abs(a - b) <= 1e-9 * max(floor, abs(a)) + margin)

    # shifts give an output in the units of the data: the floor of the scale is the magnitude of the input (never above 1)
    shift = name in ("PushNegatives", "AddValueToZero")
    fm = min(1.0, max(abs(v) for r in A for v in r) + abs(params.get("value", 0.0))) if shift else 1.0
    fw = min(1.0, max(abs(v) for v in w) + abs(params.get("value", 0.0))) if shift else 1.0
    # large level / small spread: model (exact, or its own Float summation order) and implementation both within the rounding of the
    # level relative to the spread of the exact value, so within twice that of each other
    fc, fwm = [2 * float(g) for g in mg_cols], 2 * float(mg_w)
    if len(mm) != m or any(far(a, b, fm, g) for ra, rb in zip(mm, Y) for a, b, g in zip(ra, rb, fc)):
        corr(f"{name}({target}) {params}: matrix, model vs implementation", mm, Y)
    if len(mw) != n or any(far(a, b, fw, fwm) for a, b in zip(mw, wy)):
        corr(f"{name}({target}) {params}: weights, model vs implementation", mw, wy)
    if rep["O"] != ["max" if x == 1 else "min" for x in obs["objectives"]]:
        corr(f"{name}: objectives, model vs implementation", rep["O"], obs["objectives"])
    return out


def nontrivial(case, obs):
    return len(case["dm"]["matrix"]) >= 2 and len(case["dm"]["objectives"]) >= 2


def tags(case, obs):
    t = ["scaler:" + case["name"], "target:" + case["target"], "family:" + case["dm"]["family"],
         "shape:" + ("tall" if len(case["dm"]["matrix"]) > len(case["dm"]["objectives"]) else "wide")]
    dt = case["dm"].get("dtypes") or ["float"]
    t.append("dtypes:" + ("int" if all(x == "int" for x in dt) else "float" if all(x == "float" for x in dt) else "mixed"))
    t.append("magnitude:" + case["dm"].get("magnitude", "unit"))
    for kd in sorted({k for k in case["dm"].get("offset_kinds") or [] if k}):
        t.append("offset-kind:" + kd)
    if case["malformed"]:
        t.append("malformed:" + ("refused" if "err" in obs else "accepted"))
    t.append("same-object-transforms:" + str(len(steps(case))))
    if "then" in case:
        t.append("sequence:rows-" + ("same" if len({len(d["matrix"]) for d in steps(case)}) == 1 else "differ"))
        t.append("sequence:magnitudes-" + ("same" if len({d["magnitude"] for d in steps(case)}) == 1 else "differ"))
    A = case["dm"]["matrix"]
    if any(v < 0 for r in A for v in r):
        t.append("has-negative")
    if any(v == 0 for r in A for v in r):
        t.append("has-zero")
    for k in ("clip", "with_mean", "with_std"):
        if k in case["params"]:
            t.append(f"{k}={case['params'][k]}")
    return t
