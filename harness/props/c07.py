"""C07 — dominance analysis matches the definition of (strict) dominance."""
from __future__ import annotations

import itertools

import numpy as np

import common as C
import gen as G
import methods as M

PID = "C07"
RULE = (
    "cases: a decision matrix (small value alphabet so that ties occur in every pattern; random up to 9x6 with heavy ties) with an "
    "objective vector, and a random ORDER of accessor calls on the one dm.dominance instance (bt, eq, dominance(strict), "
    "compare(a,b), dominated(strict), dominators_of(a,strict), has_loops(strict); repeats allowed, so memoised tables are re-read). "
    "Thorough: exhaustive over all matrices <= 3 alternatives x <= 2 criteria over {0,1,2} x all objective vectors x both strict. "
    "Each call's output is compared with a definition-based oracle (property) and with the Lean model (correspondence). "
    "Non-trivial: >= 2 alternatives; distinct by case hash."
)
ASSUMPTIONS = ["dominance chains are capped by the matrix size (<= 9 alternatives) because dominators_of returns 2^k-1 entries on a chain of k"]
PARTIAL = "Python's RecursionError is modelled as an exhausted recursion budget of m+1 frames"
EXHAUSTIVE = True
CALLS = ["bt", "eq", "dominance", "dominance", "compare", "dominated", "dominated", "dominators_of", "dominators_of", "has_loops"]


def _calls(rng, m, k):
    out = []
    for _ in range(k):
        name = rng.choice(CALLS)
        c = {"m": name}
        if name in ("dominance", "dominated", "dominators_of", "has_loops"):
            c["strict"] = rng.random() < 0.5
        if name == "compare":
            a = rng.randrange(m)
            b = rng.choice([x for x in range(m) if x != a]) if m > 1 else a
            c["a"], c["b"] = a, b
        if name == "dominators_of":
            c["a"] = rng.randrange(m)
        # the documented call forms of the accessor: dm.dominance.name(...), dm.dominance("name", ...), dm.dominance(...) (default kind)
        c["form"] = rng.choice(["method", "method", "call", "call-default"])
        out.append(c)
    return out


def gen(ctx):
    rng = ctx.rng
    cases = []
    for _ in range(ctx.n(220, 3000)):
        m, n = rng.randint(2, 9), rng.randint(1, 6)
        alpha = rng.choice([[0, 1], [0, 1, 2], [1, 2, 3, 4], None, "near", "bigint", "uint", "intmin"])
        bigint = alpha == "bigint"
        udtype = None
        if alpha == "uint":
            # matrix stored with an unsigned integer dtype: differences must not be taken in that dtype
            udtype = rng.choice(["uint8", "uint16", "uint32", "uint64"])
            mat = [[rng.randint(0, 5) for _ in range(n)] for _ in range(m)]
        elif alpha == "intmin":
            # signed integer storage holding the most negative value of its type (and its neighbours): negating it wraps around
            udtype = rng.choice(["int8", "int16", "int32", "int64"])
            lo = -(2 ** (int(udtype[3:]) - 1))
            mat = [[float(rng.choice([lo, lo, lo + 1, lo + 2, -1, 0, 1, 5])) for _ in range(n)] for _ in range(m)]
        elif bigint:
            # integer-typed matrix with values that differ only beyond the 53-bit mantissa of a double
            mat = [[2 ** 53 + rng.randint(0, 3) for _ in range(n)] for _ in range(m)]
        elif alpha == "near":
            # distinct values that are equal up to ~1e-7 relative: a tolerance-based comparison would merge them
            base = [rng.choice([0.5, 1.0, 250000.0, 3.0e6, 1e-3]) for _ in range(n)]
            mat = [[base[j] * (1 + rng.randint(0, 2) * 2.0 ** -24) for j in range(n)] for _ in range(m)]
        elif alpha:
            mat = [[float(rng.choice(alpha)) for _ in range(n)] for _ in range(m)]
        else:
            mat = G.matrix(rng, m, n, "dyadic", positive=False, ties=0.5, dups=0.2)
        # dominance does not look at the weights: any weights, including criteria switched off (weight 0), must give the same analysis
        wts = rng.choice([[1.0] * n, G.weights(rng, n, "dyadic", distinct=False), [rng.choice([0.0, 0.0, 1.0, 2.5]) for _ in range(n)]])
        dm = {"matrix": mat, "objectives": G.objectives(rng, n), "weights": wts, "int_matrix": bigint, "dtype": udtype,
              "alternatives": G.labels(rng, G.LABEL_POOL_ALT, m) if rng.random() < 0.85 else G.int_labels(rng, m),
              "criteria": G.labels(rng, G.LABEL_POOL_CRIT, n)}
        cases.append({"dm": dm, "calls": _calls(rng, m, rng.randint(3, 9))})
    if ctx.thorough:
        allcalls = lambda m: (
            [{"m": "bt"}, {"m": "eq"}]
            + [{"m": x, "strict": s} for x in ("dominance", "dominated", "has_loops") for s in (False, True)]
            + [{"m": "dominators_of", "a": a, "strict": s} for a in range(m) for s in (False, True)]
            + [{"m": "compare", "a": a, "b": b} for a in range(m) for b in range(m) if a != b]
        )
        for m in (1, 2, 3):
            for n in (1, 2):
                for cells in itertools.product((0.0, 1.0, 2.0), repeat=m * n):
                    mat = [list(cells[i * n:(i + 1) * n]) for i in range(m)]
                    for objs in itertools.product((1, -1), repeat=n):
                        dm = {"matrix": mat, "objectives": list(objs), "weights": [1.0] * n,
                              "alternatives": [f"A{i}" for i in range(m)], "criteria": [f"C{j}" for j in range(n)]}
                        cs = allcalls(m)
                        rng.shuffle(cs)
                        cases.append({"dm": dm, "calls": cs, "exh": True})
    return cases


def _scribble(x):
    """what a caller may do with a result it was handed: overwrite it in place.  Later answers of the accessor must not change."""
    try:
        if isinstance(x, np.ndarray):
            if x.size:
                x[...] = x.flat[0]
                x[:] = x[::-1]
        else:  # DataFrame / Series
            v = x.to_numpy()
            x.iloc[...] = v.flat[0] if v.size else 0
    except Exception:
        pass


def observe(case):
    with M.quiet():
        dm = G.mkdm(case["dm"])
        alts = list(case["dm"]["alternatives"])
        idx = {G.lab(a): i for i, a in enumerate(alts)}
        acc = dm.dominance
        outs = []
        def call(name, *a, **kw):
            """the accessor's three documented call forms: acc.name(...), acc("name", ...), acc(...) for the default kind"""
            form = c.get("form", "method")
            if form in ("call", "call-default") and a:
                # the callable form takes keyword arguments only: name the positional ones after the method's own parameters
                import inspect

                params = [p for p in inspect.signature(getattr(acc, name)).parameters]
                kw = dict(zip(params, a), **kw)
                a = ()
            if form == "call":
                return acc(name, **kw)
            if form == "call-default" and name == "dominance":
                return acc(**kw)
            return getattr(acc, name)(*a, **kw)

        for c in case["calls"]:
            try:
                name = c["m"]
                if name in ("bt", "eq"):
                    df = call(name)
                    outs.append({"v": df.to_numpy().tolist(), "rows": [G.lab(x) for x in df.index], "cols": [G.lab(x) for x in df.columns]})
                    _scribble(df)
                elif name == "dominance":
                    df = call("dominance", strict=c["strict"])
                    outs.append({"v": df.to_numpy().astype(bool).tolist(), "rows": [G.lab(x) for x in df.index], "cols": [G.lab(x) for x in df.columns]})
                    _scribble(df)
                elif name == "dominated":
                    s = call("dominated", strict=c["strict"])
                    outs.append({"v": [bool(x) for x in s.to_numpy()], "rows": [G.lab(x) for x in s.index]})
                    _scribble(s)
                elif name == "compare":
                    df = call("compare", alts[c["a"]], alts[c["b"]])
                    body = df.iloc[:, :-1].to_numpy().astype(bool).tolist()
                    outs.append({"row0": body[0], "row1": body[1], "eq": body[2], "perf": [int(x) for x in df["Performance"].tolist()]})
                elif name == "dominators_of":
                    d = call("dominators_of", alts[c["a"]], strict=c["strict"])
                    outs.append({"v": [idx[G.lab(x)] for x in d]})
                    _scribble(d)
                elif name == "has_loops":
                    outs.append({"v": bool(call("has_loops", strict=c["strict"]))})
            except Exception as e:
                outs.append({"err": G.err_name(e), "msg": str(e)[:200]})
        return {"outs": outs}


def requests(case, obs):
    dm = case["dm"]
    return [{"op": "dom", "M": C.ratmat(dm["matrix"]), "O": ["max" if o == 1 else "min" for o in dm["objectives"]], "calls": case["calls"]}]


def _better(o, x, y):
    return x > y if o == 1 else x < y


def judge(case, obs, replies):
    out = []
    dm = case["dm"]
    A, o, alts = dm["matrix"], dm["objectives"], [G.lab(a) for a in dm["alternatives"]]
    m, n = len(A), len(o)

    def prop(what, expected=None, observed=None):
        out.append({"kind": "property", "what": what, "expected": expected, "observed": observed})

    bt = [[sum(1 for j in range(n) if _better(o[j], A[i][j], A[k][j])) if i != k else 0 for k in range(m)] for i in range(m)]
    eq = [[sum(1 for j in range(n) if A[i][j] == A[k][j]) if i != k else n for k in range(m)] for i in range(m)]

    def dom(strict):
        return [[i != k and bt[i][k] > 0 and bt[k][i] == 0 and (not strict or eq[i][k] == 0) for k in range(m)] for i in range(m)]

    model = replies[0].get("replies", [])
    for c, got, mod in zip(case["calls"], obs["outs"], model):
        name = c["m"]
        if "err" in got:
            prop(f"{name} raised {got['err']}: {got.get('msg')}", None, c)
            continue
        if name in ("bt", "eq", "dominance"):
            if got["rows"] != alts or got["cols"] != alts:
                prop(f"{name}: table not labelled by the alternatives in order", alts, [got["rows"], got["cols"]])
        if name == "bt":
            exp = bt
            if got["v"] != exp:
                prop("bt(): not the number of criteria on which the row alternative is better", exp, got["v"])
            if any(bt[i][k] + bt[k][i] + eq[i][k] != n for i in range(m) for k in range(m) if i != k):
                prop("oracle self-check failed")  # pragma: no cover
            if mod != got["v"]:
                out.append({"kind": "correspondence", "what": "bt: model vs implementation", "expected": mod, "observed": got["v"]})
        elif name == "eq":
            if got["v"] != eq:
                prop("eq(): not the number of criteria on which the two alternatives are equal", eq, got["v"])
            if mod != got["v"]:
                out.append({"kind": "correspondence", "what": "eq: model vs implementation", "expected": mod, "observed": got["v"]})
        elif name == "dominance":
            exp = dom(c["strict"])
            if got["v"] != exp:
                prop(f"dominance(strict={c['strict']}) differs from the definition", exp, got["v"])
            if mod != got["v"]:
                out.append({"kind": "correspondence", "what": "dominance: model vs implementation", "expected": mod, "observed": got["v"]})
        elif name == "dominated":
            d = dom(c["strict"])
            exp = [any(d[i][k] for i in range(m)) for k in range(m)]
            if got["v"] != exp or got["rows"] != alts:
                prop(f"dominated(strict={c['strict']}) differs from the definition", exp, got["v"])
            if mod != got["v"]:
                out.append({"kind": "correspondence", "what": "dominated: model vs implementation", "expected": mod, "observed": got["v"]})
        elif name == "compare":
            a, b = c["a"], c["b"]
            r0 = [_better(o[j], A[a][j], A[b][j]) for j in range(n)]
            r1 = [_better(o[j], A[b][j], A[a][j]) for j in range(n)]
            e = [A[a][j] == A[b][j] for j in range(n)]
            exp = {"row0": r0, "row1": r1, "eq": e, "perf": [sum(r0), sum(r1), sum(e)]}
            if got != exp:
                prop("compare(a, b): per-criterion table differs from the definition", exp, got)
            if mod != got:
                out.append({"kind": "correspondence", "what": "compare: model vs implementation", "expected": mod, "observed": got})
        elif name == "dominators_of":
            d = dom(c["strict"])
            # transitive closure of the definition
            reach = {i for i in range(m) if d[i][c["a"]]}
            frontier = set(reach)
            while frontier:
                nxt = {i for i in range(m) for f in frontier if d[i][f]} - reach
                reach |= nxt
                frontier = nxt
            if set(got["v"]) != reach:
                prop(f"dominators_of(strict={c['strict']}) is not the transitive closure of dominance", sorted(reach), got["v"])
            if mod != got["v"]:
                out.append({"kind": "correspondence", "what": "dominators_of (order and repetitions): model vs implementation", "expected": mod, "observed": got["v"]})
        elif name == "has_loops":
            if got["v"] is not False:
                prop("has_loops reported a dominance loop", False, got["v"])
            if mod != got["v"]:
                out.append({"kind": "correspondence", "what": "has_loops: model vs implementation", "expected": mod, "observed": got["v"]})
    return out


def nontrivial(case, obs):
    return len(case["dm"]["matrix"]) >= 2


def tags(case, obs):
    t = ["exhaustive" if case.get("exh") else "random", "m=%d" % len(case["dm"]["matrix"])]
    t += ["call:" + c["m"] for c in case["calls"][:3]]
    return t
