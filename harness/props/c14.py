"""C14 — filters keep exactly the alternatives that satisfy every condition."""
from __future__ import annotations

import itertools
import math
from fractions import Fraction

import numpy as np

import common as C
import gen as G

PID = "C14"
RULE = (
    "cases: one decision matrix (1-12 alternatives x 1-6 criteria, mixed objectives, dyadic values k/8 with ties and "
    "duplicated rows; a share of arbitrary doubles) + one or more filter runs on it. A run = filter class "
    "(FilterGT/GE/LT/LE/EQ/NE, FilterIn/NotIn, function-based Filter with named element-wise predicates, "
    "FilterNonDominated) + an ORDERED condition dict over present AND absent criteria written in a random key order "
    "(thresholds drawn from the column's own values, so ties with the threshold are hit exactly) + "
    "ignore_missing_criteria in {False, True} + strict in {False, True}. Two further families in every tier: (a) FilterIn / "
    "FilterNotIn with LONG condition sets (13-40 values, with and without values repeated inside the set, in random order) on "
    "float-valued criteria (k/8 grid and arbitrary doubles, 3-12 alternatives) where several alternatives share a value that is in "
    "the set and several share a value that is not (the set mixes the column's own values with near misses and foreign values), "
    "alone and together with short sets / absent criteria, both classes on the same conditions; (b) FilterNonDominated, both strict "
    "settings, on NEAR-TIE matrices: per criterion a small pool of values that differ by a tiny non-zero amount (250000 vs 250001, "
    "0.1+0.2 vs 0.3, 1e-9 vs 3e-9, relative 2^-24, one ulp; also whole-number matrices of dtype int) plus forced pairs whose "
    "dominance is decided by such a difference alone (one alternative worse only by the tiny amount; better only by the tiny "
    "amount and clearly worse elsewhere; worse by the tiny amount on every criterion) - exact cases for the rational oracle; "
    "(c) function-based Filter with 2-4 conditions (4-12 alternatives) where a condition that is NOT written first is a WHOLE-COLUMN "
    "function (>= / > / <= / < the column's median, mean or lower median, == / < its max, == / > its min, among the k largest / k "
    "smallest, lower / upper half of its range; mean / median / range only on the k/8 grid where float arithmetic is exact, the "
    "order statistics also on arbitrary doubles) and the conditions written before it reject alternatives whose removal would change "
    "that condition's verdict on a remaining alternative (guaranteed by construction), each condition set also run in another written "
    "order - every condition is judged on the criterion as given; (d) FilterNonDominated, both strict settings, on ALL-INTEGER (int64) "
    "matrices with criteria whose values are whole numbers beyond 2^53 that differ by 1-3 units (2^53+1 vs 2^53, also 2^54.., 2^62.., "
    "negative) with the same forced pairs as in (b), compared with exact integer arithmetic; "
    "(e) by-criteria filters of every class (three arithmetic ones, In, NotIn, function-based per case; ignore_missing_criteria "
    "alternating) on matrices whose CRITERION LABELS carry leading / trailing blanks or tabs ('ROE ', ' CAP') or differ from another "
    "criterion of the same matrix only by blanks or by case ('ROE ' next to 'ROE', 'Cap' next to 'CAP'); the conditions name such "
    "criteria exactly, and also near-namesakes that are NOT in the matrix (the bare label when only the padded one is a criterion, "
    "another case) - a condition applies to exactly the criterion it names, any other spelling is an absent criterion; "
    "(f) FilterNonDominated, both strict settings on ONE decision-matrix object, after a HISTORY of read-only queries on that object: "
    "dm.dominance.has_loops(strict=), dominated(strict=) whose returned Series the caller sorts / overwrites / flips in place, bt(), "
    "eq(), dominance(strict=), compare(), dominators_of(), an earlier FilterNonDominated - on matrices (rows shuffled) where a "
    "dominated alternative is listed BEFORE a non-dominated one; every run has has_loops or an in-place edit of dominated()'s answer "
    "with the run's own strict setting; the survivors are still exactly the non-dominated alternatives and the matrix is unchanged; "
    "(g) a fixed share of LONG matrices (17-60 alternatives, labels in no particular order, rows shuffled, 1-5 criteria): "
    "FilterNonDominated with both strict settings plus three by-criteria classes per case (all nine in rotation), matrices and "
    "conditions chosen so that at least two alternatives survive (and, when possible, some are removed in between): the survivors "
    "come out in their ORIGINAL RELATIVE ORDER, labels and rows; (h) a fixed share of REUSE cases: ONE filter object (three "
    "by-criteria classes per case, all nine in rotation) applied to a matrix and then, the same object, to one or two other "
    "matrices that hold the named criteria at DIFFERENT column positions (criteria re-ordered, a criterion inserted or removed "
    "before them, a narrower matrix, a named criterion gone, back to the first matrix; other alternatives and values, the "
    "columns of shared criteria seeded with the first matrix's values) - each application judged against its own matrix. "
    "Thorough tier adds the exhaustive enumeration: "
    "every matrix with <= 3 alternatives x <= 2 criteria over {0,1,2}, every non-empty condition set over {C0, C1, absent ZZ} "
    "with thresholds in {1,2} in every key order, both ignore settings, all nine by-criteria classes; and every such matrix "
    "x every objective vector x both strict settings for FilterNonDominated. "
    "Non-trivial: the run raises, or removes some but not all alternatives, or has >= 2 conditions; distinct by case hash."
)
ASSUMPTIONS = [
    "criteria and alternative labels are unique (mkdm does not enforce it; the generator does)",
    "function-based Filter: the user function is an element-wise predicate (numpy calls it once on the whole column)",
    "matrix values are finite (no NaN: `bDa_where = ~(aDb|eq)` and `np.isin` treat NaN specially)",
    "np.isin / np.greater ... on float64 are exact comparisons of the represented rationals",
]
PARTIAL = ("the tie to Python is differential; the model works on exact rationals of the same doubles, so there is no rounding "
           "to model here (filters only compare). dtypes recomputation (`dtypes=None`) is not modelled.")
EXHAUSTIVE = True

ARITH = ["GT", "GE", "LT", "LE", "EQ", "NE"]
SETS = ["In", "NotIn"]
BYCRIT = ARITH + SETS + ["Fn"]
ABSENT_POOL = ["ZZ", "missing", "C99", "roe", "Cap", "q"]


# --------------------------------------------------------------------------- generators


def _threshold(rng, col):
    r = rng.random()
    if r < 0.55:
        t = rng.choice(col)
    elif r < 0.75:
        t = rng.choice(col) + rng.choice([-1, 1]) / 8
    else:
        t = rng.randint(-8, 44) / 8
    if float(t).is_integer() and rng.random() < 0.3:
        return int(t)
    return t


def _pred(rng, col):
    k = rng.choice(["gt", "ge", "lt", "le", "eq", "ne", "between", "outside", "even8", "true"])
    if k in ("between", "outside"):
        a, b = sorted([float(_threshold(rng, col)), float(_threshold(rng, col))])
        return [k, a, b]
    if k in ("even8", "true"):
        return [k]
    return [k, float(_threshold(rng, col))]


def _conds(rng, cls, dm, force_absent=None):
    crits = dm["criteria"]
    n = len(crits)
    k_present = min(n, rng.choice([0, 1, 1, 2, 2, 3, n]))
    k_absent = rng.choice([0, 0, 0, 0, 0, 1, 1, 2]) if force_absent is None else force_absent
    if k_present + k_absent == 0:
        if rng.random() < 0.7:
            k_present = 1
        else:
            k_absent = 1
    keys = rng.sample(crits, k_present) + rng.sample([a for a in ABSENT_POOL if a not in crits], k_absent)
    rng.shuffle(keys)  # the order in which the dict is WRITTEN
    out = []
    for c in keys:
        col = [row[crits.index(c)] for row in dm["matrix"]] if c in crits else [rng.randint(0, 40) / 8]
        if cls in ARITH:
            v = _threshold(rng, col)
        elif cls in SETS:
            v = [_threshold(rng, col) for _ in range(rng.randint(1, 4))]
        else:
            v = _pred(rng, col)
        out.append([c, v])
    return out


def _random_case(rng):
    fam = rng.choice(["dyadic", "dyadic", "dyadic", "float"])
    cls = rng.choice(ARITH + ARITH + SETS + ["Fn", "Fn", "NonDominated", "NonDominated"])
    if cls == "NonDominated":
        dm = G.dm_case(rng, family=fam, positive=rng.random() < 0.6, ties=rng.choice([0.2, 0.5, 0.8]), dups=0.2,
                       dominated=rng.choice([0.0, 0.4, 0.7]), max_m=12, max_n=6)
        runs = [{"cls": cls, "strict": s} for s in rng.sample([False, True], rng.choice([1, 2]))]
        return {"dm": dm, "runs": runs}
    dm = G.dm_case(rng, family=fam, positive=rng.random() < 0.6, ties=rng.choice([0.2, 0.5, 0.8]), dups=0.15, max_m=12, max_n=6)
    conds = _conds(rng, cls, dm)
    runs = [{"cls": cls, "conds": conds, "ignore": rng.random() < 0.5}]
    r = rng.random()
    if r < 0.25 and len(conds) > 1:
        # the same condition set written in another key order
        other = list(conds)
        rng.shuffle(other)
        runs.append({"cls": cls, "conds": other, "ignore": runs[0]["ignore"]})
    elif r < 0.4:
        runs.append({"cls": cls, "conds": conds, "ignore": not runs[0]["ignore"]})
    elif r < 0.5 and cls in ARITH:
        runs.append({"cls": rng.choice(ARITH), "conds": conds, "ignore": runs[0]["ignore"]})
    return {"dm": dm, "runs": runs}


# ---- long condition sets (FilterIn / FilterNotIn)


def _long_set(rng, col, repeats):
    """13..40 values: some of the column's own values (so that a value shared by several alternatives is in the set, and another
    shared value is not), near misses of the column's values and foreign values; optionally with values repeated inside the set"""
    distinct = sorted(set(col))
    shared = [v for v in distinct if col.count(v) > 1]
    size = rng.randint(13, 40)
    inside = set(rng.sample(distinct, rng.randint(0, len(distinct))))
    if len(shared) >= 2:  # at least one shared value in the set and one shared value outside it
        a, b = rng.sample(shared, 2)
        inside.add(a)
        inside.discard(b)
    elif shared and rng.random() < 0.7:
        inside.discard(shared[0])
    elif shared:
        inside.add(shared[0])
    outside = set(distinct) - inside
    vals = list(inside)
    span = max(abs(x) for x in col) or 1.0
    guard = 0
    while len(set(vals)) < (size if not repeats else max(7, size - rng.randint(2, size // 2))) and guard < 1000:
        guard += 1
        r = rng.random()
        if r < 0.35:
            x = rng.choice(col) + rng.choice([-1, 1]) * rng.randint(1, 6) / 8  # a neighbour on the k/8 grid
        elif r < 0.55:
            x = rng.choice(col) * (1 + rng.choice([-1, 1]) * 2.0 ** -rng.randint(20, 50))  # a near miss
        elif r < 0.8:
            x = rng.randint(-16, 80) / 8
        else:
            x = rng.uniform(-span, 2 * span)
        if x in outside or x in vals:
            continue
        vals.append(int(x) if float(x).is_integer() and rng.random() < 0.2 else x)
    while len(vals) < size:  # values repeated inside the condition set
        vals.append(rng.choice(vals))
    rng.shuffle(vals)
    return vals


def _long_set_case(rng):
    fam = rng.choice(["dyadic", "float", "float"])
    dm = G.dm_case(rng, family=fam, positive=rng.random() < 0.6, ties=rng.choice([0.3, 0.5, 0.8]), dups=0.15, max_m=12, max_n=6, min_m=3)
    if dm["int_matrix"]:
        # float-valued criteria: keep the grid but leave the whole numbers (dtype float64, at least one non-integer cell per column)
        dm["int_matrix"] = False
        dm["matrix"] = [[x / 8 for x in row] for row in dm["matrix"]]
    crits = dm["criteria"]
    n = len(crits)
    keys = rng.sample(crits, min(n, rng.choice([1, 1, 2, 2, 3]))) + \
        rng.sample([a for a in ABSENT_POOL if a not in crits], rng.choice([0, 0, 0, 1]))
    rng.shuffle(keys)
    conds = []
    n_long = 0
    for c in keys:
        if c in crits:
            col = [row[crits.index(c)] for row in dm["matrix"]]
            if n_long == 0 or rng.random() < 0.6:
                conds.append([c, _long_set(rng, col, repeats=rng.random() < 0.5)])
                n_long += 1
            else:
                conds.append([c, [_threshold(rng, col) for _ in range(rng.randint(1, 4))]])
        else:
            conds.append([c, [rng.randint(0, 40) / 8 for _ in range(rng.choice([1, 3, 17]))]])
    cls = rng.choice(SETS)
    ig = rng.random() < 0.5 or any(c not in crits for c in keys) and rng.random() < 0.7
    runs = [{"cls": cls, "conds": conds, "ignore": ig}]
    r = rng.random()
    if r < 0.5:
        runs.append({"cls": "NotIn" if cls == "In" else "In", "conds": conds, "ignore": ig})
    elif r < 0.7 and len(conds) > 1:
        other = list(conds)
        rng.shuffle(other)
        runs.append({"cls": cls, "conds": other, "ignore": ig})
    return {"dm": dm, "runs": runs}


# ---- set filters on integer-typed criteria with members that are not whole numbers


def _int_set_case(rng):
    """FilterIn / FilterNotIn on an ALL-INTEGER matrix (int64 storage) whose condition sets hold, next to whole numbers, members that are
    not whole numbers and whose truncation / rounding IS a value of the criterion (5.5, 4.9999, 5.0000001 when 5 is present): such a
    member matches no alternative; a membership test carried out after converting the set to the column's dtype would match"""
    dm = G.dm_case(rng, family="dyadic", positive=rng.random() < 0.7, ties=0.5, dups=0.1, max_m=10, max_n=5, min_m=3)
    dm["matrix"] = [[float(rng.randint(-3, 9)) for _ in row] for row in dm["matrix"]]
    dm["int_matrix"] = True
    crits = dm["criteria"]
    keys = rng.sample(crits, min(len(crits), rng.choice([1, 1, 2])))
    conds = []
    for c in keys:
        col = [row[crits.index(c)] for row in dm["matrix"]]
        present = sorted(set(col))
        vals = []
        for v in rng.sample(present, min(len(present), rng.randint(1, 3))):  # near a present value, never equal to one
            vals.append(v + rng.choice([0.5, -0.5, 0.25, 0.875, -0.125, 2.0 ** -20, -(2.0 ** -20)]))
        for v in rng.sample(present, rng.randint(0, min(2, len(present)))):  # and some genuine members, as int or float
            vals.append(int(v) if rng.random() < 0.5 else v)
        vals += [rng.choice([11.0, 12.5, -7.25, 100]) for _ in range(rng.randint(0, 2))]
        rng.shuffle(vals)
        conds.append([c, vals])
    cls = rng.choice(SETS)
    runs = [{"cls": cls, "conds": conds, "ignore": rng.random() < 0.3}, {"cls": "NotIn" if cls == "In" else "In", "conds": conds, "ignore": False}]
    return {"dm": dm, "runs": runs}


# ---- near ties (FilterNonDominated): values that differ by a tiny, non-zero amount


def _near_pool(rng, kind):
    """a few values of one criterion, pairwise equal or different by a tiny amount, plus (sometimes) one clearly different value"""
    if kind == "big":
        c = float(rng.choice([250000, 1000000, 123456, 2 ** 20, 999999, 87654321]) + rng.randint(0, 3))
        pool = [c, c + 1, c - 1, c + 2]
        far = c + rng.choice([-1, 1]) * rng.choice([1000, 50000])
    elif kind == "tiny":
        c = rng.randint(3, 9) * 1e-9
        pool = [c, c + 2e-9, c - 2e-9, c + 1e-9]
        far = c * 1000
    elif kind == "decimal":
        a, b = rng.randint(1, 9), rng.randint(1, 9)
        pool = [a / 10 + b / 10, (a + b) / 10, (a / 10) * ((a + b) / a), 0.1 * (a + b)]
        far = (a + b) / 10 + rng.choice([-0.05, 0.25])
    elif kind == "rel":
        c = math.ldexp(rng.uniform(0.5, 1.0), rng.randint(-6, 18))
        e = 2.0 ** -24
        pool = [c, c * (1 + e), c * (1 - e), c * (1 + 3 * e)]
        far = c * rng.choice([0.5, 1.5])
    elif kind == "ulp":
        c = math.ldexp(rng.uniform(0.5, 1.0), rng.randint(-6, 9))
        pool = [c, math.nextafter(c, math.inf), math.nextafter(c, -math.inf), math.nextafter(math.nextafter(c, math.inf), math.inf)]
        far = c + rng.choice([-1, 1]) * c / 4
    else:  # plain k/8 grid
        c = rng.randint(8, 40) / 8
        pool = [c, c + 0.125, c - 0.125, c + 0.25]
        far = c + rng.choice([-2, 2])
    pool = pool[: rng.randint(2, 4)]
    if rng.random() < 0.4:
        pool.append(far)
    return pool


NEAR_KINDS = ["big", "tiny", "decimal", "rel", "ulp", "plain"]


def _forced_rows(rng, m, n, objs, pools):
    """m rows drawn from the per-criterion pools + forced pairs whose dominance is decided by a tiny difference alone"""
    rows = [[rng.choice(pools[j]) for j in range(n)] for _ in range(m)]

    def worse(j, x, tiny=True):
        """the nearest other pool value that is worse than x on criterion j (None if x is already the worst)"""
        cand = [v for v in pools[j] if (v < x if objs[j] == 1 else v > x)]
        if not cand:
            return None
        return (max(cand) if objs[j] == 1 else min(cand)) if tiny else (min(cand) if objs[j] == 1 else max(cand))

    # forced pairs whose dominance is decided by a tiny difference alone
    for i in range(1, m):
        r = rng.random()
        if r < 0.45:
            k = rng.randrange(i)
            rows[i] = list(rows[k])
            how = rng.choice(["one-worse", "all-worse", "one-better-rest-worse"])
            js = list(range(n))
            rng.shuffle(js)
            if how == "one-worse":
                for j in js[: rng.randint(1, max(1, n - 1))]:
                    w = worse(j, rows[i][j])
                    if w is not None:
                        rows[i][j] = w
            elif how == "all-worse":
                for j in js:
                    w = worse(j, rows[i][j])
                    if w is not None:
                        rows[i][j] = w
            else:
                # row k made worse by the tiny step on one criterion: row i is then better than row k only by that step ...
                j0 = js[0]
                w = worse(j0, rows[k][j0])
                if w is not None and rng.random() < 0.7:
                    rows[k][j0] = w
                else:
                    w2 = worse(j0, rows[i][j0])
                    if w2 is not None:
                        rows[i][j0] = w2
                # ... and worse on the others
                for j in js[1:]:
                    w = worse(j, rows[i][j], tiny=rng.random() < 0.5)
                    if w is not None and rng.random() < 0.8:
                        rows[i][j] = w
    return rows


def _near_tie_case(rng):
    m = rng.randint(2, 10)
    n = rng.randint(1, 5)
    objs = G.objectives(rng, n)
    one_kind = rng.choice(NEAR_KINDS[:5]) if rng.random() < 0.5 else None
    kinds = [one_kind or rng.choice(NEAR_KINDS) for _ in range(n)]
    pools = [_near_pool(rng, k) for k in kinds]
    rows = _forced_rows(rng, m, n, objs, pools)
    whole = all(float(x).is_integer() for row in rows for x in row)
    dm = {
        "matrix": rows, "int_matrix": whole and rng.random() < 0.5, "objectives": objs, "weights": G.weights(rng, n, "dyadic"),
        "alternatives": G.labels(rng, G.LABEL_POOL_ALT, m), "criteria": G.labels(rng, G.LABEL_POOL_CRIT, n),
        "family": "near-tie:" + (one_kind or "mixed"),
    }
    return {"dm": dm, "runs": [{"cls": "NonDominated", "strict": s} for s in rng.sample([False, True], 2)]}


# ---- whole numbers beyond 2^53 (FilterNonDominated on an all-integer matrix): exact in int64, equal after rounding to a double


def _bigint_pool(rng):
    sign = -1 if rng.random() < 0.2 else 1
    e = rng.choice([53, 53, 53, 54, 55, 60, 62])
    c = 2 ** e + 2 * rng.randint(0, 2 ** 20)  # an even whole number >= 2^53: c + 1 is not a double
    pool = [sign * v for v in [c, c + 1, c - 1 if e > 53 else c + 3, c + 2][: rng.randint(2, 4)]]
    if rng.random() < 0.4:
        pool.append(sign * (c + rng.choice([-1, 1]) * rng.choice([2 ** 12, 2 ** 30])))
    return pool


def _small_int_pool(rng):
    c = rng.randint(1, 40)
    pool = [c, c + 1, c - 1, c + 2][: rng.randint(2, 4)]
    if rng.random() < 0.4:
        pool.append(c + rng.choice([-20, 20]))
    return pool


def _bigint_nd_case(rng):
    m = rng.randint(2, 8)
    n = rng.randint(1, 5)
    objs = G.objectives(rng, n)
    big = [True] * n if rng.random() < 0.4 else [rng.random() < 0.5 for _ in range(n)]
    big[rng.randrange(n)] = True
    pools = [_bigint_pool(rng) if b else _small_int_pool(rng) for b in big]
    rows = _forced_rows(rng, m, n, objs, pools)
    dm = {
        "matrix": [[int(x) for x in row] for row in rows], "int_matrix": True, "objectives": objs,
        "weights": G.weights(rng, n, "dyadic"),
        "alternatives": G.labels(rng, G.LABEL_POOL_ALT, m), "criteria": G.labels(rng, G.LABEL_POOL_CRIT, n),
        "family": "int-beyond-2^53",
    }
    return {"dm": dm, "runs": [{"cls": "NonDominated", "strict": s} for s in rng.sample([False, True], 2)]}


# ---- function-based Filter whose conditions look at the criterion as a whole (median, mean, max, rank ...)

COLREL_ORDER = ["eq_max", "lt_max", "eq_min", "gt_min", "top", "bottom", "ge_lomed", "gt_lomed", "le_lomed", "lt_lomed"]
COLREL_ARITH = ["ge_median", "gt_median", "le_median", "lt_median", "ge_mean", "gt_mean", "le_mean", "lt_mean",
                "lower_half_range", "upper_half_range"]  # float arithmetic: generated on the k/8 grid only (exact there)
COLREL = set(COLREL_ORDER + COLREL_ARITH)


def _col_induced(v, col):
    """the element-wise condition that the whole-column condition `v` IS on the criterion `col` (exact Fractions, the column as
    given, every alternative included): [name, threshold]"""
    name = v[0]
    s = sorted(col)
    m = len(s)
    if name.endswith("_median"):
        return [name[:2], (s[(m - 1) // 2] + s[m // 2]) / 2]
    if name.endswith("_mean"):
        return [name[:2], sum(s, Fraction(0)) / m]
    if name.endswith("_lomed"):
        return [name[:2], s[(m - 1) // 2]]
    if name.endswith("_max"):
        return [name[:2], s[-1]]
    if name.endswith("_min"):
        return [name[:2], s[0]]
    if name == "top":  # fewer than k values of the column are strictly greater
        return ["ge", min(x for x in s if sum(1 for y in s if y > x) < v[1])]
    if name == "bottom":  # fewer than k values of the column are strictly smaller
        return ["le", max(x for x in s if sum(1 for y in s if y < x) < v[1])]
    if name == "lower_half_range":
        return ["le", s[0] + (s[-1] - s[0]) / 2]
    if name == "upper_half_range":
        return ["ge", s[0] + (s[-1] - s[0]) / 2]
    raise KeyError(name)


def _fn_survivors(dm, conds, on_the_fly=False):
    """indices satisfying every condition on a present criterion; on_the_fly=False: every condition judged on the criterion as
    given (what the property says); True: each condition judged on what the conditions written before it left - used by the
    generator only, to pick condition sets for which the two differ"""
    crits, rows = dm["criteria"], dm["matrix"]
    alive = list(range(len(rows)))
    for c, v in conds:
        if c not in crits or not alive:
            continue
        j = crits.index(c)
        if v[0] in COLREL:
            v = _col_induced(v, [C.F(rows[i][j]) for i in (alive if on_the_fly else range(len(rows)))])
        alive = [i for i in alive if _sat("Fn", rows[i][j], v)]
    return alive


def _colrel_pred(rng, m, exact_arith):
    r = rng.random()
    if exact_arith and r < 0.6:
        return [rng.choice(COLREL_ARITH)]
    k = rng.choice(COLREL_ORDER)
    if k in ("top", "bottom"):
        return [k, rng.randint(1, max(1, m - 1))]
    return [k]


def _colrel_case(rng):
    best = None
    for _ in range(8):
        fam = rng.choice(["dyadic", "dyadic", "float"])
        dm = G.dm_case(rng, family=fam, positive=rng.random() < 0.6, ties=rng.choice([0.1, 0.3, 0.5]), dups=0.1,
                       max_m=12, max_n=6, min_m=4, min_n=2)
        crits, m = dm["criteria"], len(dm["matrix"])
        for _ in range(40):
            keys = rng.sample(crits, rng.randint(2, min(len(crits), 4)))
            conds = []
            for p, c in enumerate(keys):
                col = [row[crits.index(c)] for row in dm["matrix"]]
                if p == len(keys) - 1 and not any(v[0] in COLREL for _, v in conds[1:]) or rng.random() < 0.5:
                    conds.append([c, _colrel_pred(rng, m, fam == "dyadic")])
                else:
                    conds.append([c, _pred(rng, col)])
            best = best or (dm, conds)
            if _fn_survivors(dm, conds) != _fn_survivors(dm, conds, on_the_fly=True):
                best = (dm, conds)
                break
        else:
            continue
        break
    dm, conds = best
    ig = rng.random() < 0.5
    if rng.random() < 0.15:  # plus a condition on an absent criterion, anywhere
        conds = list(conds)
        conds.insert(rng.randint(0, len(conds)), [rng.choice([a for a in ABSENT_POOL if a not in dm["criteria"]]), _pred(rng, [rng.randint(0, 40) / 8])])
        ig = rng.random() < 0.8
    runs = [{"cls": "Fn", "conds": conds, "ignore": ig}]
    other = list(reversed(conds)) if rng.random() < 0.5 else rng.sample(conds, len(conds))
    if other != conds:
        runs.append({"cls": "Fn", "conds": other, "ignore": ig})
    return {"dm": dm, "runs": runs}


# ---- criterion labels with blanks around them, or differing only by blanks / case from another criterion of the matrix


def _label_variants(b):
    """spellings that differ from the label b only by surrounding blanks or by case (b itself first), without repeats"""
    vs = [b, b + " ", " " + b, " " + b + " ", b + "  ", "\t" + b, b + "\t", b.lower(), b.upper(), b.capitalize(), b.swapcase(),
          b.lower() + " ", " " + b.upper(), "  " + b.swapcase()]
    out = []
    for v in vs:
        if v not in out:
            out.append(v)
    return out


def _cond_value(rng, cls, col):
    if cls in ARITH:
        return _threshold(rng, col)
    if cls in SETS:
        return [_threshold(rng, col) for _ in range(rng.randint(1, 4))]
    return _pred(rng, col)


def _label_case(rng, k):
    dm = G.dm_case(rng, family=rng.choice(["dyadic", "dyadic", "float"]), positive=rng.random() < 0.6, ties=rng.choice([0.2, 0.5]),
                   dups=0.1, max_m=10, max_n=6, min_m=3, min_n=2)
    n = len(dm["criteria"])
    bases = rng.sample(G.LABEL_POOL_CRIT, n)
    crits, special, near = [], [], []
    for g, b in enumerate(bases):
        room = n - len(crits)
        if room == 0:
            break
        vs = _label_variants(b)
        blank = [v for v in vs if v != v.strip()]
        r = rng.random()
        if g > 0 and r < 0.25:  # an ordinary criterion (its other spellings are absent criteria)
            pick = [b]
        elif r < 0.55 or room == 1:  # a label with blanks around it; the bare label is NOT a criterion
            pick = [rng.choice(blank)]
        elif r < 0.85:  # the bare label next to another spelling of it
            pick = [b, rng.choice(vs[1:])]
        else:
            pick = rng.sample(vs, min(room, rng.choice([2, 3])))
        crits += pick
        if not (len(pick) == 1 and pick[0] == b):
            special += pick
        near += [v for v in vs if v not in pick]
    rng.shuffle(crits)
    assert len(crits) == n and len(set(crits)) == n
    near = [v for v in near if v not in crits]
    dm["criteria"] = crits
    dm["family"] = "labels:blanks/case"
    # the criteria named by the conditions: at least one special one, exactly spelled; some near-namesakes that are absent
    keys = rng.sample(special, min(len(special), rng.choice([1, 1, 2, 3])))
    keys += rng.sample([c for c in crits if c not in keys], min(n - len(keys), rng.choice([0, 0, 1])))
    keys += rng.sample(near, rng.choice([0, 0, 1, 1, 2]))
    rng.shuffle(keys)
    runs = []
    for idx, cls in enumerate(rng.sample(ARITH, 3) + ["In", "NotIn", "Fn"]):
        conds = []
        for c in keys:
            col = [row[crits.index(c)] for row in dm["matrix"]] if c in crits else [rng.randint(0, 40) / 8]
            conds.append([c, _cond_value(rng, cls, col)])
        if rng.random() < 0.3:
            rng.shuffle(conds)
        runs.append({"cls": cls, "conds": conds, "ignore": (k + idx) % 2 == 0})
    return {"dm": dm, "runs": runs}


# ---- FilterNonDominated after a history of read-only queries on the same decision-matrix object

SERIES_EDITS = ["sort_values", "sort_values_desc", "sort_index", "sort_index_desc", "all_false", "all_true", "flip", "reverse",
                "toggle_first", "buffer_flip", "drop_first"]
FRAME_EDITS = ["none", "none", "fill", "sort_index_desc", "drop_first"]


def _history_dm(rng):
    """a matrix with dominated (and strictly dominated) alternatives, rows shuffled so that a dominated alternative is listed before
    a non-dominated one"""
    best = None
    for attempt in range(40):
        m, n = rng.randint(3, 9), rng.randint(1, 4)
        fam = rng.choice(["dyadic", "dyadic", "float"])
        positive = rng.random() < 0.6
        objs = G.objectives(rng, n)
        rows = G.matrix(rng, m, n, fam, positive, ties=rng.choice([0.1, 0.3, 0.5]), dups=0.1, dominated=rng.choice([0.3, 0.6]), objs=objs)
        for i in range(1, m):
            if rng.random() < 0.3:  # worse than an earlier row on EVERY criterion: strictly dominated
                src = rows[rng.randrange(i)]
                rows[i] = [x - (rng.randint(1, 8) / 8 if fam == "dyadic" else abs(x) * rng.uniform(0.01, 0.5) + 2.0 ** -10) * o
                           for x, o in zip(src, objs)]
        rng.shuffle(rows)
        int_matrix = False
        if fam == "dyadic" and rng.random() < 0.25:
            rows = [[float(int(x * 8)) for x in row] for row in rows]
            int_matrix = True
        dm = {"matrix": rows, "int_matrix": int_matrix, "objectives": objs, "weights": G.weights(rng, n, "dyadic"),
              "alternatives": G.labels(rng, G.LABEL_POOL_ALT, m), "criteria": G.labels(rng, G.LABEL_POOL_CRIT, n),
              "family": "history:" + fam}
        ok = []
        for s in (False, True):
            keep = set(oracle(dm, {"cls": "NonDominated", "strict": s}))
            gone = [i for i in range(m) if i not in keep]
            ok.append(bool(gone) and min(gone) < max(keep))
        if all(ok) or (ok[0] and attempt >= 25):
            return dm
        if ok[0] and best is None:
            best = dm
    return best or dm


def _history_step(rng, m, s):
    r = rng.random()
    s2 = s if rng.random() < 0.7 else not s
    if r < 0.15:
        return ["has_loops", s2]
    if r < 0.35:
        return ["dominated", s2, rng.choice(["none"] + SERIES_EDITS)]
    if r < 0.45:
        return ["bt", rng.choice(FRAME_EDITS)]
    if r < 0.55:
        return ["eq", rng.choice(FRAME_EDITS)]
    if r < 0.7:
        return ["dominance", s2, rng.choice(FRAME_EDITS)]
    if r < 0.82:
        i, k = rng.sample(range(m), 2)
        return ["compare", i, k]
    if r < 0.92:
        return ["dominators_of", rng.randrange(m), s2]
    return ["filter", s2]


def _history_case(rng, k):
    dm = _history_dm(rng)
    m = len(dm["matrix"])
    runs = []
    for s in ([False, True] if k % 2 == 0 else [True, False]):
        steps = [_history_step(rng, m, s) for _ in range(rng.randint(0, 3))]
        # the run's own strict setting: the loop query, or dominated() whose answer the caller then edits in place
        must = ["has_loops", s] if rng.random() < 0.5 else ["dominated", s, rng.choice(SERIES_EDITS)]
        steps.insert(rng.randint(0, len(steps)), must)
        runs.append({"cls": "NonDominated", "strict": s, "pre": steps})
    return {"dm": dm, "runs": runs}


# ---- long matrices (17-60 alternatives): the survivors keep their original relative order


def _many_alt_labels(rng, m):
    return rng.sample(G.LABEL_POOL_ALT + ["R%02d" % i for i in range(30)], m)


def _pick_conds(rng, cls, dm, min_keep=2, tries=25):
    """a condition set of class cls that leaves at least min_keep alternatives (and, if possible, removes some)"""
    best = None
    for _ in range(tries):
        absent = 1 if rng.random() < 0.15 else 0
        conds = _conds(rng, cls, dm, force_absent=absent)
        run = {"cls": cls, "conds": conds, "ignore": bool(absent) or rng.random() < 0.3}
        keep = oracle(dm, run)
        if len(keep) >= min_keep:
            if len(keep) < len(dm["matrix"]):
                return run
            best = best or run
    return best or run


def _order_case(rng, k):
    dm = None
    for attempt in range(30):
        # the dominance tables of the implementation cost m^2: most matrices just past 16 alternatives, a fifth up to 60
        m = rng.choice([rng.randint(17, 24), rng.randint(17, 24), rng.randint(17, 32), rng.randint(25, 40), rng.randint(41, 60)])
        n = rng.choice([1, 2, 2, 3, 3, 4, 5])
        fam = rng.choice(["dyadic", "dyadic", "float"])
        positive = rng.random() < 0.6
        objs = G.objectives(rng, n)
        rows = G.matrix(rng, m, n, fam, positive, ties=rng.choice([0.1, 0.3, 0.6]), dups=rng.choice([0.0, 0.1]),
                        dominated=rng.choice([0.2, 0.5, 0.8]), objs=objs)
        rng.shuffle(rows)
        int_matrix = False
        if fam == "dyadic" and rng.random() < 0.25:
            rows = [[float(int(x * 8)) for x in row] for row in rows]
            int_matrix = True
        dm = {"matrix": rows, "int_matrix": int_matrix, "objectives": objs, "weights": G.weights(rng, n, "dyadic"),
              "alternatives": _many_alt_labels(rng, m), "criteria": G.labels(rng, G.LABEL_POOL_CRIT, n), "family": "long:" + fam}
        keeps = [oracle(dm, {"cls": "NonDominated", "strict": s}) for s in (False, True)]
        if all(len(kp) >= 2 for kp in keeps) and len(keeps[0]) < m:
            break
    runs = [{"cls": "NonDominated", "strict": s} for s in ([False, True] if k % 2 == 0 else [True, False])]
    for t in range(3):
        runs.append(_pick_conds(rng, BYCRIT[(3 * k + t) % len(BYCRIT)], dm))
    return {"dm": dm, "runs": runs}


# ---- one filter object applied to several matrices that hold the named criteria at different column positions


def _derived_dm(rng, dm, named):
    """another decision matrix (other alternatives, other values) whose criteria are those of dm re-ordered / with a criterion
    inserted or removed before the named ones / cut down to a narrower matrix; returns (matrix, how)"""
    crits = list(dm["criteria"])
    here = [c for c in crits if c in named]
    how = rng.choice(["reorder", "reorder", "insert-before", "remove-before", "narrower", "narrower", "reorder+insert", "drop-named"])
    new = list(crits)
    fresh = [c for c in G.LABEL_POOL_CRIT if c not in crits and c not in named]

    def moved(cs):
        return any(c in cs and cs.index(c) != crits.index(c) for c in here)

    if how == "remove-before":
        first = [c for c in crits[: max([crits.index(c) for c in here] or [0])] if c not in named]
        if first:
            new.remove(rng.choice(first))
        else:
            how = "insert-before"
    if how == "drop-named":
        if len(here) >= 1 and len(crits) >= 2:
            new.remove(rng.choice(here))
            rng.shuffle(new)
        else:
            how = "insert-before"
    if how == "narrower":
        keep = list(here) + rng.sample([c for c in crits if c not in here], rng.randint(0, max(0, len(crits) - len(here) - 1)))
        if 0 < len(keep) < len(crits):
            new = keep
            for _ in range(8):
                rng.shuffle(new)
                if moved(new):
                    break
        else:
            how = "reorder"
    if how in ("reorder", "reorder+insert"):
        if len(crits) >= 2:
            for _ in range(8):
                rng.shuffle(new)
                if moved(new):
                    break
        else:
            how = "insert-before"
    if how in ("insert-before", "reorder+insert"):
        pos = min([new.index(c) for c in here if c in new] or [0])
        for c in rng.sample(fresh, rng.choice([1, 1, 2])):
            new.insert(rng.randint(0, pos), c)
    n2, m2 = len(new), rng.randint(1, 12)
    fam = "float" if str(dm.get("family")).endswith("float") else "dyadic"
    positive = all(x > 0 for row in dm["matrix"] for x in row)
    rows = G.matrix(rng, m2, n2, fam, positive, ties=rng.choice([0.2, 0.5]), dups=0.1)
    if dm.get("int_matrix"):
        rows = [[float(int(x * 8)) for x in row] for row in rows]
    for j, c in enumerate(new):  # shared criteria: about half of the cells take a value of that criterion in the first matrix
        if c in crits:
            col = [row[crits.index(c)] for row in dm["matrix"]]
            for i in range(m2):
                if rng.random() < 0.5:
                    rows[i][j] = rng.choice(col)
    out = {"matrix": rows, "int_matrix": bool(dm.get("int_matrix")), "objectives": G.objectives(rng, n2), "weights": G.weights(rng, n2, "dyadic"),
           "alternatives": G.labels(rng, G.LABEL_POOL_ALT, m2), "criteria": new, "family": "reuse:" + how}
    return out, how


def _reuse_case(rng, k):
    dm = G.dm_case(rng, family=rng.choice(["dyadic", "dyadic", "float"]), positive=rng.random() < 0.6, ties=rng.choice([0.2, 0.5]),
                   dups=0.1, max_m=12, max_n=6, min_m=2, min_n=2)
    crits = dm["criteria"]
    # the criteria that the conditions name: the same keys for the runs of the case (values per class), not the first column alone
    keys = rng.sample(crits, min(len(crits), rng.choice([1, 2, 2, 3])))
    if keys == [crits[0]] and rng.random() < 0.7:
        keys = [rng.choice(crits[1:])]
    absent = rng.sample([a for a in ABSENT_POOL if a not in crits], rng.choice([0, 0, 0, 1]))
    keys += absent
    rng.shuffle(keys)
    runs = []
    for t in range(3):
        cls = BYCRIT[(3 * k + t) % len(BYCRIT)]
        conds = []
        for c in keys:
            col = [row[crits.index(c)] for row in dm["matrix"]] if c in crits else [rng.randint(0, 40) / 8]
            conds.append([c, _cond_value(rng, cls, col)])
        runs.append({"cls": cls, "conds": conds, "ignore": (rng.random() < 0.8) if absent else (k + t) % 2 == 0})
    reuse = []
    for _ in range(rng.choice([1, 1, 2])):
        reuse.append(_derived_dm(rng, dm, keys)[0])
    if rng.random() < 0.3:
        reuse.append(dm)  # ... and back to the first matrix
    return {"dm": dm, "runs": runs, "reuse": reuse}


def _malformed_cases(rng):
    dm = G.dm_case(rng, family="dyadic", max_m=4, max_n=3)
    c0 = dm["criteria"][0]
    return [
        {"dm": dm, "runs": [{"cls": cls, "conds": [], "ignore": ig} for cls in ["GT", "In", "Fn"] for ig in (False, True)]},
        {"dm": dm, "runs": [{"cls": "In", "conds": [[c0, []]], "ignore": False}, {"cls": "NotIn", "conds": [[c0, []]], "ignore": True}]},
    ]


def _small_dm(rows, objs=None):
    n = len(rows[0])
    return {
        "matrix": [[float(x) for x in r] for r in rows],
        "objectives": list(objs) if objs else [1, -1][:n],
        "weights": [1.0, 2.0][:n],
        "alternatives": ["a", "b", "c"][: len(rows)],
        "criteria": ["C0", "C1"][:n],
        "family": "exhaustive",
    }


def _small_condsets(n):
    """every non-empty condition set over {C0, (C1), absent ZZ}, thresholds in {1,2} (ZZ: 1), every key order"""
    keys = ["C0", "C1", "ZZ"] if n == 2 else ["C0", "ZZ"]
    out = []
    for k in range(1, len(keys) + 1):
        for sub in itertools.combinations(keys, k):
            alph = [[1] if c == "ZZ" else [1, 2] for c in sub]
            for ts in itertools.product(*alph):
                for order in itertools.permutations(range(k)):
                    out.append([[sub[i], ts[i]] for i in order])
    return out


def _as_cls(cls, conds):
    """the exhaustive threshold t as a condition of class `cls`"""
    if cls in ARITH:
        return [[c, t] for c, t in conds]
    if cls in SETS:
        return [[c, [1] if t == 1 else [0, 2]] for c, t in conds]
    return [[c, ["ge", float(t)] if c != "C1" else ["ne", float(t)]] for c, t in conds]


def _exhaustive():
    cases = []
    for n in (1, 2):
        csets = _small_condsets(n)
        for m in (1, 2, 3):
            for flat in itertools.product((0, 1, 2), repeat=m * n):
                rows = [list(flat[i * n:(i + 1) * n]) for i in range(m)]
                dm = _small_dm(rows)
                for conds in csets:
                    cases.append({"dm": dm, "runs": [{"cls": cls, "conds": _as_cls(cls, conds), "ignore": ig}
                                                     for ig in (False, True) for cls in BYCRIT]})
                for objs in itertools.product((1, -1), repeat=n):
                    cases.append({"dm": _small_dm(rows, objs), "runs": [{"cls": "NonDominated", "strict": s} for s in (False, True)]})
    return cases


def gen(ctx):
    rng = ctx.rng
    cases = []
    for _ in range(ctx.n(1200, 8000)):
        cases.append(_random_case(rng))
    for _ in range(ctx.n(3, 20)):
        cases.extend(_malformed_cases(rng))
    for _ in range(ctx.n(250, 2000)):
        cases.append(_long_set_case(rng))
    for _ in range(ctx.n(300, 2500)):
        cases.append(_near_tie_case(rng))
    for _ in range(ctx.n(300, 1500)):
        cases.append(_colrel_case(rng))
    for _ in range(ctx.n(150, 600)):
        cases.append(_bigint_nd_case(rng))
    for _ in range(ctx.n(120, 600)):
        cases.append(_int_set_case(rng))
    for k in range(ctx.n(220, 1200)):
        cases.append(_label_case(rng, k))
    for k in range(ctx.n(220, 1200)):
        cases.append(_history_case(rng, k))
    for k in range(ctx.n(120, 600)):
        cases.append(_order_case(rng, k))
    for k in range(ctx.n(240, 1200)):
        cases.append(_reuse_case(rng, k))
    if ctx.thorough:
        cases.extend(_exhaustive())
    return cases


def search_gen(ctx):
    rng = ctx.rng
    return [_random_case(rng) for _ in range(3000)] + [_long_set_case(rng) for _ in range(600)] + [_near_tie_case(rng) for _ in range(600)] + \
        [_colrel_case(rng) for _ in range(600)] + [_bigint_nd_case(rng) for _ in range(300)] + \
        [_label_case(rng, k) for k in range(400)] + [_history_case(rng, k) for k in range(400)] + \
        [_order_case(rng, k) for k in range(300)] + [_reuse_case(rng, k) for k in range(600)]


# --------------------------------------------------------------------------- implementation side

_NP_PRED = {
    "gt": lambda a: (lambda e: e > a[0]),
    "ge": lambda a: (lambda e: e >= a[0]),
    "lt": lambda a: (lambda e: e < a[0]),
    "le": lambda a: (lambda e: e <= a[0]),
    "eq": lambda a: (lambda e: e == a[0]),
    "ne": lambda a: (lambda e: e != a[0]),
    "between": lambda a: (lambda e: (e >= a[0]) & (e <= a[1])),
    "outside": lambda a: (lambda e: (e < a[0]) | (e > a[1])),
    "even8": lambda a: (lambda e: np.mod(e * 8, 2) == 0),
    "true": lambda a: (lambda e: np.ones(np.shape(e), dtype=bool)),
    # functions of the criterion as a whole (the function receives the whole column, as documented)
    "ge_median": lambda a: (lambda e: e >= np.median(e)),
    "gt_median": lambda a: (lambda e: e > np.median(e)),
    "le_median": lambda a: (lambda e: e <= np.median(e)),
    "lt_median": lambda a: (lambda e: e < np.median(e)),
    "ge_mean": lambda a: (lambda e: e >= np.mean(e)),
    "gt_mean": lambda a: (lambda e: e > np.mean(e)),
    "le_mean": lambda a: (lambda e: e <= e.mean()),
    "lt_mean": lambda a: (lambda e: e < e.mean()),
    "ge_lomed": lambda a: (lambda e: e >= np.sort(e)[(len(e) - 1) // 2]),
    "gt_lomed": lambda a: (lambda e: e > np.sort(e)[(len(e) - 1) // 2]),
    "le_lomed": lambda a: (lambda e: e <= np.sort(e)[(len(e) - 1) // 2]),
    "lt_lomed": lambda a: (lambda e: e < np.sort(e)[(len(e) - 1) // 2]),
    "eq_max": lambda a: (lambda e: e == e.max()),
    "lt_max": lambda a: (lambda e: e < np.max(e)),
    "eq_min": lambda a: (lambda e: e == e.min()),
    "gt_min": lambda a: (lambda e: e > np.min(e)),
    "top": lambda a: (lambda e: (e[None, :] > e[:, None]).sum(axis=1) < a[0]),
    "bottom": lambda a: (lambda e: (e[None, :] < e[:, None]).sum(axis=1) < a[0]),
    "lower_half_range": lambda a: (lambda e: e - e.min() <= (e.max() - e.min()) / 2),
    "upper_half_range": lambda a: (lambda e: e - e.min() >= (e.max() - e.min()) / 2),
}


def _build(run):
    from skcriteria.preprocessing import filters as F

    cls = run["cls"]
    if cls == "NonDominated":
        return F.FilterNonDominated(strict=run["strict"])
    d = {}
    for c, v in run["conds"]:  # insertion order = the order in which the conditions are written
        if cls in ARITH:
            d[c] = v
        elif cls in SETS:
            d[c] = list(v)
        else:
            d[c] = _NP_PRED[v[0]](v[1:])
    klass = F.Filter if cls == "Fn" else getattr(F, "Filter" + cls)
    return klass(d, ignore_missing_criteria=run["ignore"])


def _dm_obs(dm):
    a = dm.matrix.to_numpy()
    return {
        "alts": [str(a) for a in dm.alternatives],
        # an all-integer matrix is reported as the (exact) integers it holds, anything else as doubles
        "matrix": a.tolist() if a.dtype.kind in "iu" else np.asarray(a, dtype=float).tolist(),
        "criteria": [str(c) for c in dm.criteria],
        "objectives": [int(o) for o in dm.iobjectives],
        "weights": [float(w) for w in dm.weights],
    }


def _edit_series(a, how):
    """what a caller may do, in place, to the Series an accessor handed out (it is the caller's own object)"""
    if how == "sort_values":
        a.sort_values(inplace=True)
    elif how == "sort_values_desc":
        a.sort_values(ascending=False, inplace=True)
    elif how == "sort_index":
        a.sort_index(inplace=True)
    elif how == "sort_index_desc":
        a.sort_index(ascending=False, inplace=True)
    elif how == "all_false":
        a[:] = False
    elif how == "all_true":
        a[:] = True
    elif how == "flip":
        a[:] = ~a.to_numpy()
    elif how == "reverse":
        a[:] = a.to_numpy()[::-1].copy()
    elif how == "toggle_first":
        a.iloc[0] = not bool(a.iloc[0])
    elif how == "buffer_flip":
        v = a.values
        v[:] = ~v
    elif how == "drop_first":
        a.drop(a.index[0], inplace=True)


def _edit_frame(df, how):
    if how == "fill":
        df.iloc[:, :] = df.to_numpy()[::-1].copy()  # rows overwritten with the rows in reverse order (same types)
    elif how == "sort_index_desc":
        df.sort_index(ascending=False, inplace=True)
    elif how == "drop_first":
        df.drop(index=df.index[0], inplace=True)


def _do_step(dm, step):
    """one read-only query on the decision matrix (and, possibly, a caller-side edit of the ANSWER); returns a status string"""
    from skcriteria.preprocessing import filters as F

    op = step[0]
    alts = list(dm.alternatives)
    try:
        if op == "has_loops":
            dm.dominance.has_loops(strict=step[1])
            return "ok"
        if op == "dominated":
            ans, edit, how = dm.dominance.dominated(strict=step[1]), _edit_series, step[2]
        elif op == "bt":
            ans, edit, how = dm.dominance.bt(), _edit_frame, step[1]
        elif op == "eq":
            ans, edit, how = dm.dominance.eq(), _edit_frame, step[1]
        elif op == "dominance":
            ans, edit, how = dm.dominance.dominance(strict=step[1]), _edit_frame, step[2]
        elif op == "compare":
            ans, edit, how = dm.dominance.compare(alts[step[1]], alts[step[2]]), _edit_frame, "fill"
        elif op == "dominators_of":
            ans = dm.dominance.dominators_of(alts[step[1]], strict=step[2])
            if len(ans):
                ans[:] = ans[::-1].copy()
            return "ok"
        elif op == "filter":
            F.FilterNonDominated(strict=step[1]).transform(dm)
            return "ok"
        else:
            raise KeyError(op)
    except Exception as e:  # a query that raises is not this property's business: recorded, the run goes on
        return "query-raised:" + G.err_name(e)
    try:
        edit(ans, how)
    except Exception as e:  # the caller's edit was refused (read-only buffer ...): nothing happened
        return "edit-refused:" + G.err_name(e)
    return "ok"


def observe(case):
    import warnings

    with warnings.catch_warnings():
        warnings.simplefilter("ignore")
        out = []
        dm = G.mkdm(case["dm"])  # one matrix, all the runs of the case on it (transform must not touch it)
        others = [G.mkdm(d) for d in case.get("reuse", [])]  # further matrices, given to the SAME filter object afterwards

        def apply(flt, x, pre=None):
            try:
                res = flt.transform(x)
            except Exception as e:
                return {"err": G.err_name(e), "stage": "transform", "msg": str(e)[:120]}
            return dict(_dm_obs(res), pre=pre) if pre else _dm_obs(res)

        for run in case["runs"]:
            try:
                flt = _build(run)
            except Exception as e:
                out.append({"err": G.err_name(e), "stage": "init", "msg": str(e)[:120]})
                continue
            pre = [_do_step(dm, st) for st in run.get("pre", [])]  # the history: queries made on this very object beforehand
            o = apply(flt, dm, pre)
            if others:
                o["then"] = [apply(flt, x) for x in others]
            out.append(o)
        obs = {"runs": out, "input_after": _dm_obs(dm)}
        if others:
            obs["reuse_after"] = [_dm_obs(x) for x in others]
        return obs


# --------------------------------------------------------------------------- model side


def _enc_cond(cls, v):
    if cls in ARITH:
        return C.rat(v)
    if cls in SETS:
        return [C.rat(x) for x in v]
    return [v[0]] + [C.rat(x) for x in v[1:]]


def _enc_run(run, version="fixed", dm=None):
    r = {"cls": run["cls"], "version": version}
    if run["cls"] == "NonDominated":
        r["strict"] = run["strict"]
    else:
        conds = run["conds"]
        if run["cls"] == "Fn":
            # the model knows element-wise predicates: a whole-column function is sent as the element-wise condition it is on the
            # criterion as given (absent criterion: the function is never called, any descriptor will do)
            conds = [[c, (_col_induced(v, [C.F(row[dm["criteria"].index(c)]) for row in dm["matrix"]]) if c in dm["criteria"]
                          else ["true"]) if v[0] in COLREL else v] for c, v in conds]
        r["conds"] = [[c, _enc_cond(run["cls"], v)] for c, v in conds]
        r["ignore_missing"] = run["ignore"]
    return r


def _request(dm, runs):
    base = {"criteria": dm["criteria"], "alternatives": dm["alternatives"], "matrix": C.ratmat(dm["matrix"]),
            "objectives": dm["objectives"]}
    if len(runs) == 1:
        return dict(base, op="filter", **runs[0])
    return dict(base, op="filter_multi", runs=runs)


def requests(case, obs):
    dm = case["dm"]
    runs = [_enc_run(r, dm=dm) for r in case["runs"]]
    # the pre-fix pairing, as a diagnosis when an arithmetic run fails
    runs += [_enc_run(r, "v0") for r in case["runs"] if r["cls"] in ARITH]
    reqs = [_request(dm, runs)]
    for d in case.get("reuse", []):  # the same filters on each further matrix: one request per matrix
        reqs.append(_request(d, [_enc_run(r, dm=d) for r in case["runs"]]))
    return reqs


# --------------------------------------------------------------------------- the property, from its text


def _sat(cls, x, v):
    """does the value x satisfy the condition v of a filter of class cls? (exact arithmetic)"""
    x = C.F(x)
    if cls in ARITH:
        t = C.F(v)
        return {"GT": x > t, "GE": x >= t, "LT": x < t, "LE": x <= t, "EQ": x == t, "NE": x != t}[cls]
    if cls == "In":
        return any(x == C.F(u) for u in v)
    if cls == "NotIn":
        return all(x != C.F(u) for u in v)
    name, args = v[0], [C.F(u) for u in v[1:]]
    if name in ("gt", "ge", "lt", "le", "eq", "ne"):
        return _sat(name.upper(), x, v[1])
    if name == "between":
        return args[0] <= x <= args[1]
    if name == "outside":
        return x < args[0] or x > args[1]
    if name == "even8":
        y = x * 8
        return y.denominator == 1 and y.numerator % 2 == 0
    if name == "true":
        return True
    raise KeyError(name)


def _better(o, x, y):
    return x > y if o == 1 else x < y


def _dominates(objs, a, b, strict):
    bt = [_better(o, x, y) for o, x, y in zip(objs, a, b)]
    if strict:
        return len(bt) > 0 and all(bt)
    wt = [_better(o, y, x) for o, x, y in zip(objs, a, b)]
    return any(bt) and not any(wt)


def oracle(dm, run):
    """expected survivors (indices) or 'ValueError', straight from the property text"""
    crits, rows = dm["criteria"], dm["matrix"]
    m = len(rows)
    if run["cls"] == "NonDominated":
        fr = [[C.F(x) for x in r] for r in rows]
        return [i for i in range(m) if not any(k != i and _dominates(dm["objectives"], fr[k], fr[i], run["strict"]) for k in range(m))]
    absent = [c for c, _ in run["conds"] if c not in crits]
    if absent and not run["ignore"]:
        return "ValueError"
    keep = []
    for i in range(m):
        ok = True
        for c, v in run["conds"]:
            if c not in crits:
                continue  # only that condition is skipped
            if run["cls"] == "Fn" and v[0] in COLREL:
                # a function of the criterion as a whole: judged on the criterion AS GIVEN (all the alternatives of the matrix)
                v = _col_induced(v, [C.F(r[crits.index(c)]) for r in rows])
            if not _sat(run["cls"], rows[i][crits.index(c)], v):  # value looked up BY CRITERION LABEL
                ok = False
        if ok:
            keep.append(i)
    return keep


def _constructor_refuses(run):
    if run["cls"] == "NonDominated":
        return False
    return len(run["conds"]) == 0 or (run["cls"] in SETS and any(len(v) == 0 for _, v in run["conds"]))


def _judge_application(out, dm, run, o, mrep, v0rep, label, replay):
    """one application of one filter to one decision matrix: model vs implementation, and the property from its text"""

    def prop(what, expected=None, observed=None):
        out.append({"kind": "property", "what": f"{label}: {what}", "expected": expected, "observed": observed, "case": replay})

    def corr(what, expected=None, observed=None):
        out.append({"kind": "correspondence", "what": f"{label}: {what}", "expected": expected, "observed": observed, "case": replay})

    # ---- correspondence: model vs implementation (errors by class, survivors and their rows exactly)
    if "err" in o:
        if mrep.get("err") != o["err"]:
            corr("model and implementation disagree on the error", mrep, {"err": o["err"], "stage": o["stage"], "msg": o["msg"]})
    else:
        if "err" in mrep:
            corr("model refuses, implementation answers", mrep, o["alts"])
        else:
            if mrep["alts"] != o["alts"]:
                corr("survivors: model vs implementation", mrep["alts"], o["alts"])
            elif mrep["rows"] != C.ratmat(o["matrix"]):
                corr("surviving rows: model vs implementation", mrep["rows"], C.ratmat(o["matrix"]))
    # ---- property
    if _constructor_refuses(run):
        # outside the quantifier ("non-empty sets of conditions"): checked against the model only
        return
    exp = oracle(dm, run)
    if exp == "ValueError":
        if o.get("err") != "ValueError":
            prop("a condition names an absent criterion and missing criteria are not ignored: ValueError expected",
                 "ValueError", o.get("err") or o["alts"])
        return
    if "err" in o:
        prop(f"raised {o['err']} ({o['msg']}) although every condition is on a present criterion or missing criteria are ignored",
             [dm["alternatives"][j] for j in exp], o["err"])
        return
    exp_alts = [dm["alternatives"][j] for j in exp]
    if o["alts"] != exp_alts:
        note = ""
        if v0rep is not None and v0rep.get("alts") == o["alts"]:
            note = " [the implementation agrees with the pre-fix pairing arithMask_v0: columns in matrix order, thresholds in dict order]"
        if sorted(o["alts"]) == sorted(exp_alts):
            prop("survivors are not in their original relative order" + note, exp_alts, o["alts"])
        elif run["cls"] == "NonDominated":
            prop("survivors are not exactly the alternatives that no other alternative %sdominates"
                 % ("strictly " if run["strict"] else ""), exp_alts, o["alts"])
        else:
            prop("survivors are not exactly the alternatives that satisfy every condition on the criterion it names" + note,
                 exp_alts, o["alts"])
        return
    exp_rows = [dm["matrix"][j] for j in exp]
    if o["matrix"] != exp_rows and not (len(exp_rows) == 0 and len(o["matrix"]) == 0):
        prop("a surviving alternative's row is not its original row", exp_rows, o["matrix"])
    if o["criteria"] != dm["criteria"] or o["objectives"] != dm["objectives"] or o["weights"] != dm["weights"]:
        prop("criteria / objectives / weights were changed by a filter",
             [dm["criteria"], dm["objectives"], dm["weights"]], [o["criteria"], o["objectives"], o["weights"]])


def _unchanged(out, dm, ia, case):
    if ia["alts"] != dm["alternatives"] or ia["matrix"] != dm["matrix"] or ia["criteria"] != dm["criteria"] or \
            ia["objectives"] != dm["objectives"] or ia["weights"] != dm["weights"]:
        out.append({"kind": "property", "what": "the input decision matrix was modified by a filter's transform",
                    "expected": dm, "observed": ia, "case": case})


def judge(case, obs, replies):
    out = []
    dm = case["dm"]
    n_runs = len(case["runs"])
    rep = replies[0]
    model = [rep] if "results" not in rep else rep["results"]
    later = [[r] if "results" not in r else r["results"] for r in replies[1:]]  # one reply per further matrix (reuse)
    reuse = case.get("reuse", [])
    v0 = {}
    k = n_runs
    for i, run in enumerate(case["runs"]):
        if run["cls"] in ARITH:
            v0[i] = model[k]
            k += 1

    def single(i):
        if any(r.get("pre") for r in case["runs"][: i + 1]):
            return {"dm": dm, "runs": case["runs"][: i + 1]}  # the history includes the earlier runs on the same object
        return {"dm": dm, "runs": [case["runs"][i]]}

    for i, (run, o) in enumerate(zip(case["runs"], obs["runs"])):
        label = ("Filter" if run["cls"] == "Fn" else "Filter" + run["cls"])
        if run["cls"] != "NonDominated":
            label += "(%s%s)" % ("{" + ", ".join(f"{c!r}: {v!r}" for c, v in run["conds"]) + "}",
                                 ", ignore_missing_criteria=True" if run["ignore"] else "")
        else:
            label += "(strict=%s)" % run["strict"]
            if run.get("pre"):
                label += " after " + ", ".join("%s(%s)" % (st[0], ", ".join(map(str, st[1:]))) for st in run["pre"])
        _judge_application(out, dm, run, o, model[i], v0.get(i), label, single(i))
        # the same filter object on the further matrices: each application against ITS OWN matrix
        for q, (d, oq) in enumerate(zip(reuse, o.get("then", []))):
            lab = "%s, the same filter object then applied to matrix #%d (criteria %r; before it: %s)" % (
                label, q + 2, d["criteria"], ", ".join(repr(x["criteria"]) for x in [dm] + reuse[:q]))
            _judge_application(out, d, run, oq, later[q][i], None, lab, {"dm": dm, "runs": [run], "reuse": reuse[: q + 1]})
    _unchanged(out, dm, obs["input_after"], case)
    for d, ia in zip(reuse, obs.get("reuse_after", [])):
        _unchanged(out, d, ia, case)
    return out


def nontrivial(case, obs):
    m = len(case["dm"]["alternatives"])
    for run, o in zip(case["runs"], obs["runs"]):
        if "err" in o or 0 < len(o["alts"]) < m or len(run.get("conds", [])) >= 2 or run.get("pre") or o.get("then"):
            return True
    return False


def tags(case, obs):
    t = []
    dm = case["dm"]
    crits = dm["criteria"]
    t.append("family:" + str(dm.get("family")))
    for d in case.get("reuse", []):
        t.append("reuse:further-matrix:" + str(d.get("family"))[6:] if d is not dm else "reuse:back-to-the-first-matrix")
        named = {c for run in case["runs"] for c, _ in run["conds"]}
        if d is not dm and any(c in d["criteria"] and d["criteria"].index(c) != crits.index(c) for c in named if c in crits):
            t.append("reuse:a-named-criterion-at-another-column-position")
        if len(d["criteria"]) <= max([crits.index(c) for c in named if c in crits] or [0]):
            t.append("reuse:further-matrix-narrower-than-a-named-criterion's-first-position")
    for run, o in zip(case["runs"], obs["runs"]):
        t.append("cls:" + run["cls"])
        if len(dm["matrix"]) >= 17 and "err" not in o and len(o["alts"]) >= 2:
            t.append("long:17+alternatives,2+survivors:" + ("NonDominated" if run["cls"] == "NonDominated" else "by-criteria"))
            keep = set(o["alts"])
            flags = [a in keep for a in dm["alternatives"]]
            if False in flags and flags.index(False) < len(flags) - 1 - flags[::-1].index(True):
                t.append("long:a-removed-alternative-listed-before-a-survivor")
        for oq in o.get("then", []):
            t.append("reuse:application:" + ("raised:" + oq["err"] if "err" in oq else "answered"))
        if "err" in o:
            t.append("raised:" + o["err"])
        elif len(o["alts"]) == 0:
            t.append("no-survivor")
        elif len(o["alts"]) == len(dm["alternatives"]):
            t.append("all-survive")
        else:
            t.append("some-survive")
        if run["cls"] == "NonDominated":
            t.append("strict" if run["strict"] else "non-strict")
            if run.get("pre"):
                t.append("history:queries-before-the-filter")
                for st, status in zip(run["pre"], o.get("pre", [])):
                    if status != "ok":
                        t.append("history:" + st[0] + ":" + status)
                    if st[0] == "has_loops" and st[1] == run["strict"]:
                        t.append("history:has_loops(same strict)")
                    if st[0] == "dominated" and st[1] == run["strict"] and st[2] != "none":
                        t.append("history:dominated(same strict) answer edited in place")
                keep = set(oracle(dm, run))
                gone = [i for i in range(len(dm["matrix"])) if i not in keep]
                if gone and keep and min(gone) < max(keep):
                    t.append("history:a-dominated-alternative-listed-before-a-non-dominated-one")
            cols = list(zip(*dm["matrix"]))
            if any(x != y and abs(x - y) <= 1e-5 * max(abs(x), abs(y)) for col in cols for x in set(col) for y in set(col)):
                t.append("nd:two-alternatives-differ-by-a-tiny-amount")
            if dm.get("int_matrix") and any(x != y and float(x) == float(y) for col in cols for x in set(col) for y in set(col)):
                t.append("nd:int-matrix,two-values-beyond-2^53-differ-but-are-the-same-double")
            continue
        if run["cls"] in SETS:
            for c, v in run["conds"]:
                if len(v) >= 13:
                    t.append("set:13+values")
                    if len(set(v)) < len(v):
                        t.append("set:13+values-with-repeats")
                    if c in crits:
                        col = [row[crits.index(c)] for row in dm["matrix"]]
                        sh = {x for x in col if col.count(x) > 1}
                        if any(x in v for x in sh):
                            t.append("set:13+values,shared-value-in-set")
                        if any(x not in v for x in sh):
                            t.append("set:13+values,shared-value-not-in-set")
        if run["cls"] == "Fn" and any(v[0] in COLREL for _, v in run["conds"]):
            t.append("fn:whole-column-condition")
            if any(v[0] in COLREL for _, v in run["conds"][1:]):
                t.append("fn:whole-column-condition-not-written-first")
            if _fn_survivors(dm, run["conds"]) != _fn_survivors(dm, run["conds"], on_the_fly=True):
                t.append("fn:earlier-conditions-reject-alternatives-that-shift-a-later-column-statistic")
        t.append("ignore" if run["ignore"] else "no-ignore")
        named = [c for c, _ in run["conds"]]
        if any(c in crits and c != c.strip() for c in named):
            t.append("label:condition-on-a-criterion-with-blanks-around-its-label")
        norm = lambda x: x.strip().casefold()  # noqa: E731
        if any(c in crits and any(d != c and norm(d) == norm(c) for d in crits) for c in named if isinstance(c, str)):
            t.append("label:condition-on-a-criterion-with-a-namesake-up-to-blanks/case-in-the-matrix")
        if any(c not in crits and any(norm(d) == norm(c) for d in crits) for c in named if isinstance(c, str)):
            t.append("label:condition-names-an-absent-respelling-of-a-criterion")
        present = [c for c, _ in run["conds"] if c in crits]
        if len(present) < len(run["conds"]):
            t.append("has-absent-criterion")
        if [crits.index(c) for c in present] != sorted(crits.index(c) for c in present):
            t.append("key-order-differs-from-matrix-order")
        if run["cls"] in ARITH and any(C.F(row[crits.index(c)]) == C.F(v) for c, v in run["conds"] if c in crits for row in dm["matrix"]):
            t.append("threshold-tie")
    return t
