"""C14 — filters keep exactly the alternatives that satisfy every condition."""
from __future__ import annotations

import itertools
from fractions import Fraction

import numpy as np

import common as C
import gen as G

PID = "C14"
RULE = (
    "cases: one decision matrix (1-12 alternatives x 1-6 criteria, mixed objectives, dyadic values k/8 with ties and "
    "duplicated rows; a share of arbitrary doubles) + one or more filter runs on it. A run = filter class "
    "(FilterGT/GE/LT/LE/EQ/NE, FilterIn/NotIn, function-based Filter with named element-wise predicates, "
    "FilterNonDominated) + an ORDERED condition dict over present AND absent criteria written in a random key order "
    "(thresholds drawn from the column's own values, so ties with the threshold are hit exactly) + "
    "ignore_missing_criteria in {False, True} + strict in {False, True}. Thorough tier adds the exhaustive enumeration: "
    "every matrix with <= 3 alternatives x <= 2 criteria over {0,1,2}, every non-empty condition set over {C0, C1, absent ZZ} "
    "with thresholds in {1,2} in every key order, both ignore settings, all nine by-criteria classes; and every such matrix "
    "x every objective vector x both strict settings for FilterNonDominated. "
    "Non-trivial: the run raises, or removes some but not all alternatives, or has >= 2 conditions; distinct by case hash."
)
ASSUMPTIONS = [
    "criteria and alternative labels are unique (mkdm does not enforce it; the generator does)",
    "function-based Filter: the user function is an element-wise predicate (numpy calls it once on the whole column)",
    "matrix values are finite (no NaN: `bDa_where = ~(aDb|eq)` and `np.isin` treat NaN specially)",
    "np.isin / np.greater ... on float64 are exact comparisons of the represented rationals",
]
PARTIAL = ("the tie to Python is differential; the model works on exact rationals of the same doubles, so there is no rounding "
           "to model here (filters only compare). dtypes recomputation (`dtypes=None`) is not modelled.")
EXHAUSTIVE = True

ARITH = ["GT", "GE", "LT", "LE", "EQ", "NE"]
SETS = ["In", "NotIn"]
BYCRIT = ARITH + SETS + ["Fn"]
ABSENT_POOL = ["ZZ", "missing", "C99", "roe", "Cap", "q"]


# --------------------------------------------------------------------------- generators


def _threshold(rng, col):
    r = rng.random()
    if r < 0.55:
        t = rng.choice(col)
    elif r < 0.75:
        t = rng.choice(col) + rng.choice([-1, 1]) / 8
    else:
        t = rng.randint(-8, 44) / 8
    if float(t).is_integer() and rng.random() < 0.3:
        return int(t)
    return t


def _pred(rng, col):
    k = rng.choice(["gt", "ge", "lt", "le", "eq", "ne", "between", "outside", "even8", "true"])
    if k in ("between", "outside"):
        a, b = sorted([float(_threshold(rng, col)), float(_threshold(rng, col))])
        return [k, a, b]
    if k in ("even8", "true"):
        return [k]
    return [k, float(_threshold(rng, col))]


def _conds(rng, cls, dm, force_absent=None):
    crits = dm["criteria"]
    n = len(crits)
    k_present = min(n, rng.choice([0, 1, 1, 2, 2, 3, n]))
    k_absent = rng.choice([0, 0, 0, 0, 0, 1, 1, 2]) if force_absent is None else force_absent
    if k_present + k_absent == 0:
        if rng.random() < 0.7:
            k_present = 1
        else:
            k_absent = 1
    keys = rng.sample(crits, k_present) + rng.sample([a for a in ABSENT_POOL if a not in crits], k_absent)
    rng.shuffle(keys)  # the order in which the dict is WRITTEN
    out = []
    for c in keys:
        col = [row[crits.index(c)] for row in dm["matrix"]] if c in crits else [rng.randint(0, 40) / 8]
        if cls in ARITH:
            v = _threshold(rng, col)
        elif cls in SETS:
            v = [_threshold(rng, col) for _ in range(rng.randint(1, 4))]
        else:
            v = _pred(rng, col)
        out.append([c, v])
    return out


def _random_case(rng):
    fam = rng.choice(["dyadic", "dyadic", "dyadic", "float"])
    cls = rng.choice(ARITH + ARITH + SETS + ["Fn", "Fn", "NonDominated", "NonDominated"])
    if cls == "NonDominated":
        dm = G.dm_case(rng, family=fam, positive=rng.random() < 0.6, ties=rng.choice([0.2, 0.5, 0.8]), dups=0.2,
                       dominated=rng.choice([0.0, 0.4, 0.7]), max_m=12, max_n=6)
        runs = [{"cls": cls, "strict": s} for s in rng.sample([False, True], rng.choice([1, 2]))]
        return {"dm": dm, "runs": runs}
    dm = G.dm_case(rng, family=fam, positive=rng.random() < 0.6, ties=rng.choice([0.2, 0.5, 0.8]), dups=0.15, max_m=12, max_n=6)
    conds = _conds(rng, cls, dm)
    runs = [{"cls": cls, "conds": conds, "ignore": rng.random() < 0.5}]
    r = rng.random()
    if r < 0.25 and len(conds) > 1:
        # the same condition set written in another key order
        other = list(conds)
        rng.shuffle(other)
        runs.append({"cls": cls, "conds": other, "ignore": runs[0]["ignore"]})
    elif r < 0.4:
        runs.append({"cls": cls, "conds": conds, "ignore": not runs[0]["ignore"]})
    elif r < 0.5 and cls in ARITH:
        runs.append({"cls": rng.choice(ARITH), "conds": conds, "ignore": runs[0]["ignore"]})
    return {"dm": dm, "runs": runs}


def _malformed_cases(rng):
    dm = G.dm_case(rng, family="dyadic", max_m=4, max_n=3)
    c0 = dm["criteria"][0]
    return [
        {"dm": dm, "runs": [{"cls": cls, "conds": [], "ignore": ig} for cls in ["GT", "In", "Fn"] for ig in (False, True)]},
        {"dm": dm, "runs": [{"cls": "In", "conds": [[c0, []]], "ignore": False}, {"cls": "NotIn", "conds": [[c0, []]], "ignore": True}]},
    ]


def _small_dm(rows, objs=None):
    n = len(rows[0])
    return {
        "matrix": [[float(x) for x in r] for r in rows],
        "objectives": list(objs) if objs else [1, -1][:n],
        "weights": [1.0, 2.0][:n],
        "alternatives": ["a", "b", "c"][: len(rows)],
        "criteria": ["C0", "C1"][:n],
        "family": "exhaustive",
    }


def _small_condsets(n):
    """every non-empty condition set over {C0, (C1), absent ZZ}, thresholds in {1,2} (ZZ: 1), every key order"""
    keys = ["C0", "C1", "ZZ"] if n == 2 else ["C0", "ZZ"]
    out = []
    for k in range(1, len(keys) + 1):
        for sub in itertools.combinations(keys, k):
            alph = [[1] if c == "ZZ" else [1, 2] for c in sub]
            for ts in itertools.product(*alph):
                for order in itertools.permutations(range(k)):
                    out.append([[sub[i], ts[i]] for i in order])
    return out


def _as_cls(cls, conds):
    """the exhaustive threshold t as a condition of class `cls`"""
    if cls in ARITH:
        return [[c, t] for c, t in conds]
    if cls in SETS:
        return [[c, [1] if t == 1 else [0, 2]] for c, t in conds]
    return [[c, ["ge", float(t)] if c != "C1" else ["ne", float(t)]] for c, t in conds]


def _exhaustive():
    cases = []
    for n in (1, 2):
        csets = _small_condsets(n)
        for m in (1, 2, 3):
            for flat in itertools.product((0, 1, 2), repeat=m * n):
                rows = [list(flat[i * n:(i + 1) * n]) for i in range(m)]
                dm = _small_dm(rows)
                for conds in csets:
                    cases.append({"dm": dm, "runs": [{"cls": cls, "conds": _as_cls(cls, conds), "ignore": ig}
                                                     for ig in (False, True) for cls in BYCRIT]})
                for objs in itertools.product((1, -1), repeat=n):
                    cases.append({"dm": _small_dm(rows, objs), "runs": [{"cls": "NonDominated", "strict": s} for s in (False, True)]})
    return cases


def gen(ctx):
    rng = ctx.rng
    cases = []
    for _ in range(ctx.n(1200, 8000)):
        cases.append(_random_case(rng))
    for _ in range(ctx.n(3, 20)):
        cases.extend(_malformed_cases(rng))
    if ctx.thorough:
        cases.extend(_exhaustive())
    return cases


def search_gen(ctx):
    rng = ctx.rng
    return [_random_case(rng) for _ in range(3000)]


# --------------------------------------------------------------------------- implementation side

_NP_PRED = {
    "gt": lambda a: (lambda e: e > a[0]),
    "ge": lambda a: (lambda e: e >= a[0]),
    "lt": lambda a: (lambda e: e < a[0]),
    "le": lambda a: (lambda e: e <= a[0]),
    "eq": lambda a: (lambda e: e == a[0]),
    "ne": lambda a: (lambda e: e != a[0]),
    "between": lambda a: (lambda e: (e >= a[0]) & (e <= a[1])),
    "outside": lambda a: (lambda e: (e < a[0]) | (e > a[1])),
    "even8": lambda a: (lambda e: np.mod(e * 8, 2) == 0),
    "true": lambda a: (lambda e: np.ones(np.shape(e), dtype=bool)),
}


def _build(run):
    from skcriteria.preprocessing import filters as F

    cls = run["cls"]
    if cls == "NonDominated":
        return F.FilterNonDominated(strict=run["strict"])
    d = {}
    for c, v in run["conds"]:  # insertion order = the order in which the conditions are written
        if cls in ARITH:
            d[c] = v
        elif cls in SETS:
            d[c] = list(v)
        else:
            d[c] = _NP_PRED[v[0]](v[1:])
    klass = F.Filter if cls == "Fn" else getattr(F, "Filter" + cls)
    return klass(d, ignore_missing_criteria=run["ignore"])


def _dm_obs(dm):
    return {
        "alts": [str(a) for a in dm.alternatives],
        "matrix": np.asarray(dm.matrix.to_numpy(), dtype=float).tolist(),
        "criteria": [str(c) for c in dm.criteria],
        "objectives": [int(o) for o in dm.iobjectives],
        "weights": [float(w) for w in dm.weights],
    }


def observe(case):
    import warnings

    with warnings.catch_warnings():
        warnings.simplefilter("ignore")
        out = []
        dm = G.mkdm(case["dm"])  # one matrix, all the runs of the case on it (transform must not touch it)
        for run in case["runs"]:
            try:
                flt = _build(run)
            except Exception as e:
                out.append({"err": G.err_name(e), "stage": "init", "msg": str(e)[:120]})
                continue
            try:
                res = flt.transform(dm)
            except Exception as e:
                out.append({"err": G.err_name(e), "stage": "transform", "msg": str(e)[:120]})
                continue
            out.append(_dm_obs(res))
        return {"runs": out, "input_after": _dm_obs(dm)}


# --------------------------------------------------------------------------- model side


def _enc_cond(cls, v):
    if cls in ARITH:
        return C.rat(v)
    if cls in SETS:
        return [C.rat(x) for x in v]
    return [v[0]] + [C.rat(x) for x in v[1:]]


def _enc_run(run, version="fixed"):
    r = {"cls": run["cls"], "version": version}
    if run["cls"] == "NonDominated":
        r["strict"] = run["strict"]
    else:
        r["conds"] = [[c, _enc_cond(run["cls"], v)] for c, v in run["conds"]]
        r["ignore_missing"] = run["ignore"]
    return r


def requests(case, obs):
    dm = case["dm"]
    runs = [_enc_run(r) for r in case["runs"]]
    # the pre-fix pairing, as a diagnosis when an arithmetic run fails
    runs += [_enc_run(r, "v0") for r in case["runs"] if r["cls"] in ARITH]
    base = {"criteria": dm["criteria"], "alternatives": dm["alternatives"], "matrix": C.ratmat(dm["matrix"]),
            "objectives": dm["objectives"]}
    if len(runs) == 1:
        return [dict(base, op="filter", **runs[0])]
    return [dict(base, op="filter_multi", runs=runs)]


# --------------------------------------------------------------------------- the property, from its text


def _sat(cls, x, v):
    """does the value x satisfy the condition v of a filter of class cls? (exact arithmetic)"""
    x = C.F(x)
    if cls in ARITH:
        t = C.F(v)
        return {"GT": x > t, "GE": x >= t, "LT": x < t, "LE": x <= t, "EQ": x == t, "NE": x != t}[cls]
    if cls == "In":
        return any(x == C.F(u) for u in v)
    if cls == "NotIn":
        return all(x != C.F(u) for u in v)
    name, args = v[0], [C.F(u) for u in v[1:]]
    if name in ("gt", "ge", "lt", "le", "eq", "ne"):
        return _sat(name.upper(), x, v[1])
    if name == "between":
        return args[0] <= x <= args[1]
    if name == "outside":
        return x < args[0] or x > args[1]
    if name == "even8":
        y = x * 8
        return y.denominator == 1 and y.numerator % 2 == 0
    if name == "true":
        return True
    raise KeyError(name)


def _better(o, x, y):
    return x > y if o == 1 else x < y


def _dominates(objs, a, b, strict):
    bt = [_better(o, x, y) for o, x, y in zip(objs, a, b)]
    if strict:
        return len(bt) > 0 and all(bt)
    wt = [_better(o, y, x) for o, x, y in zip(objs, a, b)]
    return any(bt) and not any(wt)


def oracle(dm, run):
    """expected survivors (indices) or 'ValueError', straight from the property text"""
    crits, rows = dm["criteria"], dm["matrix"]
    m = len(rows)
    if run["cls"] == "NonDominated":
        fr = [[C.F(x) for x in r] for r in rows]
        return [i for i in range(m) if not any(k != i and _dominates(dm["objectives"], fr[k], fr[i], run["strict"]) for k in range(m))]
    absent = [c for c, _ in run["conds"] if c not in crits]
    if absent and not run["ignore"]:
        return "ValueError"
    keep = []
    for i in range(m):
        ok = True
        for c, v in run["conds"]:
            if c not in crits:
                continue  # only that condition is skipped
            if not _sat(run["cls"], rows[i][crits.index(c)], v):  # value looked up BY CRITERION LABEL
                ok = False
        if ok:
            keep.append(i)
    return keep


def _constructor_refuses(run):
    if run["cls"] == "NonDominated":
        return False
    return len(run["conds"]) == 0 or (run["cls"] in SETS and any(len(v) == 0 for _, v in run["conds"]))


def judge(case, obs, replies):
    out = []
    dm = case["dm"]
    n_runs = len(case["runs"])
    rep = replies[0]
    model = [rep] if "results" not in rep else rep["results"]
    v0 = {}
    k = n_runs
    for i, run in enumerate(case["runs"]):
        if run["cls"] in ARITH:
            v0[i] = model[k]
            k += 1

    def single(i):
        return {"dm": dm, "runs": [case["runs"][i]]}

    for i, (run, o) in enumerate(zip(case["runs"], obs["runs"])):
        label = ("Filter" if run["cls"] == "Fn" else "Filter" + run["cls"])
        if run["cls"] != "NonDominated":
            label += "(%s%s)" % ("{" + ", ".join(f"{c!r}: {v!r}" for c, v in run["conds"]) + "}",
                                 ", ignore_missing_criteria=True" if run["ignore"] else "")
        else:
            label += "(strict=%s)" % run["strict"]

        def prop(what, expected=None, observed=None):
            out.append({"kind": "property", "what": f"{label}: {what}", "expected": expected, "observed": observed, "case": single(i)})

        def corr(what, expected=None, observed=None):
            out.append({"kind": "correspondence", "what": f"{label}: {what}", "expected": expected, "observed": observed, "case": single(i)})

        mrep = model[i]
        # ---- correspondence: model vs implementation (errors by class, survivors and their rows exactly)
        if "err" in o:
            if mrep.get("err") != o["err"]:
                corr("model and implementation disagree on the error", mrep, {"err": o["err"], "stage": o["stage"], "msg": o["msg"]})
        else:
            if "err" in mrep:
                corr("model refuses, implementation answers", mrep, o["alts"])
            else:
                if mrep["alts"] != o["alts"]:
                    corr("survivors: model vs implementation", mrep["alts"], o["alts"])
                elif mrep["rows"] != C.ratmat(o["matrix"]):
                    corr("surviving rows: model vs implementation", mrep["rows"], C.ratmat(o["matrix"]))
        # ---- property
        if _constructor_refuses(run):
            # outside the quantifier ("non-empty sets of conditions"): checked against the model only
            continue
        exp = oracle(dm, run)
        if exp == "ValueError":
            if o.get("err") != "ValueError":
                prop("a condition names an absent criterion and missing criteria are not ignored: ValueError expected",
                     "ValueError", o.get("err") or o["alts"])
            continue
        if "err" in o:
            prop(f"raised {o['err']} ({o['msg']}) although every condition is on a present criterion or missing criteria are ignored",
                 [dm["alternatives"][j] for j in exp], o["err"])
            continue
        exp_alts = [dm["alternatives"][j] for j in exp]
        if o["alts"] != exp_alts:
            note = ""
            if i in v0 and v0[i].get("alts") == o["alts"]:
                note = " [the implementation agrees with the pre-fix pairing arithMask_v0: columns in matrix order, thresholds in dict order]"
            if sorted(o["alts"]) == sorted(exp_alts):
                prop("survivors are not in their original relative order" + note, exp_alts, o["alts"])
            elif run["cls"] == "NonDominated":
                prop("survivors are not exactly the alternatives that no other alternative %sdominates"
                     % ("strictly " if run["strict"] else ""), exp_alts, o["alts"])
            else:
                prop("survivors are not exactly the alternatives that satisfy every condition on the criterion it names" + note,
                     exp_alts, o["alts"])
            continue
        exp_rows = [dm["matrix"][j] for j in exp]
        if o["matrix"] != exp_rows and not (len(exp_rows) == 0 and len(o["matrix"]) == 0):
            prop("a surviving alternative's row is not its original row", exp_rows, o["matrix"])
        if o["criteria"] != dm["criteria"] or o["objectives"] != dm["objectives"] or o["weights"] != dm["weights"]:
            prop("criteria / objectives / weights were changed by a filter",
                 [dm["criteria"], dm["objectives"], dm["weights"]], [o["criteria"], o["objectives"], o["weights"]])
    ia = obs["input_after"]
    if ia["alts"] != dm["alternatives"] or ia["matrix"] != dm["matrix"] or ia["criteria"] != dm["criteria"] or \
            ia["objectives"] != dm["objectives"] or ia["weights"] != dm["weights"]:
        out.append({"kind": "property", "what": "the input decision matrix was modified by a filter's transform",
                    "expected": dm, "observed": ia, "case": case})
    return out


def nontrivial(case, obs):
    m = len(case["dm"]["alternatives"])
    for run, o in zip(case["runs"], obs["runs"]):
        if "err" in o or 0 < len(o["alts"]) < m or len(run.get("conds", [])) >= 2:
            return True
    return False


def tags(case, obs):
    t = []
    dm = case["dm"]
    crits = dm["criteria"]
    t.append("family:" + str(dm.get("family")))
    for run, o in zip(case["runs"], obs["runs"]):
        t.append("cls:" + run["cls"])
        if "err" in o:
            t.append("raised:" + o["err"])
        elif len(o["alts"]) == 0:
            t.append("no-survivor")
        elif len(o["alts"]) == len(dm["alternatives"]):
            t.append("all-survive")
        else:
            t.append("some-survive")
        if run["cls"] == "NonDominated":
            t.append("strict" if run["strict"] else "non-strict")
            continue
        t.append("ignore" if run["ignore"] else "no-ignore")
        present = [c for c, _ in run["conds"] if c in crits]
        if len(present) < len(run["conds"]):
            t.append("has-absent-criterion")
        if [crits.index(c) for c in present] != sorted(crits.index(c) for c in present):
            t.append("key-order-differs-from-matrix-order")
        if run["cls"] in ARITH and any(C.F(row[crits.index(c)]) == C.F(v) for c, v in run["conds"] if c in crits for row in dm["matrix"]):
            t.append("threshold-tie")
    return t
