"""C09 — SIMUS stages are optimal LP solutions credited to the right alternatives."""
from __future__ import annotations

from fractions import Fraction

import numpy as np

import common as C
import gen as G
import methods as M

PID = "C09"
RULE = (
    "cases: (positive matrix, objectives, b, rank_by) for SIMUS; 2..30 alternatives with at least 40 % of the cases above ten, "
    "2..5 criteria with at least two maximise criteria (all-max and mixed objective vectors, 0..n-2 minimise criteria), dyadic "
    "(k/8) and arbitrary doubles with per-criterion magnitudes 1e-1..1e3 (float64 decision matrix) and whole numbers 1..4/9/20/100/1000 "
    "handed over as an int64 decision matrix (a quarter of the cases), rank_by in {1, 2}, b in {None, partially given with "
    "None entries, fully given} drawn around the column maxima / minima; for int64 matrices the supplied bounds are NON-INTEGER "
    "(k+1/2, k+1/4, k+1/8, k+u), mostly strictly between the criterion's min and max, and re-drawn until a supplied bound has a "
    "non-zero dual value in some stage (binding); at least 20 % of the cases are int64 + partially given b + fractional binding "
    "bound. On top of these: DUPLICATED CRITERIA - two criteria with identical values for every alternative (equal columns): both "
    "maximised with automatic bounds, both maximised with a user bound strictly below the column maximum on one of them, both "
    "minimised (automatic bounds or a user bound above the minimum on one), one maximised and one minimised; re-drawn until every "
    "stage is feasible and bounded and (same-sense twins) the twin's constraint is NEEDED in the stage optimising the other twin "
    "(without it the second solver's optimum moves or the stage is unbounded); and all-maximise problems with a user bound of 0 on "
    "one criterion (every other stage is the zero vector). At least 30 % of the cases have an empty stage (exactly one minimise "
    "criterion, or a zero bound). MULTI-STEP HISTORIES on a caller-owned b: b is a NUMPY array (an object array holding None for the "
    "unspecified entries; a quarter of these drawn freely, some fully specified object / float64 arrays) and the SAME array object is "
    "first handed to one or two evaluate() calls on OTHER decision matrices of the same criteria (columns scaled by 0.3..3, own "
    "number of alternatives; by the same SIMUS instance or another one), then to the judged evaluation: every clause below applies "
    "with b as the user wrote it, each stage program's right-hand sides must be the supplied b / the column maximum or minimum of the "
    "judged matrix (exact, all cases), the caller's array must be unchanged after every call, and programs, lp_values and ranking are "
    "compared with a fresh instance given a fresh list (re-drawn until every stage program of the judged matrix is feasible and bounded). "
    "REVISITED DECISION MATRIX (a fixed share of every run, own loop): ONE decision matrix (same values, dtype, objectives, solver; the same "
    "DecisionMatrix object or one rebuilt from the same values; the same SIMUS instance or another one, any rank_by) is evaluated two "
    "or three times in a row in one process with DIFFERENT right-hand sides - b=None, a TIGHT partially given b (None entries; every "
    "supplied bound strictly below the column maximum / above the column minimum), another partially / fully given b, in the orders "
    "none>tight, none>tight>other, tight>none, tight>tight', none>tight>none, tight>other>none - re-drawn until every stage program of "
    "every evaluation is feasible and bounded and the optimum of some stage MOVES (second solver, > 1e-3 relative) between consecutive "
    "evaluations; EVERY evaluation of the sequence is held to the LP clauses for ITS OWN b (exact right-hand sides of its programs, "
    "lp_values by variable name, feasibility in exact arithmetic, optimum against the second solver, lp_objective, stage rows = the "
    "normalised solution), the last one to all clauses including the proved checker. "
    "b reaches SIMUS and the model exactly as the user wrote it (None / python floats; rationals of those floats). Per case: (i) every PuLP problem object "
    "(sense, objective, each constraint's coefficients / sense / rhs, variable bounds) against the Lean model's stageLP, exactly; "
    "(ii) lp_values[i] against the value of the variable named x{i} read from the solved problem; (iii) every stage solution "
    "checked for feasibility (exact rational arithmetic) and optimality through the PROVED certificate checker (Lean certCheck, "
    "exact rationals) with a dual vector obtained from scipy/HiGHS as an untrusted hint, eps = delta = 1e-6*scale; (iv) stage rows, "
    "both scores, tita's, dominance table, the per-criterion dominance tables (dominance_by_criteria: one table per criterion, in criterion "
    "order, table k entry (a, b) = max(row_k[a] - row_k[b], 0)) and ranking against an independent Fraction evaluation of the SIMUS formulas on the "
    "implementation's own lp_values, and against the Lean model (simus-post; domByCrit of stage k through the one-stage simus-post of stage k). Cases in which some stage program is infeasible / "
    "not reported Optimal are outside the property's quantifier: skipped and counted. Non-trivial: every stage Optimal, and at "
    "least one stage with a non-zero solution."
)
ASSUMPTIONS = [
    "the LP solver (CBC via PuLP) is external: optimality is established per generated stage by the proved checker "
    "(Skc.C09.cert_sound), not for all inputs",
    "CBC reports about 8 significant digits: feasibility, dual feasibility and the duality gap are accepted within 1e-6*scale, "
    "scale = max(1, max|b|, max|a|*sum|x|); the proved margin is delta' = delta + eps*sum(x') (delta when the dual vector is exactly feasible)",
    "scipy.optimize.linprog(method='highs') supplies the dual vector (sign-clipped, scaled by 1 +- 1e-9 to make it exactly feasible): "
    "an untrusted hint, everything it claims is re-checked by certCheck in exact rationals",
    "numeric agreement of derived quantities means |impl - exact| <= 1e-9*scale; discrete outputs are compared exactly and recomputed "
    "from the implementation's own reported numbers",
]
PARTIAL = ("optimality is certified per generated instance by a proved checker, not proved for all inputs - the simplex "
           "implementation is outside any model; IEEE rounding of the post-processing is not modelled (theorems over ordered fields)")
TRUSTED = ["scipy/HiGHS only as a source of dual-vector hints and of a second optimum value; PuLP's in-memory problem object is taken "
           "to be what is written to CBC"]

F = C.F


# ----------------------------------------------------------------------------- generation


def _value(rng, family, scale):
    if family == "dyadic":
        return rng.randint(1, 128) / 8.0
    if family == "int":
        # whole numbers, carried as python ints; observe builds an int64 decision matrix from them
        return rng.randint(1, max(2, int(round(scale))))
    return scale * rng.uniform(0.1, 1.0)


_FRACS = [0.5, 0.25, 0.75, 0.125, 0.5, 0.5]


def _int_bound(rng, col, obj):
    """a NON-INTEGER bound for a whole-number criterion: mostly strictly inside (min, max) of the column, so that it is
    tighter than the automatic bound and can be binding; sometimes outside (scaled like the float families)"""
    lo, hi = min(col), max(col)
    frac = rng.choice(_FRACS + [round(rng.uniform(0.05, 0.95), 3)])
    if lo < hi and rng.random() < 0.8:
        return float(rng.randint(lo, hi - 1) + frac)
    if obj == 1:
        return float(int(hi * rng.choice([0.5, 0.75, 1.0, 1.25, 2.0])) + frac)
    return float(int(lo * rng.choice([0.25, 0.5, 1.0, 1.5])) + frac)


def _draw_b(rng, mat, objs, family, bmode):
    m, n = len(mat), len(objs)
    if bmode == "none":
        return None
    b = []
    for j in range(n):
        col = [mat[i][j] for i in range(m)]
        if family == "int":
            v = _int_bound(rng, col, objs[j])
        elif objs[j] == 1:
            v = max(col) * rng.choice([0.5, 0.75, 1.0, 1.25, 2.0, rng.uniform(0.5, 2.0)])
        else:
            v = min(col) * rng.choice([0.25, 0.5, 1.0, 1.5, rng.uniform(0.25, 1.5)])
        b.append(float(v))
    if bmode == "partial":
        k = rng.randint(1, n - 1)
        for j in rng.sample(range(n), k):
            b[j] = None
    return b


def binding_given(case):
    """(criterion, stage) pairs in which a user-SPECIFIED bound carries a non-zero dual value in the stage's program
    (second solver): the optimum of that stage depends on the exact value of the supplied bound.  Empty when some
    stage program is infeasible / unbounded (outside the quantifier)."""
    if case["b"] is None:
        return []
    n = len(case["objectives"])
    out = []
    for z in range(n):
        lp = oracle_lp(case, z)
        h = highs(lp)
        if h["status"] != 0:
            return []
        for con, y in zip(lp["constraints"], h["y"]):
            if case["b"][con["crit"]] is not None and abs(y) > 1e-9:
                out.append((con["crit"], z))
    return out


def _matrix(rng, m, n, family):
    if family == "int":
        scales = [rng.choice([4, 9, 20, 100, 1000]) for _ in range(n)]
    else:
        scales = [10 ** rng.uniform(-1, 3) for _ in range(n)]
    return [[_value(rng, family, scales[j]) for j in range(n)] for _ in range(m)]


def one_case(rng, m=None, n=None, family=None, bmode=None, binding=None, n_min=None):
    if m is None:
        m = rng.randint(11, 30) if rng.random() < 0.5 else rng.randint(2, 10)
    if n is None:
        n = rng.randint(2, 5)
    if family is None:
        family = rng.choice(["dyadic", "float", "float", "int"])
    if bmode is None:
        bmode = rng.choice(["none", "partial", "partial", "full"])
    if binding is None:
        # whole-number matrices: the supplied (fractional) bounds are re-drawn until one of them is binding in some stage
        binding = family == "int" and bmode != "none"
    if n_min is None:
        n_min = rng.randrange(0, n - 1)
    objs = [-1] * n_min + [1] * (n - n_min)
    rng.shuffle(objs)
    mat = _matrix(rng, m, n, family)
    case = {"kind": "simus", "matrix": mat, "objectives": objs, "b": None, "rank_by": rng.choice([1, 2]), "family": family, "bmode": bmode,
            "dtype": "int64" if family == "int" else "float64"}
    for _ in range(12 if binding else 1):
        case["b"] = _draw_b(rng, mat, objs, family, bmode)
        if not binding or binding_given(case):
            break
    return case


def _is_int_partial(c):
    """whole-number (int64) matrix + user b with None entries and a non-integer bound on a specified entry"""
    return (c.get("dtype") == "int64" and c["b"] is not None and any(v is None for v in c["b"])
            and any(v is not None and v != int(v) for v in c["b"]))


# ---- duplicated criteria: two criteria with IDENTICAL values for every alternative


def _opt(lp):
    """(status, optimum) of a stage program according to the second solver; a program without constraints is
    unbounded when maximised (positive coefficients) and 0 when minimised"""
    if not lp["constraints"]:
        return (3, None) if lp["sense"] == "max" else (0, 0.0)
    h = highs(lp)
    return h["status"], h.get("fun")


def needed_constraints(case, pairs):
    """those (stage z, criterion k) of `pairs` for which the constraint of criterion k is NEEDED in stage z: without it the
    stage program stops being bounded or its optimum moves (second solver).  None when some stage program of the case is
    infeasible / unbounded (outside the quantifier)."""
    n = len(case["objectives"])
    full = [_opt(oracle_lp(case, z)) for z in range(n)]
    if any(st != 0 for st, _ in full):
        return None
    out = []
    for z, k in pairs:
        lp = oracle_lp(case, z)
        cons = [c for c in lp["constraints"] if c["crit"] != k]
        st, fun = _opt(dict(lp, constraints=cons))
        ref = full[z][1]
        if st != 0 or abs(fun - ref) > 1e-6 * max(1.0, abs(ref)):
            out.append((z, k))
    return out


DUP_MODES = ["max-max", "max-max-tight", "min-min", "opposite"]


def dup_case(rng, mode=None, m=None, family=None):
    """criteria j and k have equal columns.  max-max: both maximised, automatic bound on both; max-max-tight: both maximised,
    a user bound strictly below the column maximum on one of them (None on the twin); min-min: both minimised (automatic
    bounds, or a user bound above the column minimum on one of them); opposite: one maximised, one minimised.  Re-drawn until
    every stage program is feasible and bounded and - except for opposite senses, where a twin's bound cannot be binding in
    the other twin's stage - the twin's constraint is needed in the stage that optimises the other twin."""
    if mode is None:
        mode = rng.choice(DUP_MODES)
    case = None
    for _ in range(12):
        mm = m if m is not None else (rng.randint(11, 30) if rng.random() < 0.5 else rng.randint(2, 10))
        fam = family or rng.choice(["dyadic", "float", "float", "int"])
        n = rng.randint({"max-max": 2, "max-max-tight": 2, "min-min": 4, "opposite": 3}[mode], 5)
        if mode in ("max-max", "max-max-tight"):
            n_min = rng.randrange(0, n - 1)
            want = (1, 1)
        elif mode == "min-min":
            n_min = rng.randint(2, n - 2)
            want = (-1, -1)
        else:
            n_min = rng.randint(1, n - 2)
            want = rng.choice([(1, -1), (-1, 1)])
        objs = [-1] * n_min + [1] * (n - n_min)
        rng.shuffle(objs)
        j = rng.choice([i for i in range(n) if objs[i] == want[0]])
        k = rng.choice([i for i in range(n) if objs[i] == want[1] and i != j])
        mat = _matrix(rng, mm, n, fam)
        for row in mat:
            row[k] = row[j]
        col = [row[j] for row in mat]
        bmode = rng.choice(["none", "partial"]) if mode != "opposite" else rng.choice(["none", "partial", "full"])
        if mode == "max-max-tight":
            bmode = rng.choice(["partial", "partial", "full"])
        b = _draw_b(rng, mat, objs, fam, bmode)
        if b is not None and mode != "opposite":
            if mode != "max-max-tight" or bmode == "partial":
                b[j] = None
            b[k] = None
            if mode == "max-max-tight" or (mode == "min-min" and rng.random() < 0.5):
                lo, hi = min(col), max(col)
                if fam == "int":
                    v = float(rng.randint(lo, max(lo, hi - 1)) + rng.choice(_FRACS)) if mode == "max-max-tight" else float(lo + rng.choice(_FRACS))
                elif mode == "max-max-tight":
                    v = hi * rng.choice([0.5, 0.75, rng.uniform(0.3, 0.95)])
                else:
                    v = lo * rng.choice([1.25, 1.5, rng.uniform(1.05, 2.0)])
                b[k] = float(v)
            if all(v is None for v in b):
                b, bmode = None, "none"
        case = {"kind": "simus", "matrix": mat, "objectives": objs, "b": b, "rank_by": rng.choice([1, 2]), "family": fam, "bmode": bmode,
                "dtype": "int64" if fam == "int" else "float64", "dup": [j, k], "dupmode": mode}
        need = needed_constraints(case, [(j, k), (k, j)])
        case["dup_needed"] = bool(need)
        if need or (mode == "opposite" and need is not None):
            break
    return case


def tiny_share_case(rng):
    """a stage whose optimum gives one alternative a TINY positive share: all criteria maximised, the bound of one criterion set a
    hair above what the best alternative alone consumes, so a second alternative enters the basis with a share of 1e-5 .. 1e-3.
    (participation counts and normalised shares must count such a share like any other positive one)"""
    base = [[10.0, 10.0, 20.0], [10.0, 20.0, 10.0], [3.0, 9.0, 9.0]]
    k = 2.0 ** rng.randint(-3, 3)  # the same problem in other (exact) units
    rows = [0, 1, 2]
    cols = [0, 1, 2]
    rng.shuffle(cols)
    mat = [[base[j][i] * k for j in rows] for i in cols]
    eps = rng.choice([0.006, 0.002, 0.0005, 0.02])
    b = [None, None, None]
    b[1] = (10.0 + eps) * k
    return {"kind": "simus", "matrix": mat, "objectives": [1, 1, 1], "b": b, "rank_by": rng.choice([1, 1, 2]), "family": "float",
            "bmode": "partial", "dtype": "float64", "tiny_share": eps}


def zero_b_case(rng, m=None):
    """a user bound of 0 on a maximise criterion k (all criteria maximised: with a minimise criterion the other stages would
    be infeasible): every stage but k's has the zero vector as its only feasible point, its stage row is all zero"""
    case = one_case(rng, m=m, n_min=0, bmode=rng.choice(["partial", "partial", "full"]), binding=False)
    k = rng.randrange(len(case["objectives"]))
    case["b"][k] = 0.0
    case["zero_b"] = k
    return case


# ---- multi-step histories on a caller-owned b: the SAME numpy array handed to several evaluate() calls


def _prior_matrix(rng, case):
    """another decision matrix for the same criteria (same objectives, its own number of alternatives): every criterion's
    values are those of the case's column times a factor of its own (0.3 .. 3), so its column maxima / minima differ
    markedly from the case's - bounds computed from it are either tighter or looser than the case's own"""
    A, fam = case["matrix"], case["family"]
    m, n = len(A), len(case["objectives"])
    mp = rng.randint(11, 20) if rng.random() < 0.3 else rng.randint(2, 10)
    facs = [rng.choice([0.3, 0.5, 0.6, 1.7, 2.0, 3.0, rng.uniform(0.3, 0.7), rng.uniform(1.5, 3.0)]) for _ in range(n)]
    out = []
    for _ in range(mp):
        row = []
        for j in range(n):
            v = A[rng.randrange(m)][j] * facs[j] * rng.uniform(0.8, 1.0)
            if fam == "int":
                v = max(1, int(round(v)))
            elif fam == "dyadic":
                v = max(1, int(round(v * 8))) / 8.0
            row.append(v)
        out.append(row)
    # the extreme of every column is the scaled extreme of the case's column
    for j in range(n):
        col = [r[j] for r in A]
        ext = (max(col) if case["objectives"][j] == 1 else min(col)) * facs[j]
        ext = max(1, int(round(ext))) if fam == "int" else (max(1, int(round(ext * 8))) / 8.0 if fam == "dyadic" else float(ext))
        out[rng.randrange(mp)][j] = ext
    return out


def history_case(rng, bmode=None, m=None):
    """the optional right-hand side is a NUMPY array owned by the caller (an object array holding None for the unspecified
    entries; now and then a fully specified one) and the SAME array object is handed to one or two earlier evaluate() calls on
    OTHER decision matrices (same criteria) before the evaluation that is judged - by the same SIMUS instance or by another
    one.  The judged evaluation is held to the property as any other (b as the user wrote it), the caller's array must
    come back unchanged, and the result must be the one a fresh evaluation with a fresh b gives.  Re-drawn until every
    stage program of the judged matrix is feasible and bounded."""
    case = None
    for _ in range(12):
        bm = bmode or rng.choice(["partial", "partial", "partial", "full"])
        case = one_case(rng, m=m, bmode=bm, n=rng.randint(3, 5) if rng.random() < 0.7 else None)
        if all(_opt(oracle_lp(case, z))[0] == 0 for z in range(len(case["objectives"]))):
            break
    same = rng.random() < 0.5
    steps = []
    for _ in range(rng.choice([1, 1, 2])):
        steps.append({"matrix": _prior_matrix(rng, case), "rank_by": case["rank_by"] if same else rng.choice([1, 2])})
    case["history"] = {"b_as": "object-array" if case["bmode"] == "partial" or rng.random() < 0.5 else "float-array",
                       "same_instance": same, "prior": steps}
    return case


# ---- the SAME decision matrix evaluated several times in one process with DIFFERENT right-hand sides


REVISIT_PATTERNS = [["none", "tight"], ["none", "tight", "other"], ["tight", "none"], ["tight", "tight"], ["none", "tight", "none"],
                    ["tight", "other", "none"]]


def _optima(case, b):
    """the optimum of every stage program of the case's matrix under the right-hand side b (second solver); None when some
    stage program is infeasible / unbounded (outside the quantifier)"""
    sub = dict(case, b=b)
    out = []
    for z in range(len(case["objectives"])):
        st, fun = _opt(oracle_lp(sub, z))
        if st != 0:
            return None
        out.append(fun)
    return out


def _moved(f1, f2):
    """some stage's optimum differs markedly between two right-hand sides: a solution of the one is not a solution of the other"""
    return any(abs(a - b) > 1e-3 * max(1.0, abs(a), abs(b)) for a, b in zip(f1, f2))


def _tight_b(rng, case):
    """a partially given b (1 .. n-1 supplied entries, the others None) whose supplied bounds are all strictly TIGHTER than the
    automatic ones: below the column maximum of a maximise criterion, above the column minimum of a minimise criterion"""
    A, o, fam = case["matrix"], case["objectives"], case["family"]
    n = len(o)
    b = [None] * n
    for j in rng.sample(range(n), rng.randint(1, n - 1)):
        col = [r[j] for r in A]
        lo, hi = min(col), max(col)
        if fam == "int":
            if lo < hi:
                v = rng.randint(lo, hi - 1) + rng.choice(_FRACS)  # non-integer, strictly inside (min, max)
            else:
                v = hi - rng.choice(_FRACS) if o[j] == 1 else lo + rng.choice(_FRACS)
        elif o[j] == 1:
            v = hi * rng.choice([0.5, 0.75, 0.9, rng.uniform(0.3, 0.95)])
        else:
            v = lo * rng.choice([1.25, 1.5, 1.1, rng.uniform(1.05, 2.0)])
        b[j] = float(v)
    return b


def revisit_case(rng, pattern=None, m=None):
    """ONE decision matrix evaluated two or three times in a row with different right-hand sides (pattern: none = b=None, tight =
    _tight_b, other = any partially / fully given b); the last evaluation is the case's own (b = case["b"]), the earlier ones
    are case["revisit"]["prior"].  Re-drawn until every stage program of every evaluation is feasible and bounded and some
    stage's optimum moves between consecutive evaluations."""
    pattern = list(pattern or rng.choice(REVISIT_PATTERNS))
    case, bs, ok = None, None, False
    for _ in range(12):
        case = one_case(rng, m=m, bmode="none", binding=False, n=rng.randint(3, 5) if rng.random() < 0.7 else None)
        bs, prev, ok = [], None, True
        for kind in pattern:
            got = None
            for _ in range(1 if kind == "none" else 25):
                if kind == "none":
                    b = None
                elif kind == "tight":
                    b = _tight_b(rng, case)
                else:
                    b = _draw_b(rng, case["matrix"], case["objectives"], case["family"], rng.choice(["partial", "full"]))
                f = _optima(case, b)
                if f is not None and (prev is None or _moved(prev, f)) and b not in bs[-1:]:
                    got = (b, f)
                    break
            if got is None:
                ok = False
                bs.append(b)
                continue
            bs.append(got[0])
            prev = got[1]
        if ok:
            break
    same = rng.random() < 0.5
    case["b"] = bs[-1]
    case["bmode"] = "none" if bs[-1] is None else ("partial" if any(v is None for v in bs[-1]) else "full")
    case["revisit"] = {"pattern": ">".join(pattern), "same_instance": same, "same_dm": rng.random() < 0.5, "optimum_moves": ok,
                       "prior": [{"b": b, "rank_by": case["rank_by"] if same else rng.choice([1, 2])} for b in bs[:-1]]}
    return case


def _has_empty_stage(c):
    """problems with a stage whose only feasible/optimal point is the zero vector: exactly one minimise criterion (its stage
    has only upper bounds left), or a user bound of 0 on a maximise criterion"""
    return c["objectives"].count(-1) == 1 or "zero_b" in c


def _special(c):
    return "dup" in c or "zero_b" in c


def gen(ctx):
    rng = ctx.rng
    N = ctx.n(40, 600)
    cases = [one_case(rng) for _ in range(N)]
    base = list(range(N))
    # duplicated criterion columns, every mode in turn; a user bound of 0 on a maximise criterion
    for i in range(ctx.n(16, 160)):
        cases.append(dup_case(rng, mode=DUP_MODES[i % len(DUP_MODES)]))
    for _ in range(ctx.n(4, 40)):
        cases.append(zero_b_case(rng))
    # a fixed share: stages in which an alternative enters with a tiny positive share
    for _ in range(ctx.n(8, 60)):
        cases.append(tiny_share_case(rng))
    # the caller's own numpy b (None entries) reused over several evaluate() calls on different decision matrices
    for i in range(ctx.n(12, 120)):
        cases.append(history_case(rng, bmode="partial" if i % 4 else None))
    # the same decision matrix evaluated again and again with different right-hand sides, every order in turn
    for i in range(ctx.n(12, 120)):
        cases.append(revisit_case(rng, pattern=REVISIT_PATTERNS[i % len(REVISIT_PATTERNS)]))
    # quota: at least 30 % of the cases have an empty stage (exactly one minimise criterion / zero bound)
    tries = 0
    while sum(1 for c in cases if _has_empty_stage(c)) < 0.3 * len(cases) and tries < 10 * N:
        tries += 1
        i = rng.choice(base)
        if _has_empty_stage(cases[i]):
            continue
        cases[i] = one_case(rng, m=len(cases[i]["matrix"]), n=rng.randint(3, 5), n_min=1)
    # the quota of the property's quantifier: at least 40 % above ten alternatives
    while sum(1 for c in cases if len(c["matrix"]) > 10) < 0.4 * len(cases):
        i = rng.choice(base)
        keep = _has_empty_stage(cases[i])
        cases[i] = one_case(rng, m=rng.randint(11, 30), **({"n": rng.randint(3, 5), "n_min": 1} if keep else {}))
    # quota: at least 20 % int64 matrices with a partially given b whose specified entries are non-integer and binding
    # (replacements keep the replaced case's number of alternatives and its empty stage, so the quotas above are preserved)
    tries = 0
    while sum(1 for c in cases if _is_int_partial(c) and binding_given(c)) < 0.2 * len(cases) and tries < 10 * N:
        tries += 1
        i = rng.choice(base)
        if _is_int_partial(cases[i]):
            continue
        keep = _has_empty_stage(cases[i])
        cases[i] = one_case(rng, m=len(cases[i]["matrix"]), family="int", bmode="partial", **({"n": rng.randint(3, 5), "n_min": 1} if keep else {}))
    return cases


def search_gen(ctx):
    rng = ctx.rng
    return ([one_case(rng) for _ in range(120)] + [dup_case(rng, mode=DUP_MODES[i % len(DUP_MODES)]) for i in range(48)]
            + [zero_b_case(rng) for _ in range(12)] + [one_case(rng, n=rng.randint(3, 5), n_min=1) for _ in range(20)]
            + [history_case(rng, bmode="partial" if i % 4 else None) for i in range(40)]
            + [revisit_case(rng, pattern=REVISIT_PATTERNS[i % len(REVISIT_PATTERNS)]) for i in range(36)])


# ----------------------------------------------------------------------------- the property's own LP (Python oracle)


def oracle_lp(case, z):
    """the program of the property text for stage z, in python floats:
    optimise criterion z; for every other criterion k: sum_i a_ik x_i <= b_k (maximised) / >= b_k (minimised);
    b_k = supplied value or the column max / min; x >= 0"""
    A, o, b = case["matrix"], case["objectives"], case["b"]
    m, n = len(A), len(o)
    cons = []
    for k in range(n):
        if k == z:
            continue
        col = [A[i][k] for i in range(m)]
        bk = None if b is None else b[k]
        if bk is None:
            bk = max(col) if o[k] == 1 else min(col)
        cons.append({"crit": k, "coef": col, "rel": "le" if o[k] == 1 else "ge", "rhs": float(bk)})
    return {"sense": "max" if o[z] == 1 else "min", "objective": [A[i][z] for i in range(m)], "constraints": cons}


def lp_json(lp):
    return {"sense": lp["sense"], "objective": C.rats(lp["objective"]),
            "constraints": [{"coef": C.rats(c["coef"]), "rel": c["rel"], "rhs": C.rat(c["rhs"])} for c in lp["constraints"]]}


def highs(lp):
    """untrusted second opinion: status, optimum value, dual vector with the sign convention of certCheck"""
    from scipy.optimize import linprog

    c = np.array(lp["objective"], dtype=float)
    sgn = -1.0 if lp["sense"] == "max" else 1.0
    A_ub, b_ub = [], []
    for con in lp["constraints"]:
        s = 1.0 if con["rel"] == "le" else -1.0
        A_ub.append([s * v for v in con["coef"]])
        b_ub.append(s * con["rhs"])
    try:
        r = linprog(sgn * c, A_ub=np.array(A_ub), b_ub=np.array(b_ub), bounds=(0, None), method="highs")
    except Exception as e:  # pragma: no cover
        return {"status": -1, "msg": f"{type(e).__name__}: {e}"}
    out = {"status": int(r.status)}
    if r.status == 0:
        out["fun"] = float(sgn * r.fun)
        marg = [float(v) for v in r.ineqlin.marginals]
        y = []
        for con, mg in zip(lp["constraints"], marg):
            le = con["rel"] == "le"
            if lp["sense"] == "max":
                y.append(-mg if le else mg)
            else:
                y.append(mg if le else -mg)
        out["y"] = y
        out["x"] = [float(v) for v in r.x]
    return out


# ----------------------------------------------------------------------------- observation


def _problem(p, m):
    """the PuLP problem object as plain data"""
    obj = p.objective
    d = {
        "sense": int(p.sense),
        "objective": [[v.name, float(c)] for v, c in obj.items()],
        "objective_constant": float(obj.constant),
        "constraints": [
            {"name": nm, "sense": int(c.sense), "constant": float(c.constant), "coef": [[v.name, float(k)] for v, k in c.items()]}
            for nm, c in p.constraints.items()
        ],
        "variables": [[v.name, v.lowBound, v.upBound, str(v.cat)] for v in p.variables()],
    }
    vd = p.variablesDict()
    d["by_name"] = [(vd[f"x{i}"].varValue if f"x{i}" in vd else None) for i in range(m)]
    return d


def _flt(x):
    return None if x is None else float(x)


def _stages(e_, m):
    out = []
    for s in e_.stages:
        out.append({
            "status": str(s.lp_status),
            "objective": _flt(s.lp_objective),
            "variables": [str(v) for v in s.lp_variables],
            "values": [_flt(v) for v in list(s.lp_values)],
            "problem": _problem(s.lp_problem, m),
        })
    return out


def _entry(v):
    """an entry of the caller's b array as plain data: None stays None"""
    return None if v is None else float(v)


def observe(case):
    from skcriteria.agg.simus import SIMUS
    import skcriteria as skc

    with M.quiet():
        # whole-number cases are handed over as an int64 decision matrix (every criterion int64), the others as float64
        dt = np.int64 if case.get("dtype") == "int64" else float
        A = np.array(case["matrix"], dtype=dt)
        m, n = A.shape
        dm = skc.mkdm(A, list(case["objectives"]))
        hints = [highs(oracle_lp(case, z)) for z in range(n)]
        o = {"hints": hints, "dm_dtypes": sorted(set(str(t) for t in dm.dtypes))}
        hist = case.get("history")
        b_arg = case["b"]
        dec = SIMUS(rank_by=case["rank_by"])
        if hist:
            # the caller's own array; the earlier evaluations of the history get the SAME object
            b_arg = np.array(case["b"], dtype=object if hist["b_as"] == "object-array" else float)
            o["prior"] = []
            for step in hist["prior"]:
                dmp = skc.mkdm(np.array(step["matrix"], dtype=dt), list(case["objectives"]))
                d = dec if hist["same_instance"] else SIMUS(rank_by=step["rank_by"])
                try:
                    rp = d.evaluate(dmp, b=b_arg)
                    o["prior"].append({"status": [str(s.lp_status) for s in rp.e_.stages]})
                except Exception as e:
                    o["prior"].append({"err": G.err_name(e)})
                o["prior"][-1]["b_after"] = [_entry(v) for v in b_arg]
        rev = case.get("revisit")
        if rev:
            # the SAME decision matrix, evaluated before with OTHER right-hand sides (each b a fresh list, as the user writes it)
            o["revisit"] = []
            for step in rev["prior"]:
                sub = dict(case, b=step["b"])
                rec = {"hints": [highs(oracle_lp(sub, z)) for z in range(n)]}
                dms = dm if rev["same_dm"] else skc.mkdm(np.array(case["matrix"], dtype=dt), list(case["objectives"]))
                d = dec if rev["same_instance"] else SIMUS(rank_by=step["rank_by"])
                try:
                    rp = d.evaluate(dms, b=None if step["b"] is None else list(step["b"]))
                    rec["stages"] = _stages(rp.e_, m)
                    rec["stages_results"] = np.asarray(rp.e_["stages_results"], dtype=float).tolist()
                except Exception as e:
                    rec["err"] = G.err_name(e)
                    rec["msg"] = str(e)[:200]
                o["revisit"].append(rec)
        try:
            res = dec.evaluate(dm, b=b_arg)
        except Exception as e:
            o["err"] = G.err_name(e)
            o["msg"] = str(e)[:200]
            return o
        finally:
            if hist:
                o["b_after"] = [_entry(v) for v in b_arg]
                o["b_after_dtype"] = str(b_arg.dtype)
        e_ = res.e_
        o["stages"] = _stages(e_, m)
        for k in ("stages_results", "method_1_score", "method_2_score", "tita_j_p", "tita_j_d", "dominance"):
            o[k] = np.asarray(e_[k], dtype=float).tolist()
        # one dominance table per criterion / stage, in criterion order (kept as a list of tables: its length is observed)
        o["dominance_by_criteria"] = [np.asarray(t, dtype=float).tolist() for t in e_["dominance_by_criteria"]]
        o["rank"] = [int(r) for r in res.rank_]
        o["rank_by"] = int(e_.rank_by)
        if hist:
            # the same evaluation from scratch: a new instance, a new b (a plain list, as the user wrote it)
            try:
                fr = SIMUS(rank_by=case["rank_by"]).evaluate(dm, b=None if case["b"] is None else list(case["b"]))
                o["fresh"] = {"stages": _stages(fr.e_, m), "rank": [int(r) for r in fr.rank_]}
            except Exception as e:
                o["fresh"] = {"err": G.err_name(e)}
        return o


def _all_optimal(obs):
    return "stages" in obs and all(s["status"] == "Optimal" and all(v is not None and np.isfinite(v) for v in s["values"]) for s in obs["stages"])


def _in_domain(obs):
    """every stage program is feasible and bounded according to the second solver"""
    return all(h["status"] == 0 for h in obs["hints"])


def _o(case):
    return ["max" if x == 1 else "min" for x in case["objectives"]]


def _scale(lp, x):
    amax = max(max(abs(v) for v in c["coef"]) for c in lp["constraints"])
    amax = max(amax, max(abs(v) for v in lp["objective"]))
    bmax = max(abs(c["rhs"]) for c in lp["constraints"])
    return max(1.0, bmax, amax * sum(abs(v) for v in x))


def _hint_y(lp, hint):
    """sign-clip the hint and push it strictly inside the dual polyhedron (exact rationals)"""
    y = []
    for con, v in zip(lp["constraints"], hint["y"]):
        v = F(v)
        le = con["rel"] == "le"
        nonneg = le if lp["sense"] == "max" else not le
        if nonneg and v < 0 or (not nonneg) and v > 0:
            v = Fraction(0)
        y.append(v)
    eta = Fraction(1, 10 ** 9)
    k = (1 + eta) if lp["sense"] == "max" else (1 - eta)
    return [v * k for v in y]


def requests(case, obs):
    n = len(case["objectives"])
    m = len(case["matrix"])
    reqs = [{"op": "simus-lp", "M": C.ratmat(case["matrix"]), "O": _o(case),
             "b": None if case["b"] is None else [None if v is None else C.rat(v) for v in case["b"]]},
            {"op": "simus-order", "n": m, "version": "fixed", "n_constraints": n - 1}]
    if "err" in obs or not _all_optimal(obs):
        return reqs
    reqs.append({"op": "simus-post", "lp_values": [C.rats(s["values"]) for s in obs["stages"]], "rank_by": case["rank_by"]})
    score = obs["method_1_score"] if case["rank_by"] == 1 else obs["method_2_score"]
    if all(np.isfinite(v) for v in score):
        reqs.append({"op": "rank", "scores": C.rats(score), "reverse": True})
    else:
        reqs.append({"op": "rank", "scores": [], "reverse": True})
    # the model's domByCrit of stage z: simus-post of the one-stage problem made of stage z alone (its `dominance` is the sum
    # over that single stage of domByCrit (stageRows z))
    for z in range(n):
        reqs.append({"op": "simus-post", "lp_values": [C.rats(obs["stages"][z]["values"])], "rank_by": case["rank_by"]})
    for z in range(n):
        lp = oracle_lp(case, z)
        hint = obs["hints"][z]
        x = obs["stages"][z]["values"]
        if hint["status"] != 0:
            continue
        sc = _scale(lp, x)
        tol = C.rat(F(1e-6) * F(sc))
        reqs.append({"op": "cert", "stage": lp_json(lp), "x": C.rats(x), "y": [C.rat(v) for v in _hint_y(lp, hint)], "eps": tol, "delta": tol})
    return reqs


# ----------------------------------------------------------------------------- the SIMUS formulas, exactly (property oracle)


def simus_exact(values):
    """stage rows, both scores, tita's, dominance from the stages' solution values (Fractions), as the property states them"""
    n, m = len(values), len(values[0])
    rows = []
    for r in values:
        s = sum(r)
        rows.append([x / s for x in r] if s != 0 else [Fraction(0)] * m)
    m1 = []
    for j in range(m):
        col = [rows[z][j] for z in range(n)]
        m1.append(sum(col) * Fraction(sum(1 for v in col if v > 0), n))
    dom = [[sum(max(rows[z][a] - rows[z][b], Fraction(0)) for z in range(n)) for b in range(m)] for a in range(m)]
    tp = [sum(dom[a][b] for b in range(m)) for a in range(m)]
    td = [sum(dom[a][b] for a in range(m)) for b in range(m)]
    m2 = [tp[j] - td[j] for j in range(m)]
    # one table per criterion k, entry (a, b): how much stage row k credits a above b, never negative
    dbc = [[[max(rows[z][a] - rows[z][b], Fraction(0)) for b in range(m)] for a in range(m)] for z in range(n)]
    return {"stages_results": rows, "method_1_score": m1, "method_2_score": m2, "tita_j_p": tp, "tita_j_d": td, "dominance": dom,
            "dominance_by_criteria": dbc}


def dense_rank_desc(xs):
    d = sorted(set(xs), reverse=True)
    return [d.index(x) + 1 for x in xs]


def _flat(x):
    return [v for r in x for v in r] if x and isinstance(x[0], list) else list(x)


# ----------------------------------------------------------------------------- judgement


def _lp_clauses(sub, rec):
    """the LP clauses of the property text for ONE evaluation (sub: matrix, objectives and the b of THAT evaluation; rec: its
    observed stages, stage rows and the second solver's answers for the programs of that b), python oracle only:
    [(what, expected, observed)]"""
    out = []
    m, n = len(sub["matrix"]), len(sub["objectives"])
    in_dom = all(h["status"] == 0 for h in rec["hints"])
    if "err" in rec:
        if in_dom:
            out.append((f"SIMUS raised {rec['err']} on a matrix whose stage programs are all feasible and bounded: {rec.get('msg')}", None, None))
        return out
    st = rec["stages"]
    if len(st) != n:
        return [("number of stages is not the number of criteria", n, len(st))]
    # the bound of every other criterion is the supplied b, else the column maximum / minimum (exact)
    for z in range(n):
        pcs, ocs = st[z]["problem"]["constraints"], oracle_lp(sub, z)["constraints"]
        if len(pcs) != len(ocs):
            out.append((f"stage {z}: the stage program does not have one constraint per other criterion", len(ocs), len(pcs)))
            return out
        bad = next((r for r, (pc, oc) in enumerate(zip(pcs, ocs)) if -pc["constant"] != oc["rhs"]), None)
        if bad is not None:
            k = ocs[bad]["crit"]
            given = sub["b"] is not None and sub["b"][k] is not None
            out.append((f"stage {z}: the bound of criterion {k} in the stage program is not "
                        + ("the supplied b" if given else "the column " + ("maximum" if sub["objectives"][k] == 1 else "minimum") + " of the decision matrix"),
                        ocs[bad]["rhs"], -pcs[bad]["constant"]))
            break
    if not _all_optimal(rec):
        if in_dom:
            out.append(("a stage program that is feasible and bounded (HiGHS: optimal) is not reported Optimal by SIMUS", "Optimal", [s["status"] for s in st]))
        return out
    if not in_dom:
        return out  # outside the quantifier
    for z in range(n):
        s = st[z]
        if s["values"] != s["problem"]["by_name"]:
            i = next(i for i in range(m) if s["values"][i] != s["problem"]["by_name"][i])
            out.append((f"stage {z}: lp_values[{i}] is not the value of variable x{i} ({m} alternatives)", {"by_name": s["problem"]["by_name"]}, {"lp_values": s["values"]}))
            break
    for z in range(n):
        lp, hint, s = oracle_lp(sub, z), rec["hints"][z], st[z]
        x = [F(v) for v in s["values"]]
        tol = F(1e-6) * F(_scale(lp, s["values"]))
        viol = None
        if any(v < -tol for v in x):
            viol = {"negative variable": float(min(x))}
        for con in lp["constraints"]:
            lhs = sum(F(a) * v for a, v in zip(con["coef"], x))
            rhs = F(con["rhs"])
            if (con["rel"] == "le" and lhs > rhs + tol) or (con["rel"] == "ge" and lhs < rhs - tol):
                viol = {"criterion": con["crit"], "rel": con["rel"], "lhs": float(lhs), "rhs": float(rhs), "tol": float(tol)}
                break
        if viol:
            out.append((f"stage {z}: the reported solution violates a constraint of the stage program", viol, s["values"]))
        val = sum(F(a) * v for a, v in zip(lp["objective"], x))
        if abs(val - F(hint["fun"])) > tol:
            better = (F(hint["fun"]) > val) if lp["sense"] == "max" else (F(hint["fun"]) < val)
            if better or not viol:
                out.append((f"stage {z}: the reported solution does not attain the optimum ({lp['sense']})",
                            {"optimum (HiGHS)": hint["fun"], "tol": float(tol)}, {"c.x": float(val), "lp_objective": s["objective"]}))
        if s["objective"] is None or abs(F(s["objective"]) - val) > tol:
            out.append((f"stage {z}: lp_objective is not the objective value of lp_values", float(val), s["objective"]))
        # the stage row is that solution normalised to sum one
        tot = sum(x)
        row = [v / tot for v in x] if tot != 0 else [Fraction(0)] * m
        got = rec["stages_results"][z] if z < len(rec["stages_results"]) else []
        if len(got) != m or any(not np.isfinite(a) or abs(F(a) - b) > F(1e-9) for a, b in zip(got, row)):
            out.append((f"stage {z}: the stage row is not the stage solution normalised to sum one", [float(v) for v in row][:8], got[:8]))
    return out


def judge(case, obs, replies):
    out = []
    m, n = len(case["matrix"]), len(case["objectives"])

    def prop(what, expected=None, observed=None):
        out.append({"kind": "property", "what": what, "expected": expected, "observed": observed})

    def corr(what, expected=None, observed=None):
        out.append({"kind": "correspondence", "what": what, "expected": expected, "observed": observed})

    # ---- PROPERTY (histories): the b vector belongs to the caller - its unspecified entries stay unspecified, its values stay
    # what they were, whatever evaluations it was handed to; otherwise a later evaluation no longer solves the programs of
    # the b the user wrote
    hist = case.get("history")
    if hist:
        afters = [(f"earlier evaluation {i}", st.get("b_after")) for i, st in enumerate(obs.get("prior", []))] + [("the evaluation", obs.get("b_after"))]
        for where, after in afters:
            if after != [_entry(v) for v in case["b"]]:
                prop(f"the caller's b array ({hist['b_as']}) was modified by evaluate() ({where}, "
                     f"{'same' if hist['same_instance'] else 'another'} SIMUS instance): unspecified entries are no longer unspecified",
                     case["b"], after)
                break

    # ---- PROPERTY (the same decision matrix evaluated several times with different b): every evaluation of the sequence
    # solves the programs of ITS OWN b
    rev = case.get("revisit")
    if rev:
        bs = [st["b"] for st in rev["prior"]] + [case["b"]]
        for i, (step, rec) in enumerate(zip(rev["prior"], obs.get("revisit", []))):
            found = _lp_clauses(dict(case, b=step["b"]), rec)
            for what, exp, got in found[:2]:
                prop(f"evaluation {i + 1} of {len(bs)} of the same decision matrix with different right-hand sides (b of this evaluation: {step['b']}; "
                     f"b of the evaluations before it: {bs[:i]}; {'same' if rev['same_instance'] else 'another'} SIMUS instance): " + what, exp, got)
            if found:
                break

    if "err" in obs:
        if _in_domain(obs):
            prop(f"SIMUS raised {obs['err']} on a matrix whose stage programs are all feasible and bounded: {obs.get('msg')}")
        return out

    # ---- (i) the PuLP problem objects vs the model's stageLP (exact)
    model = replies[0].get("stages")
    if model is None or len(model) != n or len(obs["stages"]) != n:
        corr("number of stages, model vs implementation", n, [None if model is None else len(model), len(obs["stages"])])
        return out
    names = [f"x{i}" for i in range(m)]
    for z in range(n):
        p, ms = obs["stages"][z]["problem"], model[z]
        impl_sense = {-1: "max", 1: "min"}.get(p["sense"])
        if impl_sense != ms["sense"]:
            corr(f"stage {z}: objective sense, model vs PuLP problem", ms["sense"], p["sense"])
        od = dict((k, v) for k, v in p["objective"])
        if sorted(od) != sorted(names) or len(p["objective"]) != m or [C.rat(od[k]) for k in names] != ms["objective"] or p["objective_constant"] != 0:
            corr(f"stage {z}: objective coefficients, model vs PuLP problem", ms["objective"][:4], p["objective"][:4])
        if len(p["constraints"]) != len(ms["constraints"]):
            corr(f"stage {z}: number of constraints, model vs PuLP problem", len(ms["constraints"]), len(p["constraints"]))
        else:
            for r, (pc, mc) in enumerate(zip(p["constraints"], ms["constraints"])):
                cd = dict((k, v) for k, v in pc["coef"])
                if sorted(cd) != sorted(names) or len(pc["coef"]) != m or [C.rat(cd[k]) for k in names] != mc["coef"]:
                    corr(f"stage {z} constraint {r} (criterion {mc['crit']}): coefficients, model vs PuLP problem", mc["coef"][:4], pc["coef"][:4])
                if {-1: "le", 1: "ge"}.get(pc["sense"]) != mc["rel"]:
                    corr(f"stage {z} constraint {r} (criterion {mc['crit']}): sense, model vs PuLP problem", mc["rel"], pc["sense"])
                if C.rat(-pc["constant"]) != mc["rhs"]:
                    corr(f"stage {z} constraint {r} (criterion {mc['crit']}): right-hand side, model vs PuLP problem", mc["rhs"], -pc["constant"])
        bad_vars = [v for v in p["variables"] if not (v[1] == 0 and v[2] is None and v[3] == "Continuous")]
        if bad_vars or sorted(v[0] for v in p["variables"]) != sorted(names) or ms["lower"] != "0/1" or ms["upper"] is not None:
            corr(f"stage {z}: variable set / bounds, model vs PuLP problem", "x0..x%d, 0 <= x, continuous" % (m - 1), p["variables"][:4])

    # ---- PROPERTY: the bound of every other criterion in the stage program is the supplied b, else the maximum / minimum of
    # THIS matrix' column (exact: the program object holds the float it was given)
    for z in range(n):
        pcs, ocs = obs["stages"][z]["problem"]["constraints"], oracle_lp(case, z)["constraints"]
        if len(pcs) != len(ocs):
            continue  # reported above
        bad = next((r for r, (pc, oc) in enumerate(zip(pcs, ocs)) if -pc["constant"] != oc["rhs"]), None)
        if bad is not None:
            k = ocs[bad]["crit"]
            given = case["b"] is not None and case["b"][k] is not None
            prop(f"stage {z}: the bound of criterion {k} in the stage program is not "
                 + ("the supplied b" if given else "the column " + ("maximum" if case["objectives"][k] == 1 else "minimum") + " of the decision matrix")
                 + (" (b reused from an earlier evaluation)" if hist else "")
                 + (f" (the same decision matrix was evaluated before with b = {[st['b'] for st in rev['prior']]})" if rev else ""),
                 ocs[bad]["rhs"], -pcs[bad]["constant"])
            break

    # ---- histories: the evaluation gives what a fresh instance with a fresh b gives (same programs; same solution, scores'
    # ranking) - a difference is a lead, the property clauses above and below decide
    if hist and "fresh" in obs:
        fr = obs["fresh"]
        if "err" in fr or len(fr["stages"]) != n:
            corr("history vs fresh evaluation: the fresh evaluation failed / has another number of stages", n, fr.get("err", len(fr.get("stages", []))))
        else:
            for z in range(n):
                a, f_ = obs["stages"][z], fr["stages"][z]
                pa, pf = a["problem"], f_["problem"]
                if (pa["sense"], pa["objective"], [(c["sense"], c["constant"], c["coef"]) for c in pa["constraints"]]) != \
                        (pf["sense"], pf["objective"], [(c["sense"], c["constant"], c["coef"]) for c in pf["constraints"]]):
                    corr(f"stage {z}: the program after a history on the caller's b differs from the program of a fresh evaluation",
                         [-c["constant"] for c in pf["constraints"]], [-c["constant"] for c in pa["constraints"]])
                    break
                if a["status"] != f_["status"]:
                    corr(f"stage {z}: status after a history differs from a fresh evaluation", f_["status"], a["status"])
                    break
                va, vf = a["values"], f_["values"]
                if a["status"] == "Optimal" and all(v is not None for v in va + vf):
                    sc = max([1.0] + [abs(v) for v in vf])
                    if any(abs(x - y) > 1e-9 * sc for x, y in zip(va, vf)):
                        corr(f"stage {z}: lp_values after a history differ from a fresh evaluation", vf[:6], va[:6])
                        break
            else:
                if _all_optimal(obs) and obs["rank"] != fr["rank"]:
                    corr("rank_ after a history differs from a fresh evaluation", fr["rank"], obs["rank"])

    if not _all_optimal(obs):
        # outside the quantifier unless the second solver says every program is feasible and bounded
        if _in_domain(obs):
            st = [s["status"] for s in obs["stages"]]
            prop("a stage program that is feasible and bounded (HiGHS: optimal) is not reported Optimal by SIMUS", "Optimal", st)
        return out

    # ---- (ii) PROPERTY: lp_values[i] is the value of the variable named x{i}
    order = replies[1]
    for z in range(n):
        s = obs["stages"][z]
        if s["values"] != s["problem"]["by_name"]:
            i = next(i for i in range(m) if s["values"][i] != s["problem"]["by_name"][i])
            prop(f"stage {z}: lp_values[{i}] is not the value of variable x{i} ({m} alternatives)",
                 {"by_name": s["problem"]["by_name"]}, {"lp_values": s["values"], "lp_variables": s["variables"]})
            break
    for z in range(n):
        if obs["stages"][z]["variables"] != order.get("names"):
            corr(f"stage {z}: lp_variables, model vs implementation", order.get("names"), obs["stages"][z]["variables"])
            break
    if order.get("order") != list(range(m)):
        corr("model reportedOrder is not the identity", list(range(m)), order.get("order"))

    # ---- (iii) PROPERTY: every stage is feasible and optimal for the program of the property text
    certs = replies[4 + n:]
    ci = 0
    for z in range(n):
        lp = oracle_lp(case, z)
        hint = obs["hints"][z]
        s = obs["stages"][z]
        x = [F(v) for v in s["values"]]
        if hint["status"] != 0:
            prop(f"stage {z}: SIMUS reports Optimal for a program the second solver finds infeasible/unbounded", hint, s["status"])
            continue
        sc = _scale(lp, s["values"])
        tol = F(1e-6) * F(sc)
        # feasibility, exact arithmetic, straight from the property text
        viol = None
        if any(v < -tol for v in x):
            viol = {"negative variable": float(min(x))}
        for con in lp["constraints"]:
            lhs = sum(F(a) * v for a, v in zip(con["coef"], x))
            rhs = F(con["rhs"])
            if (con["rel"] == "le" and lhs > rhs + tol) or (con["rel"] == "ge" and lhs < rhs - tol):
                viol = {"criterion": con["crit"], "rel": con["rel"], "lhs": float(lhs), "rhs": float(rhs), "tol": float(tol)}
                break
        if viol:
            prop(f"stage {z}: the reported solution violates a constraint of the stage program", viol, s["values"])
        val = sum(F(a) * v for a, v in zip(lp["objective"], x))
        if abs(val - F(hint["fun"])) > tol:
            better = (F(hint["fun"]) > val) if lp["sense"] == "max" else (F(hint["fun"]) < val)
            if better or not viol:
                prop(f"stage {z}: the reported solution does not attain the optimum ({lp['sense']})",
                     {"optimum (HiGHS)": hint["fun"], "tol": float(tol)}, {"c.x": float(val), "lp_objective": s["objective"]})
        if s["objective"] is None or abs(F(s["objective"]) - val) > tol:
            prop(f"stage {z}: lp_objective is not the objective value of lp_values", float(val), s["objective"])
        cert = certs[ci]
        ci += 1
        if not cert.get("accept"):
            if not viol:
                prop(f"stage {z}: the proved certificate checker rejects the stage solution "
                     f"(feasible={cert.get('feasible')}, dual_ok={cert.get('dual_ok')}, gap_ok={cert.get('gap_ok')})",
                     {"accept": True, "eps=delta": float(tol)},
                     {"c.x": float(C.frac(cert["value"])) if "value" in cert else None, "y.b": float(C.frac(cert["bound"])) if "bound" in cert else None,
                      "x": s["values"], "y": hint["y"]})
        elif cert.get("feasible") != (viol is None):
            corr(f"stage {z}: feasibility, Lean checker vs exact python evaluation", viol is None, cert.get("feasible"))

    # ---- (iv) PROPERTY: rows, scores, tables and ranking follow the formulas from the implementation's lp_values
    vals = [[F(v) for v in s["values"]] for s in obs["stages"]]
    ex = simus_exact(vals)
    scales = {"stages_results": 1.0, "method_1_score": float(n), "method_2_score": float(n * m), "tita_j_p": float(n * m),
              "tita_j_d": float(n * m), "dominance": float(n)}
    for key, scale in scales.items():
        impl, exact = _flat(obs[key]), _flat(ex[key])
        tol = F(1e-9) * F(scale)
        bad = None
        if len(impl) != len(exact):
            bad = -1
        else:
            for i, (a, b) in enumerate(zip(impl, exact)):
                if not np.isfinite(a) or abs(F(a) - b) > tol:
                    bad = i
                    break
        if bad is not None:
            prop(f"{key} does not follow the SIMUS formula from the stages' lp_values",
                 {"index": bad, "exact": float(exact[bad]) if bad >= 0 else len(exact)}, impl[bad] if bad >= 0 else len(impl))
    # the per-criterion dominance tables: one per criterion, in criterion order, table k from stage row k
    dbc = obs["dominance_by_criteria"]
    if len(dbc) != n:
        prop("dominance_by_criteria does not hold one dominance table per criterion", n, len(dbc))
    else:
        tol = F(1e-9)
        for k in range(n):
            t, exact = dbc[k], ex["dominance_by_criteria"][k]
            if len(t) != m or any(len(r) != m for r in t):
                prop(f"dominance_by_criteria[{k}] is not an alternatives x alternatives table", [m, m], [len(t), sorted(set(len(r) for r in t))])
                break
            bad = next(((a, b) for a in range(m) for b in range(m) if not np.isfinite(t[a][b]) or abs(F(t[a][b]) - exact[a][b]) > tol), None)
            if bad is not None:
                a, b = bad
                prop(f"dominance_by_criteria[{k}] is not the dominance table of stage row {k} (max(row[a] - row[b], 0))",
                     {"a": a, "b": b, "exact": float(exact[a][b]), "stage row": [float(v) for v in ex["stages_results"][k]][:8]}, t[a][b])
                break
    skey = "method_1_score" if case["rank_by"] == 1 else "method_2_score"
    if obs["rank_by"] != case["rank_by"]:
        prop("rank_by reported in the result differs from the configuration", case["rank_by"], obs["rank_by"])
    if all(np.isfinite(v) for v in obs[skey]):
        exp = dense_rank_desc([F(v) for v in obs[skey]])
        if obs["rank"] != exp:
            prop(f"rank_ is not rank_values({skey}, reverse=True)", exp, obs["rank"])
    tol2 = F(2e-9) * F(scales[skey])
    r = obs["rank"]
    done = False
    for i in range(m):
        for j in range(m):
            if ex[skey][i] - ex[skey][j] > tol2 and not r[i] < r[j]:
                prop(f"alternatives not ordered as the exact {skey} orders them", {"i": i, "j": j}, [r[i], r[j]])
                done = True
                break
        if done:
            break

    # ---- correspondence: simus-post fed with the implementation's lp_values
    post = replies[2]
    if post.get("non_finite"):
        corr("model: a stage with sum 0 and a non-zero entry (inf in the code)", False, True)
    for key, scale in scales.items():
        mv = post.get(key)
        if mv is None:
            corr(f"model has no {key}", None, post)
            continue
        mvf, impl = [C.frac(v) for v in _flat(mv)], _flat(obs[key])
        if len(mvf) != len(impl) or any((not np.isfinite(a)) or abs(F(a) - b) > F(1e-9) * F(scale) for a, b in zip(impl, mvf)):
            corr(f"{key}, model vs implementation", [float(v) for v in mvf[:6]], impl[:6])
        if mvf != _flat(ex[key]):
            corr(f"{key}, model vs python oracle (exact)", None, None)
    # domByCrit of the model, criterion by criterion (one-stage simus-post requests)
    if len(dbc) != n:
        corr("dominance_by_criteria: number of tables, model vs implementation", n, len(dbc))
    else:
        for k in range(n):
            mv = replies[4 + k].get("dominance")
            if mv is None:
                corr(f"model has no dominance table for criterion {k}", None, replies[4 + k])
                continue
            mvf, impl = [C.frac(v) for v in _flat(mv)], _flat(dbc[k])
            if len(mvf) != len(impl) or any((not np.isfinite(a)) or abs(F(a) - b) > F(1e-9) for a, b in zip(impl, mvf)):
                corr(f"dominance_by_criteria[{k}], model (domByCrit of stage row {k}) vs implementation", [float(v) for v in mvf[:6]], impl[:6])
            if mvf != _flat(ex["dominance_by_criteria"][k]):
                corr(f"dominance_by_criteria[{k}], model vs python oracle (exact)", None, None)
    mr = post.get("rank")
    if mr is None or len(mr) != m:
        corr("rank, model", m, mr)
    else:
        for i in range(m):
            for j in range(m):
                if ex[skey][i] - ex[skey][j] > tol2 and not mr[i] < mr[j]:
                    corr("model rank not ordered as the exact score", [i, j], [mr[i], mr[j]])
    rk = replies[3].get("ranks")
    if all(np.isfinite(v) for v in obs[skey]) and rk != obs["rank"]:
        corr("rank_, Lean rankValues of the implementation's own score vs implementation", rk, obs["rank"])
    return out


def nontrivial(case, obs):
    return _all_optimal(obs) and _in_domain(obs) and any(any(v != 0 for v in s["values"]) for s in obs["stages"])


def tags(case, obs):
    m, n = len(case["matrix"]), len(case["objectives"])
    t = ["alts:" + (">10" if m > 10 else "<=10"), "crits:%d" % n, "rank_by:%d" % case["rank_by"], "b:" + case.get("bmode", "?"),
         "family:" + case.get("family", "?"), "objs:" + ("all-max" if all(x == 1 for x in case["objectives"]) else "mixed"),
         "dm-dtype:" + "/".join(obs.get("dm_dtypes", ["?"]))]
    if "dup" in case:
        t.append("dup-columns:" + case["dupmode"])
        if case.get("dup_needed"):
            t.append("dup-columns:" + case["dupmode"] + ":twin-constraint-needed")
    if "zero_b" in case:
        t.append("zero-bound-on-max-criterion")
    if "history" in case:
        h = case["history"]
        t.append("history:reused-b:" + h["b_as"] + (":with-None" if any(v is None for v in case["b"]) else ":full"))
        t.append("history:%d-earlier-evaluations:%s-instance" % (len(h["prior"]), "same" if h["same_instance"] else "another"))
        if any("err" in st or any(x != "Optimal" for x in st.get("status", [])) for st in obs.get("prior", [])):
            t.append("history:an-earlier-evaluation-not-optimal")
    if "revisit" in case:
        r = case["revisit"]
        t.append("revisit:same-matrix-different-b:" + r["pattern"])
        t.append("revisit:%d-evaluations:%s-instance:%s" % (len(r["prior"]) + 1, "same" if r["same_instance"] else "another",
                                                           "same-dm-object" if r["same_dm"] else "dm-rebuilt-from-the-same-values"))
        if r.get("optimum_moves"):
            t.append("revisit:a-stage-optimum-moves-between-consecutive-evaluations")
        if any("err" in rec or not _all_optimal(rec) for rec in obs.get("revisit", [])):
            t.append("revisit:an-earlier-evaluation-not-optimal")
    if case["objectives"].count(-1) == 1:
        t.append("exactly-one-min")
    if _is_int_partial(case):
        t.append("int64+partial-b+fractional-bound")
        if _in_domain(obs) and any(case["b"][con["crit"]] is not None and case["b"][con["crit"]] != int(case["b"][con["crit"]]) and abs(y) > 1e-9
                                   for z in range(n) for con, y in zip(oracle_lp(case, z)["constraints"], obs["hints"][z]["y"])):
            t.append("int64+partial-b+fractional-bound:binding")
    if "err" in obs:
        t.append("skipped:raised-" + obs["err"])
    elif not _all_optimal(obs):
        t.append("skipped:not-optimal")
        for s in obs["stages"]:
            t.append("stage-status:" + s["status"])
    else:
        t.append("evaluated")
        if any(all(v == 0 for v in s["values"]) for s in obs["stages"]):
            t.append("has-zero-stage")
        t.append("stages:%d" % n)
    return t
