"""C01 — each criterion keeps its own objective, weight, dtype and data under any selection.

Cases are (decision matrix, chain of selections).  `observe` runs the chain on the real
`DecisionMatrix` and records the six parts and the derived views after every link; the PROPERTY
oracle (`judge`) looks every surviving criterion / alternative up BY LABEL in the ORIGINAL matrix and
compares the label order with what the selections asked for (computed on plain Python lists — no
pandas); the CORRESPONDENCE compares every link with the Lean model (`Skc/Model/Data.lean`).
A second stream passes every objective alias (and case variants, and non-aliases) to
`Objective.from_alias`.  Cases with a `side` list are order-dependent HISTORIES: at a given position of the chain the same
matrix object is first copied with replacement members (copy(**kwargs) / to_dict() written to by the caller) and then
derived from again (branches + the rest of the chain): nothing a replacement copy was given may leak back."""
from __future__ import annotations

import itertools
from fractions import Fraction

import math

import numpy as np

import common as C
import gen as G

PID = "C01"
RULE = (
    "cases: (decision matrix, selector chain). Matrices are never square by default (1-9 alternatives x 1-6 criteria), "
    "int64/float64 dtypes mixed per criterion, pairwise DISTINCT weights (a quarter of the matrices with some or all weights exactly 0), mixed objectives given through random documented "
    "aliases, labels from the shared pools (non-sorted, non-prefix-free, unicode, one label shared by both axes). Chains of "
    "1-6 links over dm[...] (label, list in any order, int/label slices with steps, boolean mask), loc / iloc with a row "
    "selector and an optional column selector (One|Many|Slice|Mask|All on each axis, negative positions, reversed / "
    "reordered subsets, empty selections), copy() and to_dict()/mkdm round trips; a small share of links is malformed on "
    "purpose (unknown label, out-of-range position, wrong mask length, zero step, scalar (label,label) form) and must be "
    "refused with the same exception class by model and code; a request naming a label twice only ever ends a chain and is "
    "judged by the correspondence only (not a subset: outside the property). The (rows, single column) form of loc/iloc "
    "(repaired by F10) is an ordinary selection and has its own stream incl. empty row selections and alternatives whose "
    "labels are also criterion labels. One matrix in eight of the main stream has some or all alternatives named like criteria; "
    "a stream of SCALAR row selections (loc[label], iloc[i], (scalar row, column list/slice/mask/all)) on such matrices, "
    "the row being a criterion's namesake three times out of four, alone / after other links / followed by copy, round "
    "trips and further links; a stream of matrices with zero-weight criteria next to others (or only such) where a "
    "selection keeps ONLY zero-weight criteria and is followed by copy() / to_dict()+mkdm (once or twice) and more links. "
    "A fixed stream of ORDER-DEPENDENT HISTORIES on ONE matrix object (half on the source, half on a matrix derived by 1-2 "
    "selections; sometimes after a warm-up copy() / to_dict()): first 1-3 copies with replacement members -- the documented "
    "dm.copy(weights= / objectives= / matrix= / alternatives= / criteria= / dtypes=...), 1-3 members at once, or the same by "
    "hand on the dict handed out by to_dict() (entries replaced, or its arrays overwritten in place) then mkdm(**d); every "
    "replaced member differs from the object's own and is often a permutation of it -- THEN 1-3 branches derived from the "
    "SAME object (always a plain copy() or to_dict()/mkdm first, also twice or followed by a selection; further selection "
    "chains) and the rest of the chain (mostly copy / round trip, then more links); one case in four repeats this on the "
    "matrix the chain ends with. Oracle: each replacement copy carries the replacement for the replaced members and the "
    "object's own for all others, the object itself is unchanged, every later derivation is judged by label against the "
    "source like any other link; each branch is also replayed by the model (chain up to the object + branch). "
    "A fixed stream of matrices with MIXED-TYPE LABELS (whole numbers >= 1000 next to strings on at least one axis; the other "
    "axis both kinds / only numbers / only strings; one in five with a string spelled like one of its number labels), built "
    "half with DecisionMatrix(data_df, objectives, weights) on a DataFrame and half through mkdm (labels as an object array / "
    "a pandas Index): nothing or a selection that STILL mixes both kinds, then copy() / mkdm(**to_dict()) once or twice, then "
    "further selections by the same labels and again a copy / round trip (one case in five an ordinary random chain); labels "
    "are observed and compared WITH THEIR TYPES (gen.lab: 2019 is not '2019') on every link, the model sees the same text form. "
    "A fixed stream of ALL-INTEGER matrices (every criterion int64) in which every criterion holds values float64 cannot "
    "represent (odd magnitudes in (2^53, 2^62]: 2^53+1, 64-bit ids) next to small ones: nothing or 1-2 selections (dm[...] / loc / "
    "iloc), then copy() / mkdm(**to_dict()) once or twice and maybe more links; every second case a history whose copies "
    "replace weights / objectives / labels / matrix (mostly the documented dm.copy(**kwargs); never the dtypes, which would be a "
    "conversion the caller asked for); cells are compared as exact integers on every link. "
    "A fixed stream of BOOLEAN pandas SERIES used as row masks, dm[mask] / dm.loc[mask] / dm.loc[mask, columns] (alone, after "
    "1-2 selections, followed by copy / round trips / further links, sometimes twice): the Series is indexed by exactly the "
    "alternatives of the matrix IN ANOTHER ORDER and is not symmetric under that permutation (by position it would keep other "
    "alternatives than by label); half of them are computed by the code itself on a re-ordered derived matrix "
    "(cur.loc[perm].matrix[crit] >= t), the others built with an explicit index. Oracle: the alternatives marked True BY LABEL "
    "survive, in the order of the matrix (pandas aligns a boolean Series key with the axis); the model is asked with the "
    "equivalent plain mask. "
    "Thorough adds ALL chains of length <= 2 over a fixed selector alphabet on a 3x3 matrix. Alias stream: every alias of "
    "the code, upper/lower/title variants of the string ones, and non-aliases. Non-trivial: the chain changes the order or "
    "the set of criteria or alternatives at least once (or an alias case); distinct by case hash."
)
ASSUMPTIONS = [
    "in matrices that have a float64 criterion, integer cells are below 2^53 in magnitude (all-integer matrices carry values up "
    "to 2^62, compared exactly): a row Series (loc[a]) and to_dict()/copy() of a matrix with mixed dtypes go "
    "through float64, so larger int64 values are rounded by the real code (observed: 9007199254740993 -> ...992); the "
    "rational model cannot exhibit this",
    "labels are unique strings or whole numbers >= 1000 (never a position); a request that names a label twice is outside the "
    "property ('subset') and only generated as the last link (the code accepts it and builds a matrix with duplicated labels)",
    "mixed-type labels reach mkdm in a container that keeps their types (object array, pandas Index): a plain LIST of mixed "
    "labels is turned into strings by numpy when the matrix is CONSTRUCTED (np.asarray), which is not a derivation; on axes "
    "with number labels, label slices with a missing endpoint and dm[a:b] with only whole-number endpoints (read as positions "
    "by pandas) are not generated; the index of to_dataframe() (alternatives stacked under 'objectives'/'weights') is compared as text",
    "label slices with a step are not generated; a label slice whose endpoint is missing is only checked by label "
    "(pandas answers by insertion point on a monotonic index, KeyError otherwise; the model mirrors both)",
    "a boolean Series used as a mask is indexed by exactly the labels of the axis (a Series that misses labels is refused by "
    "pandas as unalignable; iloc refuses any indexed mask): neither is generated",
    "pandas selection semantics is external: modelled in Lean, validated here (exhaustively on 3x3 in the thorough tier)",
]
PARTIAL = (
    "the tie to Python is differential; IEEE rounding of int64 values above 2^53 is not modelled; Objective.from_alias' "
    "lower-casing is exercised by the correspondence on case variants, the Lean alias theorem is about the literal table"
)
EXHAUSTIVE = True

# ------------------------------------------------------------------------------------------ aliases
# independent table, written from the documentation of `Objective` (tutorial + docstrings)
DOC_MAX_STR = ["max", "maximize", "+", ">", "▲"]
DOC_MIN_STR = ["min", "minimize", "-", "<", "▼"]
DOC_MAX_FN = ["builtins.max", "numpy.max", "numpy.amax", "numpy.nanmax"]
DOC_MIN_FN = ["builtins.min", "numpy.min", "numpy.amin", "numpy.nanmin"]
NON_ALIASES = [{"str": s} for s in ["", "maxi", "mini", "maximise", "minimise", "=", "><", "+-", "up", "down", "MAXMIN", " max", "min ",
                                   "1", "-1", "▲▼", "Δ", "É"]] + \
              [{"int": i} for i in [0, 2, -2, 10]] + [{"fn": f} for f in ["builtins.sum", "builtins.abs", "numpy.mean", "numpy.argmax", "numpy.argmin"]]


def doc_sense(key):
    """the sense an alias names, by the documentation; None for a non-alias"""
    (k, v), = key.items()
    if k == "int":
        return {1: "max", -1: "min"}.get(v)
    if k == "str":
        v = v.lower()
        return "max" if v in DOC_MAX_STR else "min" if v in DOC_MIN_STR else None
    return "max" if v in DOC_MAX_FN else "min" if v in DOC_MIN_FN else None


def py_alias(key):
    import builtins

    (k, v), = key.items()
    if k == "fn":
        mod, name = v.split(".", 1)
        return getattr(builtins if mod == "builtins" else np, name)
    return v


def random_alias(rng, sense):
    """a random documented spelling of `sense` (+1/-1) as an alias key"""
    strs, fns, i = (DOC_MAX_STR, DOC_MAX_FN, 1) if sense == 1 else (DOC_MIN_STR, DOC_MIN_FN, -1)
    r = rng.random()
    if r < 0.35:
        return {"int": i}
    if r < 0.75:
        s = rng.choice(strs)
        return {"str": rng.choice([s, s.upper(), s.title()])}
    return {"fn": rng.choice(fns)}


# ------------------------------------------------------------------------------------------ selectors on plain lists
# The *requested* labels of one axis: what the selection asks for, computed on Python lists.
# returns (status, labels) with status in "ok" | "bad" (must be refused) | "unknown" (pandas decides)


def req_label(labels, sel):
    (k, v), = sel.items()
    n = len(labels)
    if k == "one":
        return ("ok", [v]) if v in labels else ("bad", None)
    if k == "many":
        return ("ok", list(v)) if all(x in labels for x in v) else ("bad", None)
    if k == "slice":
        a, b = v
        if (a is not None and a not in labels) or (b is not None and b not in labels):
            return ("unknown", None)
        i = 0 if a is None else labels.index(a)
        j = n - 1 if b is None else labels.index(b)
        return ("ok", labels[i:j + 1])
    if k == "mask":
        if len(v) == 0:
            return ("ok", [])
        return ("ok", [x for x, m in zip(labels, v) if m]) if len(v) == n else ("bad", None)
    if k == "all":
        return ("ok", list(labels))
    if k == "smask":
        return req_smask(labels, v)
    raise KeyError(k)


def req_smask(labels, sm):
    """a boolean pandas SERIES as a mask: {"index": the labels in the SERIES' own order, "values": the booleans in that
    order}.  pandas documents that such a key is ALIGNED BY LABEL with the axis: the labels marked True survive, in the
    order of the matrix.  Only Series indexed by exactly the labels of the axis are generated (anything else: pandas decides)"""
    idx, vals = list(sm["index"]), list(sm["values"])
    if len(idx) != len(vals) or len(idx) != len(labels) or len(set(idx)) != len(idx) or set(idx) != set(labels):
        return ("unknown", None)
    marked = {x for x, m in zip(idx, vals) if m}
    return ("ok", [x for x in labels if x in marked])


def req_pos(labels, sel):
    (k, v), = sel.items()
    n = len(labels)
    if k == "one":
        return ("ok", [labels[v]]) if -n <= v < n else ("bad", None)
    if k == "many":
        return ("ok", [labels[i] for i in v]) if all(-n <= i < n for i in v) else ("bad", None)
    if k == "slice":
        a, b, s = v
        if s == 0:
            return ("bad", None)
        return ("ok", labels[slice(a, b, s)])
    if k == "mask":
        if len(v) == 0:
            return ("ok", [])
        return ("ok", [x for x, m in zip(labels, v) if m]) if len(v) == n else ("bad", None)
    if k == "all":
        return ("ok", list(labels))
    raise KeyError(k)


def is_one(sel):
    return sel is not None and "one" in sel


def requested(alts, crits, step):
    """(status, form, alts', crits'); form in frame|row|colseries|scalar|same
    (colseries = `(rows, single column)`: an ordinary one-criterion selection since F10)"""
    kind = step["kind"]
    if kind in ("copy", "roundtrip"):
        return "ok", "same", list(alts), list(crits)
    if kind == "getitem":
        (k, v), = step["sel"].items()
        if k == "col":
            st, c = req_label(crits, {"one": v})
            return st, "frame", list(alts), c
        if k == "cols":
            st, c = req_label(crits, {"many": v})
            return st, "frame", list(alts), c
        if k == "rows":
            st, a = req_pos(alts, {"slice": v})
            return st, "frame", a, list(crits)
        if k == "rowsL":
            st, a = req_label(alts, {"slice": v})
            return st, "frame", a, list(crits)
        if k == "mask":
            if len(v) == 0:  # `dm[[]]` is an empty list of columns
                return "ok", "frame", list(alts), []
            if len(v) != len(alts):
                return "bad", "frame", None, None
            return "ok", "frame", [x for x, m in zip(alts, v) if m], list(crits)
        if k == "smask":  # dm[boolean Series]: rows, aligned by label
            st, a = req_smask(alts, v)
            return st, "frame", a, list(crits)
        raise KeyError(k)
    f = req_label if kind == "loc" else req_pos
    rs, cs = step["rows"], step.get("cols")
    st_r, a = f(alts, rs)
    st_c, c = f(crits, cs) if cs is not None else ("ok", list(crits))
    st = "bad" if "bad" in (st_r, st_c) else "unknown" if "unknown" in (st_r, st_c) else "ok"
    form = "scalar" if is_one(rs) and is_one(cs) else "row" if is_one(rs) else "colseries" if is_one(cs) else "frame"
    return st, form, a, c


# ------------------------------------------------------------------------------------------ generators


def dm_case(rng, m=None, n=None, shared_labels=False, zero=None):
    """shared_labels: True / "all" = every alternative label is also a criterion label; "some" = a random non-empty
    part of the alternatives is named like criteria (anywhere in the order), the others are not.
    zero: None = a quarter of the matrices with random zero weights; "mixed" = at least one weight exactly 0 and (when
    there are two criteria or more) at least one that is not; "all" = every weight exactly 0"""
    n = n or rng.randint(1, 6)
    m = m or rng.choice([k for k in range(1, 10) if k != n])
    alts = G.labels(rng, G.LABEL_POOL_ALT, m)
    crits = G.labels(rng, G.LABEL_POOL_CRIT, n)
    if shared_labels == "some":
        twins = rng.sample(crits, rng.randint(1, min(m, n)))
        alts = [a for a in alts if a not in twins][:m - len(twins)]
        for t in twins:
            alts.insert(rng.randrange(len(alts) + 1), t)
        m = len(alts)
    elif shared_labels:  # every alternative label is also a criterion label
        alts = rng.sample(crits, min(m, n))
        m = len(alts)
    dts = [rng.choice(["int", "float"]) for _ in range(n)]
    if n > 1 and len(set(dts)) == 1 and rng.random() < 0.8:
        dts[rng.randrange(n)] = "float" if dts[0] == "int" else "int"
    family = rng.choice(["dyadic", "dyadic", "float"])
    rows = []
    for _ in range(m):
        row = []
        for j in range(n):
            if dts[j] == "int":
                row.append(rng.choice([rng.randint(-50, 50), rng.randint(-(2 ** 40), 2 ** 40), rng.randint(0, 9)]))
            else:
                row.append(float(G.value(rng, family, positive=False)))
        rows.append(row)
    senses = G.objectives(rng, n)
    wts = G.weights(rng, n, family if n <= 8 else "dyadic")
    if zero == "all":
        wts = [0.0] * n
    elif zero == "mixed":
        off = set(rng.sample(range(n), rng.randint(1, max(1, n - 1))))
        wts = [0.0 if j in off else w for j, w in enumerate(wts)]
    elif rng.random() < 0.25:
        # criteria of weight exactly 0 are legitimate (a criterion switched off); a sub-matrix may keep only such criteria
        for j in range(n):
            if rng.random() < 0.6:
                wts[j] = 0.0
    return {
        "matrix": rows,
        "objectives": [random_alias(rng, s) for s in senses],
        "weights": wts,
        "alternatives": alts,
        "criteria": crits,
        "dtypes": dts,
    }


def _subset(rng, labels, allow_empty=True):
    n = len(labels)
    lo = 0 if allow_empty else min(1, n)
    k = rng.randint(lo, n) if n else 0
    pick = rng.sample(labels, k)
    r = rng.random()
    if r < 0.25:
        pick = [x for x in labels if x in pick]  # original order
    elif r < 0.45:
        pick = [x for x in reversed(labels) if x in pick]  # reversed
    return pick


def _mask(rng, n):
    p = rng.choice([0.2, 0.5, 0.8, 1.0, 0.0]) if rng.random() < 0.3 else 0.55
    return [rng.random() < p for _ in range(n)]


def gen_label_sel(rng, labels, allow_one=True, bad=False, dup=False):
    n = len(labels)
    if bad:
        r = rng.random()
        if r < 0.4 or n == 0:
            return {"one": "NOPE"} if allow_one and rng.random() < 0.5 else {"many": _subset(rng, labels) + ["NOPE"]}
        if r < 0.8:
            return {"mask": _mask(rng, n + rng.choice([1, 2, -1]) if n > 1 else n + 1)}
        return {"many": ["nope", labels[0]]}
    if dup and n:
        s = _subset(rng, labels, allow_empty=False)
        s.insert(rng.randrange(len(s) + 1), rng.choice(s))
        return {"many": s}
    kinds = ["many"] * 5 + ["slice"] * 2 + ["mask"] * 2 + ["all"] + (["one"] * 2 if allow_one and n else [])
    k = rng.choice(kinds)
    if k == "one":
        return {"one": rng.choice(labels)}
    if k == "many":
        return {"many": _subset(rng, labels)}
    if k == "slice":
        a = rng.choice(labels + [None]) if n else None
        b = rng.choice(labels + [None]) if n else None
        return {"slice": [a, b]}
    if k == "mask":
        return {"mask": _mask(rng, n)}
    return {"all": True}


def _rand_pos(rng, n):
    i = rng.randrange(n)
    return i - n if rng.random() < 0.3 else i


def _rand_slice(rng, n, zero_step=False):
    def end():
        return None if rng.random() < 0.3 else rng.randint(-n - 2, n + 2)

    step = 0 if zero_step else rng.choice([None, None, None, 1, 2, 3, -1, -1, -2])
    return [end(), end(), step]


def gen_pos_sel(rng, n, allow_one=True, bad=False, dup=False):
    if bad:
        r = rng.random()
        if r < 0.3 or n == 0:
            return {"one": rng.choice([n, -n - 1, n + 3])} if allow_one and rng.random() < 0.5 else {"many": [rng.choice([n, -n - 1])] + ([0] if n else [])}
        if r < 0.6:
            return {"mask": _mask(rng, n + rng.choice([1, 2, -1]) if n > 1 else n + 1)}
        if r < 0.8:
            return {"slice": _rand_slice(rng, n, zero_step=True)}
        return {"many": [0, n + 1]}
    if dup and n:
        ps = [_rand_pos(rng, n) for _ in range(rng.randint(1, n))]
        p = rng.choice(ps)
        ps.insert(rng.randrange(len(ps) + 1), rng.choice([p, p % n, (p % n) - n]))
        return {"many": ps}
    kinds = ["many"] * 5 + ["slice"] * 3 + ["mask"] * 2 + ["all"] + (["one"] * 2 if allow_one and n else [])
    k = rng.choice(kinds)
    if k == "one":
        return {"one": _rand_pos(rng, n)}
    if k == "many":
        idx = _subset(rng, list(range(n)))
        return {"many": [i - n if rng.random() < 0.3 else i for i in idx]}
    if k == "slice":
        return {"slice": _rand_slice(rng, n)}
    if k == "mask":
        return {"mask": _mask(rng, n)}
    return {"all": True}


def gen_step(rng, alts, crits, last):
    """one link; malformed / duplicate / Series-of-a-column forms only where they end the chain"""
    r = rng.random()
    if r < 0.07:
        return {"kind": "copy"}
    if r < 0.14:
        return {"kind": "roundtrip"}
    bad = last and rng.random() < 0.25
    dup = last and not bad and rng.random() < 0.15
    if r < 0.40:
        k = rng.choice(["col", "cols", "cols", "cols", "rows", "rowsL", "mask"])
        if bad:
            k = rng.choice(["col", "cols", "rows", "mask"])
        if dup:
            k = "cols"
        if k == "col":
            return {"kind": "getitem", "sel": {"col": "NOPE" if bad or not crits else rng.choice(crits)}}
        if k == "cols":
            s = gen_label_sel(rng, crits, allow_one=False, bad=False, dup=dup)
            cs = s["many"] if "many" in s else _subset(rng, crits)
            if bad:
                cs = cs + ["NOPE"]
            return {"kind": "getitem", "sel": {"cols": cs}}
        if k == "rows":
            return {"kind": "getitem", "sel": {"rows": _rand_slice(rng, len(alts), zero_step=bad)}}
        if k == "rowsL":
            s = {"slice": [rng.choice(alts + [None]) if alts else None, rng.choice(alts + [None]) if alts else None]}
            if last and rng.random() < 0.2:
                s["slice"][rng.randrange(2)] = rng.choice(["A1b", "M", "a0", "zz", "0"])  # missing endpoint: pandas decides
            return {"kind": "getitem", "sel": {"rowsL": s["slice"]}}
        m = _mask(rng, len(alts) + (1 if bad else 0))
        return {"kind": "getitem", "sel": {"mask": m}}
    kind = "loc" if r < 0.70 else "iloc"
    with_cols = rng.random() < 0.6
    form = rng.random()
    scalar = bool(last and with_cols and form < 0.04 and alts and crits)
    colseries = bool(with_cols and not scalar and form < 0.12 and crits)
    bad_axis = rng.choice(["r", "c", "rc"] if with_cols else ["r"]) if bad else ""
    dup_axis = rng.choice(["r", "c", "rc"] if with_cols and not colseries else ["r"]) if dup else ""
    sel = (lambda labels, **kw: gen_label_sel(rng, labels, **kw)) if kind == "loc" else (lambda labels, **kw: gen_pos_sel(rng, len(labels), **kw))
    one = (lambda labels: {"one": rng.choice(labels)}) if kind == "loc" else (lambda labels: {"one": _rand_pos(rng, len(labels))})
    rs = sel(alts, allow_one=not colseries and not dup, bad="r" in bad_axis, dup="r" in dup_axis)
    if kind == "loc" and last and not bad and not dup and "slice" in rs and rng.random() < 0.3:
        rs["slice"][rng.randrange(2)] = rng.choice(["A1b", "M", "a0", "zz", "0"])  # missing endpoint: pandas decides
    cs = sel(crits, bad="c" in bad_axis, dup="c" in dup_axis) if with_cols else None
    if scalar:
        rs, cs = one(alts), one(crits)
    elif colseries:
        cs = one(crits)
    step = {"kind": kind, "rows": rs}
    if cs is not None:
        step["cols"] = cs
    return step


def has_dup(alts, crits):
    return len(set(alts)) != len(alts) or len(set(crits)) != len(crits)


def _plain(labels):
    return all(isinstance(x, str) for x in labels)


def _is_mixed(labels):
    """both kinds of labels (strings and whole numbers) on one axis"""
    return any(isinstance(x, str) for x in labels) and any(not isinstance(x, str) for x in labels)


def _step_in_domain(alts, crits, step, st):
    """on axes that carry whole-number labels two request forms have no label meaning in pandas and are not generated:
    a label slice with a MISSING endpoint (insertion point by comparison: int vs str does not compare) and `dm[a:b]` whose
    endpoints are all whole numbers (pandas reads such a slice as POSITIONS).  Always True on all-string labels."""
    if _plain(alts) and _plain(crits):
        return True
    if st == "unknown":
        return False
    if step["kind"] == "getitem" and "rowsL" in step["sel"]:
        v = step["sel"]["rowsL"]
        if any(x is not None for x in v) and not any(isinstance(x, str) for x in v):
            return False
    return True


def gen_chain(rng, dm, length):
    alts, crits = list(dm["alternatives"]), list(dm["criteria"])
    chain = []
    for i in range(length):
        last = i == length - 1
        for _ in range(20):
            step = gen_step(rng, alts, crits, last)
            st, form, a, c = requested(alts, crits, step)
            ends = st != "ok" or form == "scalar" or has_dup(a, c)
            if not _step_in_domain(alts, crits, step, st):
                # only on axes with whole-number labels (never taken on all-string labels): draw again; a plain copy()
                # stands in if every draw is out of the domain
                step, ends = {"kind": "copy"}, False
                st, form, a, c = requested(alts, crits, step)
                continue
            if not ends or last:
                break
        chain.append(step)
        if ends:
            break
        alts, crits = a, c
    return chain


# fixed 3x3 matrix and selector alphabet of the exhaustive tier
EX_DM = {
    "matrix": [[1, 2.5, 3], [4, 5.5, 6], [7, 8.25, 9]],
    "objectives": [{"fn": "builtins.max"}, {"str": "min"}, {"int": 1}],
    "weights": [1.0, 2.0, 7.0],
    "alternatives": ["A0", "A1", "A2"],
    "criteria": ["C0", "C1", "C2"],
    "dtypes": ["int", "float", "int"],
}


def alphabet():
    g = [{"col": "C1"}, {"col": "C9"}, {"cols": ["C2", "C0"]}, {"cols": ["C1"]}, {"cols": ["C2", "C1", "C0"]}, {"cols": ["C0", "C2"]},
         {"cols": []}, {"cols": ["C1", "C1"]}, {"cols": ["C0", "C9"]}, {"rows": [1, None, None]}, {"rows": [None, None, -1]},
         {"rows": [0, 2, None]}, {"rows": [5, 9, None]}, {"rows": [None, None, 0]}, {"rows": [-2, None, None]}, {"rows": [None, None, 2]},
         {"rows": [2, 0, -1]}, {"rowsL": ["A1", "A2"]}, {"rowsL": ["A2", "A0"]}, {"rowsL": [None, "A1"]}, {"rowsL": ["A1", "A9"]},
         {"rowsL": ["0", None]}, {"mask": [True, False, True]}, {"mask": [False, False, False]}, {"mask": [True, True]}]
    steps = [{"kind": "getitem", "sel": s} for s in g] + [{"kind": "copy"}, {"kind": "roundtrip"}]
    lrows = [{"one": "A1"}, {"one": "A9"}, {"many": ["A2", "A0"]}, {"many": []}, {"slice": ["A1", "A2"]}, {"mask": [False, True, True]}, {"all": True},
             {"many": ["A1", "A1"]}]
    lcols = [None, {"one": "C1"}, {"many": ["C2", "C0"]}, {"many": ["C2", "C1", "C0"]}, {"slice": ["C1", "C2"]}, {"mask": [True, False, True]},
             {"all": True}, {"many": ["C9"]}, {"mask": [True, False]}]
    irows = [{"one": 1}, {"one": -1}, {"one": 3}, {"many": [2, 0]}, {"many": [-1, 0]}, {"many": []}, {"slice": [1, None, None]},
             {"slice": [None, None, -1]}, {"mask": [False, True, True]}, {"all": True}, {"many": [1, -2]}]
    icols = [None, {"one": 1}, {"many": [2, 0]}, {"many": [2, 1, 0]}, {"slice": [None, None, -1]}, {"slice": [0, 2, None]}, {"mask": [True, False, True]},
             {"all": True}, {"many": [3]}, {"slice": [None, None, 0]}]
    for r in lrows:
        for c in lcols:
            steps.append({"kind": "loc", "rows": r, **({"cols": c} if c is not None else {})})
    for r in irows:
        for c in icols:
            steps.append({"kind": "iloc", "rows": r, **({"cols": c} if c is not None else {})})
    return steps


def exhaustive_cases():
    alpha = alphabet()
    alts, crits = EX_DM["alternatives"], EX_DM["criteria"]
    out = []
    for s in alpha:
        out.append({"kind": "chain", "dm": EX_DM, "chain": [s], "ex": True})
        st, form, a, c = requested(alts, crits, s)
        if st != "ok" or form == "scalar" or has_dup(a, c):
            continue  # the chain ends there (refused, or outside the quantifier)
        for t in alpha:
            out.append({"kind": "chain", "dm": EX_DM, "chain": [s, t], "ex": True})
    return out


def alias_cases():
    import extract

    mx, mn = extract.alias_tables()
    keys = [{k: v} for k, v in mx + mn]
    for s in DOC_MAX_STR + DOC_MIN_STR:
        keys.append({"str": s})
    for f in DOC_MAX_FN + DOC_MIN_FN:
        keys.append({"fn": f})
    keys += [{"int": 1}, {"int": -1}]
    out = []
    for k in keys:
        out.append(k)
        if "str" in k:
            s = k["str"]
            out += [{"str": s.upper()}, {"str": s.title()}, {"str": s.lower()}, {"str": s.swapcase()}]
    out += NON_ALIASES
    seen, uniq = set(), []
    for k in out:
        key = repr(sorted(k.items()))
        if key not in seen:
            seen.add(key)
            uniq.append({"kind": "alias", "key": k})
    return uniq


def colseries_cases(rng, n):
    """the `(rows, single column)` form (F10): one criterion, the selected alternatives as rows; with empty row
    selections and alternatives whose labels are also criterion labels, possibly continued by further links"""
    out = []
    for i in range(n):
        shared = i % 3 == 0
        dm = dm_case(rng, shared_labels=shared)
        alts, crits = dm["alternatives"], dm["criteria"]
        kind = rng.choice(["loc", "iloc"])
        if kind == "loc":
            rows = rng.choice([{"many": _subset(rng, alts)}, {"all": True}, {"mask": _mask(rng, len(alts))}, {"many": []},
                               {"slice": [rng.choice(alts), None]}])
            cols = {"one": rng.choice(crits)}
        else:
            rows = rng.choice([{"many": _subset(rng, list(range(len(alts))))}, {"all": True}, {"slice": _rand_slice(rng, len(alts))},
                               {"many": []}, {"mask": _mask(rng, len(alts))}])
            cols = {"one": _rand_pos(rng, len(crits))}
        pre = gen_chain(rng, dm, rng.randint(0, 2)) if rng.random() < 0.3 else []
        a, c, ok = list(alts), list(crits), True
        for s in pre:
            st, form, a, c = requested(a, c, s)
            if st != "ok" or form == "scalar" or has_dup(a, c):
                ok = False
                break
        if pre and ok and a and c:
            continue_chain = pre
            if kind == "loc":
                rows = rng.choice([{"many": _subset(rng, a)}, {"all": True}, {"many": []}])
                cols = {"one": rng.choice(c)}
            else:
                rows = rng.choice([{"many": _subset(rng, list(range(len(a))))}, {"all": True}, {"many": []}])
                cols = {"one": _rand_pos(rng, len(c))}
        else:
            continue_chain = []
        chain = continue_chain + [{"kind": kind, "rows": rows, "cols": cols}]
        a, c, ok = list(alts), list(crits), True
        for s in chain:
            st, form, a, c = requested(a, c, s)
            ok = ok and st == "ok" and form != "scalar" and not has_dup(a, c)
        if ok and rng.random() < 0.5:
            chain += gen_chain(rng, {"alternatives": a, "criteria": c}, rng.randint(1, 2))
        out.append({"kind": "chain", "dm": dm, "chain": chain})
    return out


def _walk(alts, crits, chain):
    """(every link is an ordinary selection, alternatives, criteria) after `chain`, on plain lists"""
    a, c = list(alts), list(crits)
    for s in chain:
        st, form, a, c = requested(a, c, s)
        if st != "ok" or form == "scalar" or has_dup(a, c):
            return False, a, c
    return True, a, c


def _prefix(rng, dm, p=0.35, need_alts=True, need_crits=True):
    """an optional valid chain of 1-2 links that leaves something on the axes that are needed"""
    if rng.random() < p:
        for _ in range(5):
            pre = gen_chain(rng, dm, rng.randint(1, 2))
            ok, a, c = _walk(dm["alternatives"], dm["criteria"], pre)
            if ok and (a or not need_alts) and (c or not need_crits):
                return pre, a, c
    return [], list(dm["alternatives"]), list(dm["criteria"])


def _tail(rng, a, c, p=0.5):
    """what may follow a link: copy / dict round trip and further links on the matrix that is left"""
    r = rng.random()
    if r > p:
        return []
    t = [{"kind": rng.choice(["copy", "roundtrip"])}] if r < 0.6 * p else []
    if r > 0.3 * p:
        t += gen_chain(rng, {"alternatives": a, "criteria": c}, rng.randint(1, 2))
    return t


def row_cases(rng, n):
    """a SCALAR row selector -- dm.loc[label], dm.iloc[i], (scalar row, column list / slice / mask / all) -- on matrices in
    which some (or all) alternative labels are also criterion labels; the row asked for is a twin of a criterion three
    times out of four; alone, after other links, and followed by copy() / round trips / further links"""
    out = []
    for i in range(n):
        dm = dm_case(rng, shared_labels=rng.choice(["some", "some", "all"]))
        pre, a, c = _prefix(rng, dm, need_crits=False)
        twins = [x for x in a if x in c]
        if not twins and pre:  # the prefix dropped every twin: select on the source itself
            pre, a, c = [], list(dm["alternatives"]), list(dm["criteria"])
            twins = [x for x in a if x in c]
        lab = rng.choice(twins) if twins and rng.random() < 0.75 else rng.choice(a)
        kind = rng.choice(["loc", "iloc"])
        step = {"kind": kind, "rows": {"one": lab} if kind == "loc" else {"one": a.index(lab) - (len(a) if rng.random() < 0.3 else 0)}}
        if rng.random() < 0.6:
            step["cols"] = gen_label_sel(rng, c, allow_one=False) if kind == "loc" else gen_pos_sel(rng, len(c), allow_one=False)
        chain = pre + [step]
        ok, a2, c2 = _walk(dm["alternatives"], dm["criteria"], chain)
        if ok:
            chain += _tail(rng, a2, c2)
        out.append({"kind": "chain", "dm": dm, "chain": chain})
    return out


def _only(rng, crits, keep, kind):
    """a column selector (label or positional) that asks for exactly the criteria `keep` (non-empty, in some order)"""
    pick = rng.sample(keep, rng.randint(1, len(keep)))
    pos = sorted(crits.index(x) for x in pick)
    forms = ["many", "many", "mask"]
    if len(pick) == 1:
        forms += ["one", "one"]
    if pos == list(range(pos[0], pos[-1] + 1)):
        forms += ["slice", "slice"]
    f = rng.choice(forms)
    n = len(crits)
    if f == "one":
        return {"one": pick[0] if kind == "loc" else crits.index(pick[0]) - (n if rng.random() < 0.3 else 0)}
    if f == "many":
        return {"many": pick if kind == "loc" else [crits.index(x) - (n if rng.random() < 0.3 else 0) for x in pick]}
    if f == "mask":
        return {"mask": [x in pick for x in crits]}
    if kind == "loc":
        return {"slice": [crits[pos[0]], crits[pos[-1]]]}
    return {"slice": [pos[0] if pos[0] or rng.random() < 0.5 else None, pos[-1] + 1 if pos[-1] + 1 < n or rng.random() < 0.5 else None, None]}


def zero_weight_cases(rng, n):
    """matrices with criteria of weight exactly 0 next to others; a selection (dm[...], loc / iloc with a column selector)
    that keeps ONLY zero-weight criteria, then copy() or a to_dict()/mkdm round trip (once or twice), then maybe more"""
    out = []
    for i in range(n):
        dm = dm_case(rng, n=rng.randint(2, 6) if i % 8 else None, zero="all" if i % 8 == 0 else "mixed")
        w = dict(zip(dm["criteria"], dm["weights"]))
        pre, a, c = _prefix(rng, dm, p=0.3)
        if not [x for x in c if w[x] == 0]:
            pre, a, c = [], list(dm["alternatives"]), list(dm["criteria"])
        keep = [x for x in c if w[x] == 0]
        r = rng.random()
        if r < 0.4:
            cs = _only(rng, c, keep, "loc")
            (k, v), = cs.items()
            if k == "one":
                step = {"kind": "getitem", "sel": {"col": v}}
            else:
                step = {"kind": "getitem", "sel": {"cols": v if k == "many" else req_label(c, cs)[1]}}
        else:
            kind = "loc" if r < 0.7 else "iloc"
            rs = gen_label_sel(rng, a, allow_one=False) if kind == "loc" else gen_pos_sel(rng, len(a), allow_one=False)
            step = {"kind": kind, "rows": rs, "cols": _only(rng, c, keep, kind)}
        chain = pre + [step, {"kind": rng.choice(["copy", "roundtrip"])}]
        if rng.random() < 0.3:
            chain.append({"kind": rng.choice(["copy", "roundtrip"])})
        ok, a2, c2 = _walk(dm["alternatives"], dm["criteria"], chain)
        if ok:
            chain += _tail(rng, a2, c2, p=0.3)
        out.append({"kind": "chain", "dm": dm, "chain": chain})
    return out


# ------------------------------------------------------------------------------------------ order-dependent histories
# ONE matrix object (the source or a matrix derived by selection) is first copied WITH REPLACEMENT MEMBERS -- the
# documented dm.copy(weights=...), copy(objectives=...), copy(matrix=...), copy(alternatives=...), ... or the same by hand
# on the dict that to_dict() hands out -- and THEN derived from again (plain copy(), mkdm(**to_dict()), selections, the
# rest of the chain).  What is derived later must still carry the object's OWN members.

REPLACEABLE = ["weights", "objectives", "matrix", "alternatives", "criteria", "dtypes"]
INPLACE = ["weights", "objectives", "matrix"]  # arrays of to_dict() that can be overwritten element by element


def _rot(xs):
    return list(xs[1:]) + list(xs[:1])


def _replacement(rng, dm, a, c, via):
    """replacement members for a copy of the matrix with alternatives `a` and criteria `c` (labels of `dm`): each replaced
    member DIFFERS from the object's own (so a leak is visible), often a permutation of the own values (a leak then
    looks like a criterion carrying another criterion's weight / an alternative another one's row)"""
    ai = {x: i for i, x in enumerate(dm["alternatives"])}
    ci = {x: j for j, x in enumerate(dm["criteria"])}
    own_w = [dm["weights"][ci[x]] for x in c]
    own_o = [doc_sense(dm["objectives"][ci[x]]) for x in c]
    dts = [dm["dtypes"][ci[x]] for x in c]
    own_m = [[dm["matrix"][ai[x]][ci[y]] for y in c] for x in a]
    pool = [k for k in (INPLACE if via == "inplace" else REPLACEABLE) if k != "dtypes" or "int" in dts]
    members = rng.sample(pool, min(len(pool), rng.choice([1, 1, 1, 2, 2, 3])))
    repl = {}
    for k in members:
        if k == "weights":
            cands = [_rot(own_w), list(reversed(own_w)), [w * 2 for w in own_w], G.weights(rng, len(c), "dyadic"), [0.0] * len(c)]
            rng.shuffle(cands)
            repl[k] = next((w for w in cands if w != own_w), [w + 1.0 for w in own_w])
        elif k == "objectives":
            flip = set(rng.sample(range(len(c)), rng.randint(1, len(c))))
            new = [({"max": "min", "min": "max"}[o] if j in flip else o) for j, o in enumerate(own_o)]
            repl[k] = [random_alias(rng, 1 if o == "max" else -1) for o in new]
        elif k == "matrix":
            r = rng.random()
            if r < 0.3 and len(a) > 1:
                new = _rot(own_m)  # the rows, one place further
            elif r < 0.5:
                new = [[(x + 1 if t == "int" else x * 2 + 1.0) for x, t in zip(row, dts)] for row in own_m]
            else:
                new = [[(rng.randint(-50, 50) if t == "int" else float(G.value(rng, "dyadic", positive=False))) for t in dts] for _ in a]
            new = [list(row) for row in new]
            if new == own_m:
                new[0][0] = new[0][0] + 1
            repl[k] = new
        elif k in ("alternatives", "criteria"):
            own, lp = (a, G.LABEL_POOL_ALT) if k == "alternatives" else (c, G.LABEL_POOL_CRIT)
            cands = [_rot(own), list(reversed(own)), G.labels(rng, lp, len(own)), [f"r{i}" for i in range(len(own))]]
            if rng.random() < 0.5:
                rng.shuffle(cands)
            repl[k] = next(x for x in cands + [[f"r{i}" for i in range(len(own))]] if x != list(own))
        else:  # dtypes: every column float64 (int64 -> float64 is exact below 2^53; the reverse would truncate)
            repl[k] = ["float"] * len(c)
    return repl


def _event(rng, dm, at, a, c):
    """what happens to the matrix after `at` links (alternatives a, criteria c): copies with replacement members, then
    branches (short chains) derived from the SAME object; the first branch starts with a plain copy() / dict round trip"""
    via = rng.choice(["copy"] * 6 + ["dict"] * 2 + ["inplace"] * 2)
    copies = [_replacement(rng, dm, a, c, via) for _ in range(rng.choice([1, 1, 1, 2, 2, 3]))]
    here = {"alternatives": a, "criteria": c}
    first = [{"kind": rng.choice(["copy", "roundtrip"])}]
    r = rng.random()
    if r < 0.25:
        first.append({"kind": rng.choice(["copy", "roundtrip"])})
    elif r < 0.5:
        first += gen_chain(rng, here, 1)
    then = [first]
    for _ in range(rng.choice([0, 1, 1, 2])):
        b = gen_chain(rng, here, rng.randint(1, 2))
        if _walk(a, c, b)[0] and rng.random() < 0.5:
            b.append({"kind": rng.choice(["copy", "roundtrip"])})
        then.append(b)
    return {"at": at, "via": via, "warm": rng.choice([None, None, None, "copy", "to_dict"]), "copies": copies, "then": then}


def history_cases(rng, n):
    """ORDER-DEPENDENT histories on one object: every second case on the source matrix, the others on a matrix derived by
    1-2 selections; after the event the chain itself goes on from the same object (mostly with copy() / a round trip);
    one case in four has a second event on the matrix the chain ends with"""
    out = []
    for i in range(n):
        dm = dm_case(rng, shared_labels=rng.choice(["some", "all"]) if rng.random() < 0.125 else False)
        alts, crits = list(dm["alternatives"]), list(dm["criteria"])
        pre, a, c = ([], alts, crits) if i % 2 == 0 else _prefix(rng, dm, p=1.0)
        side = [_event(rng, dm, len(pre), a, c)]
        here = {"alternatives": a, "criteria": c}
        r = rng.random()
        tail = []
        if r < 0.7:
            tail = [{"kind": rng.choice(["copy", "roundtrip"])}]
            if rng.random() < 0.4:
                tail += gen_chain(rng, here, rng.randint(1, 2))
        elif r < 0.85:
            tail = gen_chain(rng, here, rng.randint(1, 2))
        chain = pre + tail
        ok, a2, c2 = _walk(alts, crits, chain)
        if tail and ok and a2 and c2 and rng.random() < 0.25:
            side.append(_event(rng, dm, len(chain), a2, c2))
        out.append({"kind": "chain", "dm": dm, "chain": chain, "side": side})
    return out


# ------------------------------------------------------------------------------------------ mixed-type labels
# Labels are whatever the user's DataFrame carries: years and ids (whole numbers) next to names (strings) on one axis.
# A derived matrix must list the requested labels THEMSELVES: 2019 is not "2019".


def _mixify(rng, dm):
    """part of the labels of `dm` replaced by whole numbers >= 1000 (never a position): at least one axis carries BOTH
    kinds, the other one both kinds / only numbers / only strings; a label shared by both axes stays shared; one matrix in
    five also has a STRING label spelled like one of its number labels ("2019" next to 2019)"""
    alts, crits = list(dm["alternatives"]), list(dm["criteria"])
    for attempt in range(20):
        pool = G.int_labels(rng, len(alts) + len(crits) + 1)
        mapping = {}
        wide = [ax for ax, labs in (("a", alts), ("c", crits)) if len(labs) >= 2]
        main = rng.choice(wide)
        for ax, labs in (("a", alts), ("c", crits)):
            k = len(labs)
            mode = "mixed" if ax == main else rng.choice(["mixed", "mixed", "int", "str"] if k >= 2 else ["int", "str"])
            idx = rng.sample(range(k), rng.randint(1, k - 1)) if mode == "mixed" else list(range(k)) if mode == "int" else []
            for i in idx:
                if labs[i] not in mapping:
                    mapping[labs[i]] = pool.pop()
        if rng.random() < 0.2:
            strs = [x for x in alts + crits if x not in mapping]
            if strs and mapping:
                twin = str(rng.choice(sorted(mapping.values())))
                if twin not in alts + crits:
                    mapping[rng.choice(strs)] = twin
        a2, c2 = [mapping.get(x, x) for x in alts], [mapping.get(x, x) for x in crits]
        if (_is_mixed(a2) or _is_mixed(c2)) and not has_dup(a2, c2):
            break
    else:  # (every draw defeated by shared labels) number the first label of an axis with two labels or more, wherever it is
        first = (alts if len(alts) >= 2 else crits)[0]
        a2, c2 = [1000 if x == first else x for x in alts], [1000 if x == first else x for x in crits]
    out = dict(dm)
    out["alternatives"], out["criteria"] = a2, c2
    return out


MIXED_BUILDS = ["ctor", "mkdm-array", "ctor", "mkdm-index"]


def mixed_cases(rng, n):
    """matrices with MIXED-type labels on an axis, built with the DecisionMatrix(data_df, objectives, weights) constructor
    from a DataFrame or through mkdm (labels given as an object array / a pandas Index, which keep their types), then:
    nothing or a selection (1-2 links) that STILL mixes both kinds on an axis, then copy() / mkdm(**to_dict()) (once or
    twice), then mostly further selections (by the same labels) and again a copy / round trip; one case in five is an
    ordinary random chain on such a matrix"""
    out = []
    for i in range(n):
        while True:
            dm = dm_case(rng, n=rng.randint(2, 6) if rng.random() < 0.85 else None,
                         shared_labels=rng.choice(["some", "all"]) if rng.random() < 0.125 else False)
            if max(len(dm["alternatives"]), len(dm["criteria"])) >= 2:  # (a 1x1 matrix has no axis to mix)
                break
        dm = _mixify(rng, dm)
        dm["build"] = MIXED_BUILDS[i % len(MIXED_BUILDS)]
        alts, crits = dm["alternatives"], dm["criteria"]
        shape = i % 5
        if shape == 4:
            chain = gen_chain(rng, dm, rng.randint(1, 6))
        else:
            pre, a, c = [], list(alts), list(crits)
            if shape:  # a selection that still mixes both kinds on an axis
                for _ in range(12):
                    p = gen_chain(rng, dm, rng.randint(1, 2))
                    ok, a2, c2 = _walk(alts, crits, p)
                    if ok and a2 and c2 and (_is_mixed(a2) or _is_mixed(c2)):
                        pre, a, c = p, a2, c2
                        break
            chain = pre + [{"kind": rng.choice(["copy", "roundtrip"])}]
            if rng.random() < 0.3:
                chain.append({"kind": rng.choice(["copy", "roundtrip"])})
            if rng.random() < 0.75:
                more = gen_chain(rng, {"alternatives": a, "criteria": c}, rng.randint(1, 2))
                chain += more
                if _walk(a, c, more)[0] and rng.random() < 0.5:
                    chain.append({"kind": rng.choice(["copy", "roundtrip"])})
        out.append({"kind": "chain", "dm": dm, "chain": chain, "mixed": True})
    return out


# ------------------------------------------------------------------------------------------ 64-bit integers
# An all-integer matrix holds int64 values that float64 cannot represent (ids, nanosecond timestamps): every derivation
# must hand them on EXACTLY -- nothing in the property allows a detour through floating point.


def _big_int(rng):
    """an int64 of magnitude in (2^53, 2^62] that is ODD, hence not a float64"""
    r = rng.random()
    if r < 0.4:
        v = 2 ** 53 + rng.choice([1, 3, 5, 7, 2 * rng.randint(4, 10 ** 6) + 1])
    elif r < 0.5:
        v = 2 ** 62 - rng.choice([1, 3, 5, 2 * rng.randint(3, 10 ** 9) + 1])
    else:
        v = rng.randint(2 ** 53, 2 ** 62 - 1) | 1
    return -v if rng.random() < 0.3 else v


def big_dm(rng):
    """a matrix whose criteria are ALL int64; every criterion holds at least one value float64 cannot represent"""
    dm = dm_case(rng, shared_labels=rng.choice(["some", "all"]) if rng.random() < 0.125 else False)
    m, n = len(dm["alternatives"]), len(dm["criteria"])
    p = rng.choice([0.2, 0.5, 1.0])
    rows = [[(_big_int(rng) if rng.random() < p else rng.choice([rng.randint(-50, 50), rng.randint(-(2 ** 40), 2 ** 40)])) for _ in range(n)]
            for _ in range(m)]
    for j in range(n):
        rows[rng.randrange(m)][j] = _big_int(rng)
    dm["matrix"], dm["dtypes"] = rows, ["int"] * n
    return dm


def _no_dtypes(rng, ev):
    """(an int64 -> float64 replacement of the dtypes is a conversion the caller ASKED for: not on these matrices)"""
    for repl in ev["copies"]:
        repl.pop("dtypes", None)
        if not repl:
            repl["weights"] = G.weights(rng, len(ev["_c"]), "dyadic")
    ev.pop("_c")
    return ev


def bigint_cases(rng, n):
    """ALL-INTEGER matrices with values beyond 2^53: [0-2 selections] then copy() / mkdm(**to_dict()) (once or twice) and
    maybe more links; every second case a HISTORY: copies with weights / objectives / labels / matrix replaced (mostly
    through the documented dm.copy(**kwargs)) of the source or of a derived matrix, then plain derivations of it"""
    out = []
    for i in range(n):
        dm = big_dm(rng)
        alts, crits = list(dm["alternatives"]), list(dm["criteria"])
        pre, a, c = ([], alts, crits) if i % 4 in (0, 2) else _prefix(rng, dm, p=1.0)
        chain = pre + [{"kind": "copy" if rng.random() < 0.7 else "roundtrip"}]
        if rng.random() < 0.3:
            chain.append({"kind": rng.choice(["copy", "roundtrip"])})
        chain += _tail(rng, a, c, p=0.4)
        case = {"kind": "chain", "dm": dm, "chain": chain, "big": True}
        if i % 2:
            ev = _event(rng, dm, len(pre), a, c)
            if rng.random() < 0.7:
                ev["via"] = "copy"
            ev["_c"] = c
            case["side"] = [_no_dtypes(rng, ev)]
        out.append(case)
    return out


# ------------------------------------------------------------------------------------------ boolean Series as a row mask
# dm[mask] / dm.loc[mask] with `mask` a boolean pandas Series: the usual way to filter alternatives
# (dm[other.matrix["c"] >= t]).  The Series names the alternatives in ITS OWN order; pandas aligns it by label.


def _series_mask(rng, dm, a, c):
    """a Series mask over the alternatives `a`, indexed in ANOTHER order and not symmetric under that permutation (read by
    position it would keep other alternatives than read by label); half of them are COMPUTED by the real code on a
    re-ordered derived matrix (`cur.loc[perm].matrix[crit] >= thr`), the others built with an explicit index"""
    ai = {x: i for i, x in enumerate(dm["alternatives"])}
    ci = {x: j for j, x in enumerate(dm["criteria"])}
    for _ in range(40):
        perm = rng.sample(a, len(a))
        if rng.random() < 0.3:
            perm = list(reversed(a))
        by = None
        if c and rng.random() < 0.5:
            crit = rng.choice(c)
            col = {x: dm["matrix"][ai[x]][ci[crit]] for x in a}
            thr = col[rng.choice(a)]
            op = rng.choice([">=", ">", "<=", "<"])
            f = {">=": lambda v: v >= thr, ">": lambda v: v > thr, "<=": lambda v: v <= thr, "<": lambda v: v < thr}[op]
            vals = [bool(f(col[x])) for x in perm]
            by = [crit, thr, op]
        else:
            vals = _mask(rng, len(a))
        marked = {x for x, m in zip(perm, vals) if m}
        if [x in marked for x in a] != vals:  # by label != by position
            sm = {"index": perm, "values": vals}
            if by:
                sm["by"] = by
            return sm
    return None


def smask_cases(rng, n):
    """[0-2 selections] then dm[mask] / dm.loc[mask] / dm.loc[mask, columns] with a boolean Series in another order than
    the matrix, then maybe copy() / a round trip / further links (sometimes a second Series mask)"""
    out = []
    while len(out) < n:
        i = len(out)
        nn = rng.randint(1, 6)
        dm = dm_case(rng, m=rng.choice([k for k in range(2, 10) if k != nn]), n=nn,
                     shared_labels="some" if rng.random() < 0.125 else False)
        pre, a, c = _prefix(rng, dm, p=0.4)
        if len(a) < 2:
            pre, a, c = [], list(dm["alternatives"]), list(dm["criteria"])
        chain = list(pre)
        for rep in range(2 if rng.random() < 0.2 else 1):
            sm = _series_mask(rng, dm, a, c) if len(a) >= 2 else None
            if sm is None:
                break
            if (i + rep) % 2 == 0:
                step = {"kind": "getitem", "sel": {"smask": sm}}
            else:
                step = {"kind": "loc", "rows": {"smask": sm}}
                if rng.random() < 0.5:
                    step["cols"] = gen_label_sel(rng, c, allow_one=rng.random() < 0.3)
            chain.append(step)
            ok, a, c = _walk(dm["alternatives"], dm["criteria"], chain)
            if not ok:
                break
            if rng.random() < 0.4:
                chain.append({"kind": rng.choice(["copy", "roundtrip"])})
        else:
            chain += _tail(rng, a, c, p=0.4)
        if not any("smask" in (st.get("sel") or st.get("rows") or {}) for st in chain):
            continue
        out.append({"kind": "chain", "dm": dm, "chain": chain, "smask": True})
    return out


def gen(ctx):
    rng = ctx.rng
    cases = alias_cases()
    for _ in range(ctx.n(1500, 20000)):
        # one matrix in eight has alternatives named like criteria: every selector form meets them in ordinary chains
        dm = dm_case(rng, shared_labels=rng.choice(["some", "some", "all"]) if rng.random() < 0.125 else False)
        cases.append({"kind": "chain", "dm": dm, "chain": gen_chain(rng, dm, rng.randint(1, 6))})
    cases += colseries_cases(rng, ctx.n(60, 400))
    cases += row_cases(rng, ctx.n(150, 1000))
    cases += zero_weight_cases(rng, ctx.n(150, 1000))
    cases += history_cases(rng, ctx.n(300, 2500))  # a fixed share of every run, not a branch of the random stream
    cases += mixed_cases(rng, ctx.n(300, 2500))  # mixed-type labels: a fixed share of every run as well
    cases += bigint_cases(rng, ctx.n(240, 1600))  # all-integer matrices beyond 2^53: a fixed share of every run
    cases += smask_cases(rng, ctx.n(240, 1600))  # boolean Series masks in another order than the matrix: the same
    if ctx.thorough:
        cases += exhaustive_cases()
    return cases


def search_gen(ctx):
    rng = ctx.rng
    cases = []
    for _ in range(3000):
        dm = dm_case(rng, m=rng.randint(1, 4), n=rng.randint(1, 4), shared_labels=rng.choice(["some", "all"]) if rng.random() < 0.2 else False)
        cases.append({"kind": "chain", "dm": dm, "chain": gen_chain(rng, dm, rng.randint(1, 2))})
    cases += history_cases(rng, 600)
    cases += mixed_cases(rng, 400)
    cases += bigint_cases(rng, 300)
    cases += smask_cases(rng, 300)
    return cases


# ------------------------------------------------------------------------------------------ observe (real code)

NP_DT = {"int": np.int64, "float": np.float64}


def _labels_arg(labels, how):
    """labels as mkdm is given them: a list of strings as a list; anything else as a container that keeps the type of
    every label (an object array, a pandas Index) -- a plain list of mixed labels is turned into strings by numpy at
    construction, before there is any matrix to derive from"""
    import pandas as pd

    if _plain(labels):
        return list(labels)
    if how == "mkdm-index":
        return pd.Index(list(labels))
    arr = np.empty(len(labels), dtype=object)
    arr[:] = list(labels)
    return arr


def build_dm(d):
    import skcriteria as skc

    how = d.get("build")
    if how == "ctor":  # DecisionMatrix(data_df, objectives, weights) on the user's own DataFrame
        import pandas as pd

        crits = list(d["criteria"])
        df = pd.DataFrame({j: [row[j] for row in d["matrix"]] for j in range(len(crits))}, index=pd.Index(list(d["alternatives"])))
        df = df.astype({j: NP_DT[t] for j, t in enumerate(d["dtypes"])})
        df.columns = pd.Index(crits)
        return skc.DecisionMatrix(df, [py_alias(k) for k in d["objectives"]], list(d["weights"]))
    if how in ("mkdm-array", "mkdm-index"):
        return skc.mkdm(
            d["matrix"],
            [py_alias(k) for k in d["objectives"]],
            weights=list(d["weights"]),
            alternatives=_labels_arg(d["alternatives"], how),
            criteria=_labels_arg(d["criteria"], how),
            dtypes=[NP_DT[t] for t in d["dtypes"]],
        )
    return skc.mkdm(
        d["matrix"],
        [py_alias(k) for k in d["objectives"]],
        weights=list(d["weights"]),
        alternatives=list(d["alternatives"]),
        criteria=list(d["criteria"]),
        dtypes=[NP_DT[t] for t in d["dtypes"]],
    )


def _series(dm, sm):
    """the boolean Series of a Series-mask selector: computed on a re-ordered derived matrix when the case says how
    (`by` = criterion, threshold, comparison), otherwise built with the explicit index"""
    import operator
    import pandas as pd

    if sm.get("by"):
        crit, thr, op = sm["by"]
        col = dm.loc[list(sm["index"])].matrix[crit]
        return {">=": operator.ge, ">": operator.gt, "<=": operator.le, "<": operator.lt}[op](col, thr)
    return pd.Series([bool(b) for b in sm["values"]], index=pd.Index(list(sm["index"]), dtype=object), dtype=bool)


def _pysel(s, positional, dm=None):
    if s is None:
        return None
    (k, v), = s.items()
    if k == "smask":
        return _series(dm, v)
    if k in ("one", "many", "mask"):
        return v
    if k == "slice":
        return slice(*v)
    if k == "all":
        return slice(None)
    raise KeyError(k)


def apply_step(dm, step):
    import skcriteria as skc

    kind = step["kind"]
    if kind == "copy":
        return dm.copy()
    if kind == "roundtrip":
        return skc.mkdm(**dm.to_dict())
    if kind == "getitem":
        (k, v), = step["sel"].items()
        key = slice(*v) if k in ("rows", "rowsL") else _series(dm, v) if k == "smask" else v
        return dm[key]
    acc = dm.loc if kind == "loc" else dm.iloc
    r = _pysel(step["rows"], kind == "iloc", dm)
    if step.get("cols") is None:
        return acc[r]
    return acc[r, _pysel(step["cols"], kind == "iloc")]


def _dt(t):
    k = np.dtype(t).kind
    return "int" if k in "iu" else "float" if k == "f" else str(t)


def _num(x):
    if isinstance(x, (bool, np.bool_)):
        return "bool:" + str(bool(x))
    if isinstance(x, (int, np.integer)):
        return C.rat(int(x))
    x = float(x)
    if not math.isfinite(x):
        # a cell the implementation reports as NaN / inf (no generated matrix holds one): kept as a token that equals no number, so
        # that it shows as a value that is not the source's, instead of stopping the harness
        return "nonfinite:" + repr(x)
    return C.rat(x)


def _labs(xs):
    """labels with their TYPES (G.lab): a string is itself, the whole number 2019 is 'int:2019' -- not the string '2019'"""
    return [str(G.lab(x)) for x in xs]


def _canon(case):
    """the case with every LABEL (of the matrix, of the label selectors of every link, of replacement members) in the
    type-preserving text form of `_labs`: what the oracle and the model work on.  The identity on all-string labels."""
    if case.get("kind") != "chain":
        return case
    d = case["dm"]
    if _plain(d["alternatives"]) and _plain(d["criteria"]) and not case.get("mixed"):
        return case

    def sel(x):
        if x is None:
            return None
        (k, v), = x.items()
        if k == "one":
            return {k: str(G.lab(v))}
        if k == "many":
            return {k: _labs(v)}
        if k == "slice":
            return {k: [None if e is None else str(G.lab(e)) for e in v]}
        if k == "smask":
            return {k: dict(v, index=_labs(v["index"]))}
        return x

    def link(st):
        if st["kind"] == "getitem":
            (k, v), = st["sel"].items()
            if k == "col":
                return {"kind": "getitem", "sel": {k: str(G.lab(v))}}
            if k == "cols":
                return {"kind": "getitem", "sel": {k: _labs(v)}}
            if k == "rowsL":
                return {"kind": "getitem", "sel": {k: [None if e is None else str(G.lab(e)) for e in v]}}
            if k == "smask":
                return {"kind": "getitem", "sel": {k: dict(v, index=_labs(v["index"]))}}
            return st
        if st["kind"] == "loc":
            o = {"kind": "loc", "rows": sel(st["rows"])}
            if st.get("cols") is not None:
                o["cols"] = sel(st["cols"])
            return o
        return st

    out = dict(case)
    out["dm"] = dict(d, alternatives=_labs(d["alternatives"]), criteria=_labs(d["criteria"]))
    out["chain"] = [link(st) for st in case["chain"]]
    if case.get("side"):
        out["side"] = [dict(ev, then=[[link(st) for st in b] for b in ev["then"]],
                            copies=[{k: (_labs(v) if k in ("alternatives", "criteria") else v) for k, v in r.items()} for r in ev["copies"]])
                       for ev in case["side"]]
    return out


def snapshot(dm):
    """the six parts + the derived views of a DecisionMatrix (exact numbers)"""
    from skcriteria import Objective

    mtx = dm.matrix
    n_c = len(dm.criteria)
    cols = [mtx.iloc[:, j].tolist() for j in range(n_c)]
    n_a = len(dm.alternatives)
    o = {
        "alts": _labs(dm.alternatives),
        "crits": _labs(dm.criteria),
        "objs": [("max" if x is Objective.MAX else "min" if x is Objective.MIN else repr(x)) for x in dm.objectives],
        "wts": [_num(w) for w in dm.weights],
        "dts": [_dt(t) for t in dm.dtypes],
        "cells": [[_num(cols[j][i]) for j in range(n_c)] for i in range(n_a)],
        "matrix_index": _labs(mtx.index),
        "matrix_columns": _labs(mtx.columns),
        "objs_index": _labs(dm.objectives.index),
        "wts_index": _labs(dm.weights.index),
        "dts_index": _labs(dm.dtypes.index),
    }
    d = {}
    try:
        d["minwhere"] = [bool(b) for b in dm.minwhere]
        d["maxwhere"] = [bool(b) for b in dm.maxwhere]
        d["iobjectives"] = [int(v) for v in dm.iobjectives]
        d["shape"] = [int(s) for s in dm.shape]
        d["len"] = len(dm)
        df = dm.to_dataframe()
        # (the index of to_dataframe() is "objectives", "weights" and the alternatives stacked by numpy into ONE array: it is
        # a rendering, compared as text; the alternatives themselves are compared with their types everywhere else)
        d["df_index"] = [str(x) for x in df.index]
        d["alts_text"] = [str(a) for a in dm.alternatives]
        d["df_columns"] = _labs(df.columns)
        vals = df.to_numpy().tolist()
        d["df_objs"] = [("max" if x is Objective.MAX else "min" if x is Objective.MIN else repr(x)) for x in vals[0]] if len(vals) > 0 else None
        d["df_wts"] = [_num(x) for x in vals[1]] if len(vals) > 1 else None
        d["df_cells"] = [[_num(x) for x in row] for row in vals[2:]]
    except Exception as e:  # a derived view that cannot even be computed
        d["err"] = f"{G.err_name(e)}: {str(e)[:120]}"
    o["derived"] = d
    return o


def side_copy(dm, repl, via):
    """a copy of `dm` with the members of `repl` replaced: the documented dm.copy(**kwargs) (via="copy"), the same by hand
    on the dict that to_dict() hands out -- entries replaced (via="dict") or overwritten in place (via="inplace")"""
    import skcriteria as skc

    kw = {}
    for k, v in repl.items():
        if k == "objectives":
            kw[k] = [py_alias(x) for x in v]
        elif k == "dtypes":
            kw[k] = [NP_DT[t] for t in v]
        elif k == "matrix":
            kw[k] = [list(row) for row in v]
        else:
            kw[k] = list(v)
    if via == "copy":
        return dm.copy(**kw)
    d = dm.to_dict()
    if via == "dict":
        d.update(kw)
        return skc.mkdm(**d)
    for k, v in repl.items():
        d[k][...] = np.asarray([(1 if doc_sense(x) == "max" else -1) for x in v] if k == "objectives" else v)
    return skc.mkdm(**d)


def _run_links(dm, steps):
    out = []
    for step in steps:
        try:
            dm = apply_step(dm, step)
        except Exception as e:
            out.append({"err": G.err_name(e), "msg": str(e)[:160]})
            break
        out.append({"dm": snapshot(dm)})
    return out


def run_event(dm, ev):
    """on ONE object: (warm-up,) the copies with replacement members, the object itself again, then every branch"""
    eo = {"copies": [], "then": []}
    keep = []
    if ev.get("warm") == "copy":
        keep.append(dm.copy())
    elif ev.get("warm") == "to_dict":
        keep.append(dm.to_dict())
    for repl in ev["copies"]:
        try:
            keep.append(side_copy(dm, repl, ev["via"]))
        except Exception as e:
            eo["copies"].append({"err": G.err_name(e), "msg": str(e)[:160]})
            continue
        eo["copies"].append({"dm": snapshot(keep[-1])})
    eo["self"] = snapshot(dm)
    for branch in ev["then"]:
        eo["then"].append(_run_links(dm, branch))
    return eo


def observe(case):
    import warnings

    warnings.simplefilter("ignore")
    if case["kind"] == "alias":
        from skcriteria import Objective

        try:
            r = Objective.from_alias(py_alias(case["key"]))
        except Exception as e:
            return {"err": G.err_name(e)}
        return {"sense": "max" if r is Objective.MAX else "min" if r is Objective.MIN else repr(r)}
    dm = build_dm(case["dm"])
    obs = {"init": snapshot(dm), "steps": []}
    side = case.get("side", [])
    if side:
        obs["side"] = [{"skipped": True} for _ in side]

    def events(at, dm):
        for i, ev in enumerate(side):
            if ev["at"] == at:
                obs["side"][i] = run_event(dm, ev)

    events(0, dm)
    for n, step in enumerate(case["chain"]):
        try:
            dm = apply_step(dm, step)
        except Exception as e:
            obs["steps"].append({"err": G.err_name(e), "msg": str(e)[:160]})
            break
        obs["steps"].append({"dm": snapshot(dm)})
        events(n + 1, dm)
    return obs


# ------------------------------------------------------------------------------------------ model requests


def model_dm(d):
    return {
        "alts": list(d["alternatives"]),
        "crits": list(d["criteria"]),
        "objs": [doc_sense(k) for k in d["objectives"]],
        "wts": C.rats(d["weights"]),
        "dts": list(d["dtypes"]),
        "cells": [[C.rat(x) for x in row] for row in d["matrix"]],
    }


def _model_chain(d, chain):
    """the chain as the model is asked: a boolean SERIES mask is, by the pandas documentation, the plain boolean mask that
    marks the same LABELS in the order of the axis -- the model gets that mask (an existing request shape), computed here on
    plain lists from the labels the chain has reached; every other link is passed as it is"""
    if not any("smask" in (st.get("sel") or st.get("rows") or {}) for st in chain):
        return chain
    a, c, live, out = list(d["alternatives"]), list(d["criteria"]), True, []
    for st in chain:
        sm = (st.get("sel") or st.get("rows") or {}).get("smask")
        if sm is not None:
            marked = {x for x, m in zip(sm["index"], sm["values"]) if m}
            plain = [x in marked for x in a] if live and set(sm["index"]) == set(a) and len(sm["index"]) == len(a) else list(sm["values"])
            st2 = {"kind": "getitem", "sel": {"mask": plain}} if st["kind"] == "getitem" else dict(st, rows={"mask": plain})
        else:
            st2 = st
        out.append(st2)
        if live:
            s_, form, a2, c2 = requested(a, c, st)
            if s_ != "ok" or form == "scalar" or has_dup(a2, c2):
                live = False
            else:
                a, c = a2, c2
    return out


def requests(case, obs):
    if case["kind"] == "alias":
        return [{"op": "alias", "key": case["key"]}]
    case = _canon(case)
    reqs = [{"op": "sel", "dm": model_dm(case["dm"]), "chain": _model_chain(case["dm"], case["chain"]), "version": case.get("version", "fixed")}]
    for ev in case.get("side", []):
        # a branch derived from the object after `at` links is, for the model, the chain up to there followed by the branch
        for branch in ev["then"]:
            reqs.append({"op": "sel", "dm": model_dm(case["dm"]), "chain": _model_chain(case["dm"], case["chain"][:ev["at"]] + branch), "version": case.get("version", "fixed")})
    return reqs


# ------------------------------------------------------------------------------------------ judge

SIX = ("alts", "crits", "objs", "wts", "dts", "cells")


def _fr(x):
    return C.frac(x) if isinstance(x, str) and not x.startswith(("bool:", "nonfinite:")) else x


def _same_six(a, b):
    """exact comparison of two six-part dicts (numbers as rationals)"""
    for k in ("alts", "crits", "objs", "dts"):
        if a[k] != b[k]:
            return k
    if [_fr(x) for x in a["wts"]] != [_fr(x) for x in b["wts"]]:
        return "wts"
    if [[_fr(x) for x in r] for r in a["cells"]] != [[_fr(x) for x in r] for r in b["cells"]]:
        return "cells"
    return None


def derived_mismatch(s):
    """the derived views must say what the six parts say"""
    d = s["derived"]
    if "err" in d:
        return "a derived view raised: " + d["err"]
    n_a, n_c = len(s["alts"]), len(s["crits"])
    for k in ("matrix_columns", "objs_index", "wts_index", "dts_index"):
        if s[k] != s["crits"]:
            return k
    if s["matrix_index"] != s["alts"]:
        return "matrix.index"
    if len(s["objs"]) != n_c or len(s["wts"]) != n_c or len(s["dts"]) != n_c:
        return "lengths of objectives/weights/dtypes"
    if d["minwhere"] != [o == "min" for o in s["objs"]]:
        return "minwhere"
    if d["maxwhere"] != [o == "max" for o in s["objs"]]:
        return "maxwhere"
    if d["iobjectives"] != [1 if o == "max" else -1 for o in s["objs"]]:
        return "iobjectives"
    if d["shape"] != [n_a, n_c]:
        return "shape"
    if d["len"] != n_a:
        return "len"
    if d["df_index"] != ["objectives", "weights"] + d.get("alts_text", s["alts"]) or d["df_columns"] != s["crits"]:
        return "to_dataframe labels"
    if d["df_objs"] != s["objs"]:
        return "to_dataframe objectives row"
    if [_fr(x) for x in d["df_wts"]] != [_fr(x) for x in s["wts"]]:
        return "to_dataframe weights row"
    if [[_fr(x) for x in r] for r in d["df_cells"]] != [[_fr(x) for x in r] for r in s["cells"]]:
        return "to_dataframe data"
    return None


def by_label_mismatch(s, src):
    """PROPERTY: every surviving criterion / alternative, looked up BY LABEL in the original matrix,
    has its own objective, weight, dtype and values.  `src` = the case's matrix."""
    A, Cr = src["alternatives"], src["criteria"]
    ai = {a: i for i, a in enumerate(A)}
    ci = {c: j for j, c in enumerate(Cr)}
    for a in s["alts"]:
        if a not in ai:
            return f"alternative {a!r} is not an alternative of the source", None, a
    for j, c in enumerate(s["crits"]):
        if c not in ci:
            return f"criterion {c!r} is not a criterion of the source", None, c
        J = ci[c]
        want_o = doc_sense(src["objectives"][J])
        if s["objs"][j] != want_o:
            return f"criterion {c!r} carries another criterion's objective", want_o, s["objs"][j]
        if _fr(s["wts"][j]) != C.F(src["weights"][J]):
            return f"criterion {c!r} carries another criterion's weight", src["weights"][J], s["wts"][j]
        if s["dts"][j] != src["dtypes"][J]:
            return f"criterion {c!r} does not carry its own dtype", src["dtypes"][J], s["dts"][j]
        for i, a in enumerate(s["alts"]):
            if len(s["cells"][i]) != len(s["crits"]):
                return "ragged matrix", None, None
            if _fr(s["cells"][i][j]) != C.F(src["matrix"][ai[a]][J]):
                return f"cell ({a!r}, {c!r}) is not the source's value", src["matrix"][ai[a]][J], s["cells"][i][j]
    if len(s["cells"]) != len(s["alts"]):
        return "number of rows differs from the number of alternatives", len(s["alts"]), len(s["cells"])
    return None


def judge(case, obs, replies):
    out = []

    def prop(what, expected=None, observed=None, identity=None):
        f = {"kind": "property", "what": what, "expected": expected, "observed": observed}
        if identity:
            f["identity"] = identity
        out.append(f)

    def corr(what, expected=None, observed=None):
        out.append({"kind": "correspondence", "what": what, "expected": expected, "observed": observed})

    if case["kind"] == "alias":
        want = doc_sense(case["key"])
        got = obs.get("sense")
        if want is None:
            if obs.get("err") != "ValueError":
                prop(f"from_alias accepted / mis-refused the non-alias {case['key']}", "ValueError", obs)
        elif got != want:
            prop(f"alias {case['key']} does not resolve to the sense it names", want, obs)
        model = replies[0].get("sense")
        if model != got:
            corr(f"from_alias({case['key']}): model vs implementation", model, obs)
        return out

    case = _canon(case)
    src = case["dm"]
    # construction: from_mcda_data places every part positionally
    init = obs["init"]
    want0 = model_dm(src)
    k = _same_six(init, want0)
    if k:
        prop(f"mkdm did not build the matrix it was given ({k})", want0[k], init[k])
        return out
    dmis = derived_mismatch(init)
    if dmis:
        prop(f"freshly built matrix: derived view disagrees with the six parts ({dmis})")
        return out

    reached = {0: init}
    reached.update(judge_links(src, init, case["chain"], obs["steps"], prop))

    # order-dependent histories: copies with replacement members of ONE object, then further derivations of that object
    for ev, eo in zip(case.get("side", []), obs.get("side", [])):
        at = ev["at"]
        if eo.get("skipped") or at not in reached:
            continue
        cur = reached[at]  # judged above: every member is the source's own, looked up by label
        tag = f"history on the {'source' if at == 0 else 'matrix after link %d' % (at - 1)} (replacement copies via {ev['via']})"
        for r, (repl, so) in enumerate(zip(ev["copies"], eo["copies"])):
            what = f"{tag}: copy #{r} replacing {sorted(repl)}"
            if "err" in so:
                prop(f"{what} was refused with {so['err']}: {so.get('msg')}", None, so["err"])
                continue
            want = expected_copy(cur, repl)
            k = _same_six(so["dm"], want)
            if k:
                prop(f"{what}: {k} are neither the replacement given nor the object's own", want[k], so["dm"][k])
                continue
            dmis = derived_mismatch(so["dm"])
            if dmis:
                prop(f"{what}: derived view disagrees with the six parts ({dmis})", None, so["dm"].get("derived"))
        k = _same_six(eo["self"], cur)
        if k:
            prop(f"{tag}: the object itself no longer carries its own {k} after the copies", cur[k], eo["self"][k])
            continue
        dmis = derived_mismatch(eo["self"])
        if dmis:
            prop(f"{tag}: the object's derived view disagrees with its six parts after the copies ({dmis})", None, eo["self"].get("derived"))
            continue
        for b, (branch, bo) in enumerate(zip(ev["then"], eo["then"])):
            judge_links(src, cur, branch, bo, prop, f"{tag}, then branch {b} ")

    # correspondence: every link, model vs implementation
    corr_links(replies[0].get("steps", []), obs["steps"], case["chain"], corr)
    ri = 1
    for ev, eo in zip(case.get("side", []), obs.get("side", [])):
        at = ev["at"]
        for b, branch in enumerate(ev["then"]):
            rep = replies[ri] if ri < len(replies) else None
            ri += 1
            if rep is None or eo.get("skipped"):
                continue
            ms = rep.get("steps", [])
            if len(ms) < at or any("err" in m for m in ms[:at]):
                continue  # the model does not get there: the main chain above says so
            corr_links(ms[at:], eo["then"][b], branch, corr, f"history at {at}, branch {b} ")
    return out


def expected_copy(cur, repl):
    """six parts of a copy of the matrix `cur` (a snapshot) with the members of `repl` replaced: the replaced members are
    the replacement (documentation of copy(**kwargs)), every other member is the object's own (the property)"""
    want = {k: cur[k] for k in SIX}
    for k, v in repl.items():
        if k == "weights":
            want["wts"] = C.rats(v)
        elif k == "objectives":
            want["objs"] = [doc_sense(x) for x in v]
        elif k == "matrix":
            want["cells"] = [[C.rat(x) for x in row] for row in v]
        elif k == "alternatives":
            want["alts"] = list(v)
        elif k == "criteria":
            want["crits"] = list(v)
        elif k == "dtypes":
            want["dts"] = list(v)
        else:
            raise KeyError(k)
    return want


def judge_links(src, start, steps, osteps, prop, prefix=""):
    """the PROPERTY oracle over consecutive links applied to the matrix with snapshot `start` (a matrix whose members are
    the source's own); returns {k: snapshot after k links} for the links that were judged and found in order"""
    alts, crits = list(start["alts"]), list(start["crits"])
    reached = {}
    for n, (step, o) in enumerate(zip(steps, osteps)):
        st, form, ra, rc = requested(alts, crits, step)
        where = f"{prefix}link {n} {step}"
        if "err" in o:
            if st == "ok" and form != "scalar" and not has_dup(ra, rc):
                prop(f"{where}: a valid selection was refused with {o['err']}: {o.get('msg')}", {"alts": ra, "crits": rc}, o["err"])
            break
        s = o["dm"]
        ident = None
        if st == "ok" and has_dup(ra, rc):
            break  # a label named twice is not a subset: outside the property (the correspondence still judges it)
        mis = by_label_mismatch(s, src)
        if mis:
            prop(f"{where}: {mis[0]}", mis[1], mis[2], ident)
            break
        if st == "ok" and form != "scalar":
            if s["crits"] != rc:
                prop(f"{where}: criteria are not in the requested order", rc, s["crits"], ident)
                break
            if s["alts"] != ra:
                prop(f"{where}: alternatives are not in the requested order", ra, s["alts"], ident)
                break
        dmis = derived_mismatch(s)
        if dmis:
            prop(f"{where}: derived view disagrees with the six parts ({dmis})", None, s.get("derived"), ident)
            break
        alts, crits = s["alts"], s["crits"]
        reached[n + 1] = s
    return reached


def corr_links(msteps, osteps, steps, corr, prefix=""):
    """CORRESPONDENCE: the same links, model vs implementation"""
    if len(msteps) != len(osteps):
        corr(f"{prefix}number of executed links differs (one side refused earlier)", [("err:" + m["err"]) if "err" in m else "dm" for m in msteps],
             [("err:" + m["err"]) if "err" in m else "dm" for m in osteps])
        return
    for n, (m, o) in enumerate(zip(msteps, osteps)):
        if ("err" in m) != ("err" in o):
            corr(f"{prefix}link {n} {steps[n]}: one side refuses", m.get("err", "dm"), o.get("err", "dm"))
            break
        if "err" in m:
            if m["err"] != o["err"]:
                corr(f"{prefix}link {n} {steps[n]}: refused with another exception class", m["err"], o["err"])
            break
        k = _same_six(m["dm"], o["dm"])
        if k:
            corr(f"{prefix}link {n} {steps[n]}: model and implementation differ on {k}", m["dm"][k], o["dm"][k])
            break


def nontrivial(case, obs):
    if case["kind"] == "alias":
        return True
    src = _canon(case)["dm"]
    for o in obs["steps"]:
        if "dm" in o and (o["dm"]["alts"] != src["alternatives"] or o["dm"]["crits"] != src["criteria"]):
            return True
    # a history: a copy that really differs from the object was made before the object was derived from again
    return any(not eo.get("skipped") and eo.get("copies") and eo.get("then") for eo in obs.get("side", []))


def tags(case, obs):
    if case["kind"] == "alias":
        return ["alias", "alias:" + next(iter(case["key"]))]
    if case.get("mixed"):
        d = case["dm"]
        extra = ["mixed-labels", "mixed-labels:build=" + str(d.get("build")),
                 "mixed-labels:alts=" + ("both" if _is_mixed(d["alternatives"]) else "str" if _plain(d["alternatives"]) else "int"),
                 "mixed-labels:crits=" + ("both" if _is_mixed(d["criteria"]) else "str" if _plain(d["criteria"]) else "int")]
        if any(isinstance(x, str) and x.isdigit() for x in d["alternatives"] + d["criteria"]):
            extra.append("mixed-labels:string-spelled-like-a-number")
    else:
        extra = []
    if case.get("big"):
        extra.append("all-int-beyond-2^53")
    if case.get("smask"):
        extra.append("series-mask-other-order")
    case = _canon(case)
    t = extra + ["chain", "len=%d" % len(case["chain"]), "shape=%dx%d" % (len(case["dm"]["alternatives"]), len(case["dm"]["criteria"]))]
    if case.get("ex"):
        t.append("exhaustive-3x3")
    for ev, eo in zip(case.get("side", []), obs.get("side", [])):
        if eo.get("skipped"):
            t.append("history:not-reached")
            continue
        t += ["history", "history:" + ("on-source" if ev["at"] == 0 else "on-derived"), "history:via=" + ev["via"],
              "history:copies=%d" % len(ev["copies"]), "history:branches=%d" % len(ev["then"])]
        if ev.get("warm"):
            t.append("history:warm=" + ev["warm"])
        t += sorted({"history:replaces=" + k for repl in ev["copies"] for k in repl})
        t += sorted({"history:then=" + b[0]["kind"] for b in ev["then"] if b})
    alts, crits = list(case["dm"]["alternatives"]), list(case["dm"]["criteria"])
    for step, o in zip(case["chain"], obs["steps"]):
        st, form, a, c = requested(alts, crits, step)
        name = step["kind"]
        if name == "getitem":
            name += ":" + next(iter(step["sel"]))
        elif name in ("loc", "iloc"):
            name += ":" + next(iter(step["rows"])) + "," + (next(iter(step["cols"])) if step.get("cols") else "-")
        t.append(name)
        if "err" in o:
            t.append("refused:" + o["err"])
            break
        if st == "ok" and form in ("frame", "row", "colseries"):
            if has_dup(a, c):
                t.append("duplicate-request")
            else:
                if sorted(c, key=crits.index) != c:
                    t.append("criteria-reordered")
                if sorted(a, key=alts.index) != a:
                    t.append("alternatives-reordered")
        if form == "colseries":
            t.append("column-series-form")
        alts, crits = o["dm"]["alts"], o["dm"]["crits"]
    return t


def extract(ctx):
    """regenerate lean/Skc/Generated/Aliases.lean from the tree under test (before the Lean build)"""
    import extract as X

    if X.aliases():
        C.log("extract: Skc/Generated/Aliases.lean regenerated from", C.REPO)
