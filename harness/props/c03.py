"""C03 — rankings are well formed and ordered exactly by the score they report."""
from __future__ import annotations

import itertools

import numpy as np

import common as C
import gen as G
import methods as M

PID = "C03"
RULE = (
    "cases: (decision matrix in the method's domain with ties / duplicated rows / dominated rows, method + parameters) for "
    "WSM, WPM, TOPSIS x5 metrics, RatioMOORA, ReferencePointMOORA, FMF, MultiMOORA, ELECTRE1, ELECTRE2, SIMUS(rank_by 1,2); "
    "RankResult/KernelResult construction from integer vectors (accept/reject); mkagg methods returning such vectors. "
    "Non-trivial: the reported score has at least one tie or the matrix has > 2 alternatives; distinct by case hash. "
    "Discrete layer only: ranks are recomputed by the Lean model from the implementation's own score (exact rationals)."
)
ASSUMPTIONS = [
    "scipy.stats.rankdata(...,'dense') modelled as 1 + number of distinct smaller values (validated here)",
    "SIMUS cases whose LP is infeasible/unbounded are skipped (outside the property's quantifier) and counted",
]
PARTIAL = "the tie to Python is differential; IEEE rounding is not modelled (ranks are compared against the reported floats, exactly)"
EXHAUSTIVE = True


def gen(ctx):
    rng = ctx.rng
    cases = []
    n = ctx.n(260, 6000)
    for i in range(n):
        spec = M.random_spec(rng)
        dmc = M.in_domain_dm(rng, spec, max_m=ctx.n(10, 16), ties=rng.choice([0.0, 0.3, 0.7]), int_label_rate=0.15)
        cases.append({"kind": "method", "spec": spec, "dm": dmc})
    # near-tied scores next to a much larger one: two rows differing by one ulp in one cell, a third row scaled up
    import math
    for i in range(ctx.n(60, 600)):
        spec = M.random_spec(rng, ["WSM", "WPM", "RatioMOORA", "FMF", "TOPSIS", "RefPointMOORA"])
        dm = M.in_domain_dm(rng, spec, min_m=3, max_m=6, max_n=4, ties=0.0, dups=0.0, family="float")
        dm["int_matrix"] = False
        m0 = dm["matrix"]
        j = rng.randrange(len(m0[0]))
        m0[1] = list(m0[0])
        m0[1][j] = math.nextafter(m0[0][j], math.inf)
        if len(m0) > 2:
            m0[2] = [x * 2.0 ** rng.randint(8, 30) for x in m0[2]]
        cases.append({"kind": "method", "spec": spec, "dm": dm, "near": True})
    for i in range(ctx.n(10, 120)):
        spec = M.random_spec(rng, ["SIMUS"])
        cases.append({"kind": "method", "spec": spec, "dm": M.in_domain_dm(rng, spec, max_m=6, max_n=4, ties=0.3, int_label_rate=0.15)})
    # SIMUS on richer problems (several maximise criteria, no ties): there the two SIMUS scores order the alternatives differently
    for i in range(ctx.n(14, 160)):
        spec = {"name": "SIMUS", "rank_by": 2 if i % 3 else 1}
        dm = M.in_domain_dm(rng, spec, min_m=4, max_m=8, min_n=3, max_n=5, ties=0.0, dups=0.0, mix="max" if i % 2 else None)
        cases.append({"kind": "method", "spec": spec, "dm": dm})
    # result construction
    if ctx.thorough:
        for L in range(1, 6):
            for v in itertools.product(range(0, 6), repeat=L):
                cases.append({"kind": "mkrank", "values": list(v)})
    else:
        for i in range(150):
            L = rng.randint(1, 7)
            k = rng.randint(1, L)
            v = [rng.randint(1, k) for _ in range(L)]
            if rng.random() < 0.5:
                v[rng.randrange(L)] = rng.randint(0, k + 2)
            cases.append({"kind": "mkrank", "values": v})
    for i in range(ctx.n(40, 400)):
        L = rng.randint(2, 7)
        k = rng.randint(1, L)
        v = [rng.randint(1, k) for _ in range(L)]
        if rng.random() < 0.4:
            v[rng.randrange(L)] = rng.randint(0, k + 2)
        cases.append({"kind": "mkagg", "values": v, "dm": G.dm_case(rng, m=L, int_label_rate=0.2)})
    for i in range(ctx.n(20, 200)):
        L = rng.randint(1, 6)
        cases.append({"kind": "mkkernel", "values": [rng.choice([True, False]) for _ in range(L)],
                      "as": rng.choice(["bool", "bool", "int", "float"])})
    # a fixed share: ELECTRE1 on MORE THAN 256 alternatives forming a dominance chain (alternative k is outranked by exactly k others)
    for m_ in ([258] if not ctx.thorough else [257, 300, 520]):
        spec = {"name": "ELECTRE1", "p": 0.5, "q": 1.0}
        n_ = rng.randint(2, 3)
        dmc = M.in_domain_dm(rng, spec, min_m=4, max_m=5, min_n=n_, max_n=n_, mix="max")
        dmc["matrix"] = [[float(2 * m_ - i + (j % 2)) for j in range(n_)] for i in range(m_)]
        dmc["alternatives"] = [f"L{i}" for i in range(m_)]
        dmc["int_matrix"], dmc["family"], dmc["via"] = False, "dyadic", False
        cases.append({"kind": "method", "spec": spec, "dm": dmc})
    # a fixed share: alternatives that share a label (mkdm accepts repeated labels): the result names the input's alternatives as given
    for _ in range(ctx.n(40, 400)):
        spec = M.random_spec(rng, [n_ for n_ in ("WSM", "WPM", "TOPSIS", "RatioMOORA", "RefPointMOORA", "FMF", "MultiMOORA", "ELECTRE1", "ELECTRE2")])
        dmc = M.in_domain_dm(rng, spec, min_m=3, max_m=8, ties=0.2)
        lab = dmc["alternatives"]
        i, j = rng.sample(range(len(lab)), 2)
        lab[j] = lab[i]
        if len(lab) > 4 and rng.random() < 0.4:
            k = rng.choice([x for x in range(len(lab)) if x not in (i, j)])
            lab[k] = lab[i]
        cases.append({"kind": "method", "spec": spec, "dm": dmc})
    return cases


def _result_obs(res, with_score=None):
    o = {
        "alts": [G.lab(a) for a in res.alternatives],
        "values": res.values.tolist(),
        "shape": list(res.shape),
        "len": len(res),
        "series_index": [G.lab(a) for a in res.to_series().index],
        "series_values": res.to_series().tolist(),
    }
    if with_score is not None:
        sc = np.asarray(res.e_[with_score], dtype=float)
        o["score"] = sc.tolist()
        o["score_finite"] = bool(np.all(np.isfinite(sc)))
    # what a caller may do with what it is handed: edit it in place.  The result object must still say what it said.
    try:
        s1 = res.to_series()
        if len(s1) > 1:
            s1.sort_values(ascending=False, inplace=True)
            s1 -= 1
            s1.index = [f"edited{i}" for i in range(len(s1))]
        v1 = np.asarray(res.values)
        if v1.flags.writeable and v1.size > 1:
            v1[:] = v1[::-1].copy()
    except Exception:
        pass
    o["after_edit"] = {"alts": [G.lab(a) for a in res.alternatives], "values": np.asarray(res.values).tolist(),
                       "series_index": [G.lab(a) for a in res.to_series().index]}
    return o


def observe(case):
    import skcriteria as skc
    from skcriteria.agg import KernelResult, RankResult

    kind = case["kind"]
    with M.quiet():
        if kind == "method":
            dm = G.mkdm(case["dm"])
            dec = M.build(case["spec"])
            M.warmup(dec, dm, case["dm"], case["spec"])
            try:
                res = dec.evaluate(dm)
            except Exception as e:
                return {"err": G.err_name(e), "msg": str(e)[:200]}
            if case["spec"]["name"] == "ELECTRE1":
                o = _result_obs(res)
                o["outrank"] = np.asarray(res.e_.outrank, dtype=bool).tolist()
                o["kernel_size"] = int(res.kernel_size_)
                o["kernel_where"] = res.kernel_where_.tolist()
                o["kernel_alts"] = [G.lab(a) for a in res.kernel_alternatives_]
                return o
            o = _result_obs(res, M.score_key(case["spec"]))
            if case["spec"]["name"] == "SIMUS":
                o["lp_status"] = [str(s.lp_status) for s in res.e_.stages]
            return o
        if kind == "mkrank":
            alts = [f"A{i}" for i in range(len(case["values"]))]
            try:
                res = RankResult("test", alts, case["values"], {})
            except ValueError:
                return {"err": "ValueError"}
            return _result_obs(res)
        if kind == "mkkernel":
            alts = [f"A{i}" for i in range(len(case["values"]))]
            dt = {"bool": bool, "int": int, "float": float}[case["as"]]
            try:
                res = KernelResult("test", alts, np.array(case["values"], dtype=dt), {})
            except ValueError:
                return {"err": "ValueError"}
            return _result_obs(res)
        if kind == "mkagg":
            from skcriteria.extend import mkagg

            vals = list(case["values"])

            @mkagg
            def UserAgg(**kwargs):
                return np.array(vals), {"score": np.array(vals, dtype=float)}

            try:
                res = UserAgg().evaluate(G.mkdm(case["dm"]))
            except ValueError:
                return {"err": "ValueError"}
            return _result_obs(res)
    raise KeyError(kind)


def requests(case, obs):
    kind = case["kind"]
    if kind == "method":
        if "err" in obs:
            return []
        if case["spec"]["name"] == "ELECTRE1":
            return [{"op": "kernel", "outrank": obs["outrank"], "n": len(obs["outrank"])}]
        if not obs["score_finite"]:
            return []
        rev = M.METHODS[case["spec"]["name"]]["rev"]
        reqs = [{"op": "rank", "scores": C.rats(obs["score"]), "reverse": rev}]
        e2e = _e2e(case)
        if e2e:
            reqs.append(e2e)
        return reqs
    if kind in ("mkrank", "mkagg"):
        return [{"op": "validrank", "values": case["values"]}]
    return []


E2E = {"WSM": "wsm", "RatioMOORA": "ratio", "RefPointMOORA": "refpoint"}


def _e2e(case):
    """end-to-end model run (guards -> kernel -> rank_values -> result) for the methods whose arithmetic is exact on
    dyadic input, so that ties are ties on both sides"""
    name = case["spec"]["name"]
    dm = case["dm"]
    if name not in E2E or dm.get("family") != "dyadic" or case.get("near"):
        return None
    return {"op": "evaluate", "method": E2E[name], "M": C.ratmat(dm["matrix"]), "O": ["max" if o == 1 else "min" for o in dm["objectives"]],
            "w": C.rats(dm["weights"]), "alts": [G.lab(a) for a in dm["alternatives"]]}


def _wellformed(ranks):
    k = len(set(ranks))
    return all(isinstance(r, int) for r in ranks) and set(ranks) == set(range(1, k + 1))


def judge(case, obs, replies):
    out = []
    kind = case["kind"]

    def prop(what, expected=None, observed=None):
        out.append({"kind": "property", "what": what, "expected": expected, "observed": observed})

    def corr(what, expected=None, observed=None):
        out.append({"kind": "correspondence", "what": what, "expected": expected, "observed": observed})

    if kind == "method":
        name = case["spec"]["name"]
        if "err" in obs:
            if name == "SIMUS":
                return out  # infeasible / unbounded stage: outside the quantifier
            prop(f"{name} refused an in-domain matrix with {obs['err']}: {obs.get('msg')}")
            return out
        alts = [G.lab(a) for a in case["dm"]["alternatives"]]  # labels keep their type: 2019 is not "2019"
        ae = obs.get("after_edit")
        if ae and (ae["alts"] != obs["alts"] or ae["series_index"] != obs["series_index"]):
            prop(f"{name}: after the caller edited the Series handed out by to_series() in place, the result no longer names the "
                 "input's alternatives in input order", obs["alts"], ae)
        if obs["alts"] != alts or obs["series_index"] != alts:
            prop(f"{name}: result does not name the input's alternatives in input order", alts, obs["alts"])
        if obs["len"] != len(alts) or obs["shape"] != [len(alts)] or obs["series_values"] != obs["values"]:
            prop(f"{name}: len/shape/to_series inconsistent with the values", len(alts), [obs["len"], obs["shape"]])
        if name == "ELECTRE1":
            o = obs["outrank"]
            n = len(o)
            expect = [not any(o[i][k] for i in range(n)) for k in range(n)]
            if obs["values"] != expect or len(obs["values"]) != len(alts):
                prop("ELECTRE1: kernel is not the set of alternatives nothing outranks", expect, obs["values"])
            if obs["kernel_size"] != sum(expect) or obs["kernel_where"] != [k for k in range(n) if expect[k]] or \
                    obs["kernel_alts"] != [alts[k] for k in range(n) if expect[k]]:
                prop("ELECTRE1: kernel_size_/kernel_where_/kernel_alternatives_ inconsistent with the relation")
            if replies[0].get("kernel") != obs["values"]:
                corr("kernel: model vs implementation", replies[0].get("kernel"), obs["values"])
            return out
        if name == "SIMUS" and any(s != "Optimal" for s in obs.get("lp_status", [])):
            return out
        ranks, score = obs["values"], obs["score"]
        if not obs["score_finite"]:
            prop(f"{name}: non-finite score reported for an in-domain matrix", None, score)
            return out
        if not _wellformed(ranks):
            prop(f"{name}: ranks are not the integers 1..k without gaps", None, ranks)
        rev = M.METHODS[name]["rev"]
        s = [C.F(x) for x in score]
        for i in range(len(s)):
            for j in range(len(s)):
                better = s[i] > s[j] if rev else s[i] < s[j]
                if better != (ranks[i] < ranks[j]) or ((s[i] == s[j]) != (ranks[i] == ranks[j])):
                    prop(f"{name}: rank order differs from the order of the reported {M.score_key(case['spec'])}",
                         {"i": i, "j": j, "score": [score[i], score[j]]}, [ranks[i], ranks[j]])
                    break
            else:
                continue
            break
        if replies and replies[0].get("ranks") != ranks:
            corr(f"{name}: rank_values model vs implementation", replies[0].get("ranks"), ranks)
        if len(replies) > 1:
            e = replies[1]
            if e.get("alts") != obs["alts"] or e.get("rank") != ranks or [float(C.frac(x)) for x in e.get("score", [])] != score:
                corr(f"{name}: end-to-end evaluate (guards, kernel, rank, result), model vs implementation",
                     {k: e.get(k) for k in ("err", "alts", "rank")}, {"alts": obs["alts"], "rank": ranks})
        return out
    if kind in ("mkrank", "mkagg"):
        v = case["values"]
        accept = "err" not in obs
        should = _wellformed(v)
        if accept != should:
            prop(f"RankResult {'accepted a vector with gaps / not starting at 1' if accept else 'refused a well-formed ranking'} ({kind})", should, v)
        if accept and (obs["values"] != v):
            prop("RankResult changed the values it was given", v, obs["values"])
        if kind == "mkagg" and accept and obs["alts"] != [G.lab(a) for a in case["dm"]["alternatives"]]:
            prop("mkagg method: alternatives not those of the matrix in order", [G.lab(a) for a in case["dm"]["alternatives"]], obs["alts"])
        if replies[0].get("ok") != accept:
            corr("validRank: model vs implementation", replies[0].get("ok"), accept)
        return out
    if kind == "mkkernel":
        accept = "err" not in obs
        if accept != (case["as"] == "bool"):
            prop("KernelResult validation: accepts exactly boolean vectors", case["as"] == "bool", accept)
        if accept and (obs["values"] != case["values"] or obs["len"] != len(case["values"])):
            prop("KernelResult: one boolean per alternative", case["values"], obs["values"])
        return out
    return out


def nontrivial(case, obs):
    if "err" in obs:
        return case["kind"] in ("mkrank", "mkagg", "mkkernel")
    if case["kind"] == "method":
        v = obs["values"]
        return len(v) > 2 or len(set(map(str, v))) < len(v)
    return True


def tags(case, obs):
    t = [case["kind"]]
    if case["kind"] == "method":
        t.append("method:" + case["spec"]["name"])
        if "err" in obs:
            t.append("refused")
        else:
            v = obs["values"]
            if len(set(map(str, v))) < len(v):
                t.append("has-ties")
            t.append("m=%d" % len(v))
    return t
